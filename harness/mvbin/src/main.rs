//! `mvbin <ID> [--tier quick|thorough] [--replay FILE]` – engines that need the modules of the
//! `mos` *binary* crate (language server, debug adapter, test runner). `mos` has no lib.rs, so
//! its source files are compiled a second time here through `#[path]` declarations that mirror
//! `mos/src/main.rs`; `Args`/`ErrorStyle`/`Subcommand` are the only duplicated items.
#![allow(dead_code)]
#![allow(unused_imports)]
#![allow(clippy::all)]

use std::path::{Path, PathBuf};

#[path = "/repo/mos/src/commands/mod.rs"]
mod commands;
#[path = "/repo/mos/src/config.rs"]
mod config;
#[path = "/repo/mos/src/debugger/mod.rs"]
mod debugger;
#[path = "/repo/mos/src/diagnostic_emitter.rs"]
mod diagnostic_emitter;
#[path = "/repo/mos/src/lsp/mod.rs"]
mod lsp;
#[path = "/repo/mos/src/memory_accessor.rs"]
mod memory_accessor;
#[path = "/repo/mos/src/test_runner/mod.rs"]
mod test_runner;
#[path = "/repo/mos/src/utils.rs"]
mod utils;
#[path = "/repo/mos/src/verif_hooks.rs"]
mod verif_hooks;

use crate::commands::*;

// ---- copied from mos/src/main.rs (CLI plumbing only) -------------------------------------
#[derive(argh::FromArgs, PartialEq, Eq, Debug)]
/// mos - https://mos.datatra.sh
pub struct Args {
    #[argh(subcommand)]
    subcommand: Subcommand,
    /// disables colorized output
    #[argh(switch)]
    no_color: bool,
    /// logging verbosity
    #[argh(switch, short = 'v')]
    verbosity: u8,
    /// error style
    #[argh(option, short = 'e', default = "ErrorStyle::Rich")]
    error_style: ErrorStyle,
}

#[derive(PartialEq, Eq, Debug, strum::EnumString)]
pub enum ErrorStyle {
    Short,
    Medium,
    Rich,
}

#[derive(argh::FromArgs, PartialEq, Eq, Debug)]
#[argh(subcommand)]
pub enum Subcommand {
    Init(InitArgs),
    Build(BuildArgs),
    Format(FormatArgs),
    Test(TestArgs),
    Lsp(LspArgs),
    Version(VersionArgs),
}
// -------------------------------------------------------------------------------------------

mod lspdrv;
mod props;
mod sched;

use mvlib::{Ctx, Tier};

fn main() {
    let args: Vec<String> = std::env::args().collect();
    if args.len() < 2 {
        eprintln!("usage: mvbin <ID> [--tier quick|thorough] [--replay FILE]");
        std::process::exit(2);
    }
    let id = args[1].clone();
    let mut tier = match std::env::var("VERIF_TIER").ok().as_deref() {
        Some("thorough") => Tier::Thorough,
        _ => Tier::Quick,
    };
    let mut replay: Option<String> = None;
    let mut rest: Vec<String> = vec![];
    let mut i = 2;
    while i < args.len() {
        match args[i].as_str() {
            "--tier" => {
                i += 1;
                tier = match args.get(i).map(|s| s.as_str()) {
                    Some("thorough") => Tier::Thorough,
                    Some("quick") => Tier::Quick,
                    other => {
                        eprintln!("bad tier {:?}", other);
                        std::process::exit(2);
                    }
                };
            }
            "--replay" => {
                i += 1;
                replay = args.get(i).cloned();
            }
            other => rest.push(other.to_string()),
        }
        i += 1;
    }
    mvlib::panics::install_quiet_hook();
    let threads = std::env::var("VERIF_THREADS")
        .ok()
        .and_then(|s| s.parse().ok())
        .unwrap_or(16usize);
    rayon::ThreadPoolBuilder::new()
        .num_threads(threads)
        .stack_size(64 * 1024 * 1024)
        .build_global()
        .ok();
    let mut ctx = Ctx::new(&id, tier);
    let replay_case = match &replay {
        Some(path) => {
            ctx.replay_only = true;
            let text = match std::fs::read_to_string(path) {
                Ok(t) => t,
                Err(e) => {
                    eprintln!("cannot read replay file {}: {}", path, e);
                    std::process::exit(2);
                }
            };
            let v: serde_json::Value = match serde_json::from_str(&text) {
                Ok(v) => v,
                Err(e) => {
                    eprintln!("replay file is not JSON: {}", e);
                    std::process::exit(2);
                }
            };
            Some(v.get("case").cloned().unwrap_or(v))
        }
        None => None,
    };
    let code = props::dispatch(&ctx, replay_case.as_ref(), &rest);
    std::process::exit(code);
}
