//! In-process driver for the real language server: `LspServer::start()` (initialize handshake +
//! `main_loop`) runs on its own thread over `lsp_server::Connection::memory()` (hook H2); the
//! harness is the client. A handler panic or error ends that thread exactly as it would end the
//! `mos lsp` process.

use crate::lsp::{LspContext, LspServer};
use crossbeam_channel::{Receiver, RecvTimeoutError, Sender};
use lsp_server::{Message, Notification, Request, RequestId, Response};
use mvlib::panics::{guard, PanicInfo};
use serde_json::{json, Value};
use std::collections::BTreeMap;
use std::path::PathBuf;
use std::thread::JoinHandle;
use std::time::Duration;

/// All LSP documents live in this (empty) directory; the process's cwd is set to it once.
pub fn root() -> PathBuf {
    static ROOT: once_cell::sync::OnceCell<PathBuf> = once_cell::sync::OnceCell::new();
    ROOT.get_or_init(|| {
        let base = std::env::var("VERIF_ROOT").unwrap_or_else(|_| "/verif".into());
        let dir = PathBuf::from(base)
            .join(".build/scratch")
            .join(format!("lsproot-{}", std::process::id()));
        let _ = std::fs::remove_dir_all(&dir);
        std::fs::create_dir_all(&dir).expect("cannot create LSP scratch root");
        std::env::set_current_dir(&dir).expect("cannot chdir to LSP scratch root");
        dir
    })
    .clone()
}

pub fn cleanup_root() {
    let dir = root();
    let _ = std::env::set_current_dir("/");
    let _ = std::fs::remove_dir_all(dir);
}

pub fn uri(file: &str) -> String {
    // (a name with a scheme of its own is a document that is not a file, e.g. `untitled:Untitled-1`)
    if file.contains(':') {
        return file.to_string();
    }
    format!("file://{}/{}", root().display(), file)
}

#[derive(Debug, Clone, PartialEq)]
pub enum Death {
    Panic(PanicInfo),
    /// main loop ended with an error (a handler returned Err)
    Error(String),
    /// server thread ended although no exit was requested
    Ended,
    /// no response within the horizon
    NoResponse(String),
}

pub struct Server {
    tx: Option<Sender<Message>>,
    rx: Receiver<Message>,
    handle: Option<JoinHandle<Result<Result<(), String>, PanicInfo>>>,
    next_id: i32,
    /// last publishDiagnostics per uri (value = the `diagnostics` array)
    pub diags: BTreeMap<String, Value>,
    pub dead: Option<Death>,
    pub requests_sent: usize,
}

impl Server {
    pub fn start() -> Server {
        let _ = root();
        let mut ctx = LspContext::new();
        let conn = ctx.verif_listen_memory();
        let handle = std::thread::Builder::new()
            .stack_size(16 * 1024 * 1024)
            .spawn(move || {
                guard(move || {
                    let lsp = LspServer::new(ctx);
                    lsp.start().map_err(|e| format!("{:?}", e.to_string()))
                })
            })
            .unwrap();
        let mut s = Server {
            tx: Some(conn.sender),
            rx: conn.receiver,
            handle: Some(handle),
            next_id: 1,
            diags: BTreeMap::new(),
            dead: None,
            requests_sent: 0,
        };
        let _ = s.request("initialize", json!({"capabilities": {}}));
        s.notify("initialized", json!({}));
        s
    }

    fn mark_dead(&mut self) {
        if self.dead.is_some() {
            return;
        }
        self.tx = None;
        let d = match self.handle.take() {
            Some(h) => match h.join() {
                Ok(Ok(Ok(()))) => Death::Ended,
                Ok(Ok(Err(e))) => Death::Error(e),
                Ok(Err(p)) => Death::Panic(p),
                Err(_) => Death::Ended,
            },
            None => Death::Ended,
        };
        self.dead = Some(d);
    }

    pub fn alive(&self) -> bool {
        self.dead.is_none()
    }

    pub fn notify(&mut self, method: &str, params: Value) {
        if let Some(tx) = &self.tx {
            if tx
                .send(Message::Notification(Notification {
                    method: method.to_string(),
                    params,
                }))
                .is_err()
            {
                self.mark_dead();
            }
        }
    }

    fn absorb(&mut self, n: Notification) {
        if n.method == "textDocument/publishDiagnostics" {
            let uri = n.params["uri"].as_str().unwrap_or("").to_string();
            self.diags.insert(uri, n.params["diagnostics"].clone());
        }
    }

    /// Sends a request and waits for its response. `Err` = the server died or did not answer.
    pub fn request(&mut self, method: &str, params: Value) -> Result<Value, Death> {
        if let Some(d) = &self.dead {
            return Err(d.clone());
        }
        let id = self.next_id;
        self.next_id += 1;
        self.requests_sent += 1;
        let req = Request {
            id: RequestId::from(id),
            method: method.to_string(),
            params,
        };
        let sent = self
            .tx
            .as_ref()
            .map(|tx| tx.send(Message::Request(req)).is_ok())
            .unwrap_or(false);
        if !sent {
            self.mark_dead();
            return Err(self.dead.clone().unwrap());
        }
        loop {
            match self.rx.recv_timeout(Duration::from_secs(20)) {
                Ok(Message::Notification(n)) => self.absorb(n),
                Ok(Message::Request(_)) => {}
                Ok(Message::Response(Response {
                    id: rid,
                    result,
                    error,
                })) => {
                    if rid == RequestId::from(id) {
                        if let Some(e) = error {
                            return Ok(json!({"__error": e.message}));
                        }
                        return Ok(result.unwrap_or(Value::Null));
                    }
                }
                Err(RecvTimeoutError::Disconnected) => {
                    self.mark_dead();
                    return Err(self.dead.clone().unwrap());
                }
                Err(RecvTimeoutError::Timeout) => {
                    let d = Death::NoResponse(method.to_string());
                    self.dead = Some(d.clone());
                    return Err(d);
                }
            }
        }
    }

    /// Waits until every notification sent so far has been processed.
    pub fn sync(&mut self) -> Result<(), Death> {
        // a barrier: notifications have no response, this request is answered after they have been handled. It is a
        // hover in a file that does not exist, which no analysis result has anything to say about (a request that
        // walks the project, like workspace/symbol, could itself be what leaves state behind)
        self.request(
            "textDocument/hover",
            json!({"textDocument": {"uri": uri("__barrier__.asm")}, "position": {"line": 0, "character": 0}}),
        )
        .map(|_| ())
    }

    pub fn did_open(&mut self, file: &str, text: &str) {
        self.notify(
            "textDocument/didOpen",
            json!({"textDocument": {"uri": uri(file), "languageId": "asm", "version": 1, "text": text}}),
        );
    }

    pub fn did_change(&mut self, file: &str, text: &str) {
        self.notify(
            "textDocument/didChange",
            json!({"textDocument": {"uri": uri(file), "version": 2}, "contentChanges": [{"text": text}]}),
        );
    }

    pub fn did_close(&mut self, file: &str) {
        self.notify(
            "textDocument/didClose",
            json!({"textDocument": {"uri": uri(file)}}),
        );
    }

    /// Regular shutdown; returns how the server thread ended.
    pub fn shutdown(mut self) -> Death {
        if self.dead.is_none() {
            let _ = self.request("shutdown", Value::Null);
            self.notify("exit", Value::Null);
            self.tx = None;
            self.mark_dead();
        }
        self.dead.clone().unwrap_or(Death::Ended)
    }
}

impl Drop for Server {
    fn drop(&mut self) {
        // closing our sender ends the server's receive loop
        self.tx = None;
        if let Some(h) = self.handle.take() {
            let _ = h.join();
        }
    }
}

pub fn pos_params(file: &str, line: u32, character: u32) -> Value {
    json!({"textDocument": {"uri": uri(file)}, "position": {"line": line, "character": character}})
}
