//! C17 – format-document edits reproduce the formatter.
//!
//! Enumerated: buffers = valid base programs (+ 5 formatter-specific shapes) in these variants:
//! as rendered; one comment per trivia slot (`/* c1 */` at ws slots; at mws slots also `// c2`, a
//! two-line block comment and – where the slot holds a line break – a line / block comment ending
//! the previous line); 13 whole-file spacing variants (blank lines, odd indentation, trailing
//! whitespace, widened spaces, leading / trailing blank lines, comments before end of file);
//! one-factor whitespace deviations at every slot (quick: space / tab / three spaces / one line
//! break; thorough: 7 kinds and the separator removed); thorough: all pairs of comments at most 6
//! terminals apart; the same comment slots with non-ASCII comment text (`é`, `→`, `💾`) and every
//! string literal with a non-ASCII character at its start / middle / end, each as-is, with trailing
//! whitespace and with widened spaces (so that edits follow the non-ASCII text on its line); CRLF
//! versions; 15 tiny buffers; the example sources of /repo/examples (imports flattened into the scratch root); and
//! for every such buffer the formatter's own output (already formatted text; also with CRLF line
//! ends), and the formatted base programs with one `, ` written ` ,` (text moving across unchanged
//! text, the input of the delete / equal / insert merge rule).
//! Requests per buffer (fresh real server, real main loop over an in-memory connection):
//! `textDocument/formatting` and `textDocument/onTypeFormatting` (ch = "}") after every `}`.
//!
//! Oracle (only when the answer contains edits): ranges in range, sorted, non-overlapping; applied
//! in the standard LSP manner (line ends `\n`, `\r\n`, `\r`; columns = UTF-16 code units) the
//! result equals `format(path, tree, default)` of the in-process formatter. The same edits are also
//! applied under five non-standard readings (columns in bytes / chars; `\r` counted as a column of
//! its line) – only to name the root cause in the signature and the evidence, never for a verdict.
//! `mos format` (real binary) is cross-checked against the in-process formatter on a stratified
//! selection of the buffers.

use crate::lspdrv::{root, uri, Death, Server};
use mos_core::formatting::{format, FormattingOptions};
use mos_core::parser::parse;
use mos_core::parser::source::InMemoryParsingSource;
use mvlib::grammar::*;
use mvlib::isa::Form;
use mvlib::panics::guard;
use mvlib::progs::{base_programs, Prog, OTHER_ASM};
use mvlib::{fnv_str, Ctx, Finding};
use rayon::prelude::*;
use serde_json::{json, Value};
use std::collections::{BTreeMap, BTreeSet, HashSet};
use std::path::{Path, PathBuf};
use std::process::Command;
use std::sync::atomic::{AtomicU64, Ordering};
use std::sync::Mutex;

// ------------------------------------------------------------------------------------------------
// LSP text model

#[derive(Clone, Copy, PartialEq, Eq, Debug)]
enum Units {
    Utf16,
    Bytes,
    Chars,
}

#[derive(Clone, Copy, PartialEq, Eq, Debug)]
enum LineModel {
    /// lines end at `\n`, `\r\n` or `\r` (LSP specification)
    Standard,
    /// only `\n` ends a line, a `\r` before it is a character of the line
    LfOnly,
}

/// the standard reading first
const READINGS: [(Units, LineModel, &str); 6] = [
    (Units::Utf16, LineModel::Standard, "utf16"),
    (Units::Bytes, LineModel::Standard, "bytes"),
    (Units::Chars, LineModel::Standard, "chars"),
    (Units::Utf16, LineModel::LfOnly, "utf16+cr-is-a-column"),
    (Units::Bytes, LineModel::LfOnly, "bytes+cr-is-a-column"),
    (Units::Chars, LineModel::LfOnly, "chars+cr-is-a-column"),
];

/// (content start, content end) byte offsets of every line; a text with n line ends has n+1 lines
fn split_lines(text: &str, lm: LineModel) -> Vec<(usize, usize)> {
    let b = text.as_bytes();
    let mut out = vec![];
    let mut start = 0;
    let mut i = 0;
    while i < b.len() {
        match b[i] {
            b'\n' => {
                out.push((start, i));
                start = i + 1;
                i += 1;
            }
            b'\r' if lm == LineModel::Standard => {
                out.push((start, i));
                if i + 1 < b.len() && b[i + 1] == b'\n' {
                    i += 2;
                } else {
                    i += 1;
                }
                start = i;
            }
            _ => i += 1,
        }
    }
    out.push((start, b.len()));
    out
}

fn width(c: char, u: Units) -> usize {
    match u {
        Units::Utf16 => c.len_utf16(),
        Units::Bytes => c.len_utf8(),
        Units::Chars => 1,
    }
}

#[derive(Clone, Copy, PartialEq, Eq, Debug)]
enum PosErr {
    LineBeyond,
    ColBeyond,
    InsideChar,
}

/// byte offset of a position; out-of-range positions are clamped the way the specification says
/// (character > line length -> line length; line beyond the document -> end of document)
fn offset(text: &str, lines: &[(usize, usize)], line: u64, ch: u64, u: Units) -> (usize, Option<PosErr>) {
    if line as usize >= lines.len() {
        return (text.len(), Some(PosErr::LineBeyond));
    }
    let (s, e) = lines[line as usize];
    let mut col = 0u64;
    for (i, c) in text[s..e].char_indices() {
        if col == ch {
            return (s + i, None);
        }
        if col > ch {
            return (s + i, Some(PosErr::InsideChar));
        }
        col += width(c, u) as u64;
    }
    if col == ch {
        (e, None)
    } else if col > ch {
        (e, Some(PosErr::InsideChar))
    } else {
        (e, Some(PosErr::ColBeyond))
    }
}

#[derive(Clone, Debug, PartialEq)]
struct Edit {
    sl: u64,
    sc: u64,
    el: u64,
    ec: u64,
    new_text: String,
}

fn parse_edits(v: &Value) -> Result<Vec<Edit>, String> {
    let a = v.as_array().ok_or_else(|| "answer is not an array".to_string())?;
    let mut out = vec![];
    for e in a {
        let g = |p: &str, q: &str| e["range"][p][q].as_u64().ok_or_else(|| format!("edit without range.{}.{}: {}", p, q, e));
        out.push(Edit {
            sl: g("start", "line")?,
            sc: g("start", "character")?,
            el: g("end", "line")?,
            ec: g("end", "character")?,
            new_text: e["newText"].as_str().ok_or_else(|| format!("edit without newText: {}", e))?.to_string(),
        });
    }
    Ok(out)
}

struct Applied {
    /// every position exists in the document under this reading
    in_range: bool,
    first_out_of_range: Option<(usize, PosErr)>,
    /// None when the edits overlap after conversion to offsets
    text: Option<String>,
    /// per edit (in offset order): (edit index, start of its new text in the result)
    out_starts: Vec<(usize, usize)>,
}

/// All ranges refer to the original text; edits are applied in offset order (stable for equal
/// starts), as a client does.
fn apply(text: &str, edits: &[Edit], u: Units, lm: LineModel) -> Applied {
    let lines = split_lines(text, lm);
    let mut conv: Vec<(usize, usize, usize)> = vec![];
    let mut first_bad = None;
    for (i, e) in edits.iter().enumerate() {
        let (so, e1) = offset(text, &lines, e.sl, e.sc, u);
        let (eo, e2) = offset(text, &lines, e.el, e.ec, u);
        if first_bad.is_none() {
            if let Some(p) = e1.or(e2) {
                first_bad = Some((i, p));
            }
        }
        conv.push((so, eo, i));
    }
    conv.sort_by_key(|c| c.0);
    let mut out = String::new();
    let mut out_starts = vec![];
    let mut cur = 0usize;
    let mut ok = true;
    for (so, eo, i) in &conv {
        if *so < cur || eo < so {
            ok = false;
            break;
        }
        out.push_str(&text[cur..*so]);
        out_starts.push((*i, out.len()));
        out.push_str(&edits[*i].new_text);
        cur = *eo;
    }
    if ok {
        out.push_str(&text[cur..]);
    }
    Applied {
        in_range: first_bad.is_none(),
        first_out_of_range: first_bad,
        text: if ok { Some(out) } else { None },
        out_starts,
    }
}

/// order / overlap on the raw positions (independent of any reading)
fn order_problem(edits: &[Edit]) -> Option<(&'static str, usize)> {
    for (i, e) in edits.iter().enumerate() {
        if (e.sl, e.sc) > (e.el, e.ec) {
            return Some(("unsorted", i));
        }
    }
    for i in 1..edits.len() {
        let (p, q) = (&edits[i - 1], &edits[i]);
        if (q.sl, q.sc) < (p.sl, p.sc) {
            return Some(("unsorted", i));
        }
        if (q.sl, q.sc) < (p.el, p.ec) {
            return Some(("overlap", i));
        }
    }
    None
}

fn edit_shape(text: &str, e: &Edit) -> String {
    let lines = split_lines(text, LineModel::Standard);
    let empty_range = (e.sl, e.sc) == (e.el, e.ec);
    let multi = e.sl != e.el || e.new_text.contains('\n');
    let kind = if empty_range {
        "insert"
    } else if e.new_text.is_empty() {
        "delete"
    } else {
        "replace"
    };
    let at_eol = (e.sl as usize) < lines.len() && {
        let (s, en) = lines[e.sl as usize];
        let (o, _) = offset(text, &lines, e.sl, e.sc, Units::Utf16);
        o == en && en > s
    };
    format!("{}{}{}", if multi { "multi-line-" } else { "" }, kind, if at_eol { "-at-eol" } else { "" })
}

/// The model must behave on hand-made cases; otherwise the engine is broken (machinery failure).
fn self_check() -> Result<(), String> {
    let e = |sl, sc, el, ec, t: &str| Edit {
        sl,
        sc,
        el,
        ec,
        new_text: t.to_string(),
    };
    // (text, edits, reading index, expected result, in range)
    let cases: Vec<(&str, Vec<Edit>, usize, Option<&str>, bool)> = vec![
        ("foo foo foo", vec![e(0, 0, 0, 3, "b"), e(0, 8, 0, 11, "b")], 0, Some("b foo b"), true),
        ("nop\n{nop}", vec![e(1, 0, 1, 1, "\n{\n    "), e(1, 4, 1, 4, "\n")], 0, Some("nop\n\n{\n    nop\n}"), true),
        // `💾` is 2 UTF-16 units, 4 bytes, 1 char
        ("a💾b c", vec![e(0, 4, 0, 5, "")], 0, Some("a💾bc"), true),
        ("a💾b c", vec![e(0, 6, 0, 7, "")], 1, Some("a💾bc"), true),
        ("a💾b c", vec![e(0, 3, 0, 4, "")], 2, Some("a💾bc"), true),
        ("a💾b c", vec![e(0, 6, 0, 7, "")], 0, Some("a💾b c"), false),
        ("a💾b", vec![e(0, 2, 0, 2, "x")], 0, Some("a💾xb"), false),
        // line ends
        ("a\r\nb\rc\nd", vec![e(1, 0, 1, 1, "B"), e(2, 0, 2, 1, "C"), e(3, 0, 3, 1, "D")], 0, Some("a\r\nB\rC\nD"), true),
        ("a\r\nb", vec![e(0, 1, 0, 2, "")], 0, Some("a\r\nb"), false),
        ("a\r\nb", vec![e(0, 1, 0, 2, "")], 3, Some("a\nb"), true),
        ("a\r\nb", vec![e(0, 1, 1, 0, "\n")], 0, Some("a\nb"), true),
        ("ab", vec![e(5, 0, 5, 0, "x")], 0, Some("abx"), false),
        ("abcdef", vec![e(0, 0, 0, 3, "x"), e(0, 2, 0, 4, "y")], 0, None, true),
        ("", vec![e(0, 0, 0, 0, "x")], 0, Some("x"), true),
        ("ab\n", vec![e(1, 0, 1, 0, "x")], 0, Some("ab\nx"), true),
    ];
    for (text, edits, r, want, in_range) in cases {
        let (u, lm, name) = READINGS[r];
        let a = apply(text, &edits, u, lm);
        if a.text.as_deref() != want || a.in_range != in_range {
            return Err(format!(
                "text model self-check: {:?} with {:?} under {} gives {:?} (in range {}), expected {:?} (in range {})",
                text, edits, name, a.text, a.in_range, want, in_range
            ));
        }
    }
    if order_problem(&[e(0, 4, 0, 5, ""), e(0, 0, 0, 1, "")]).map(|p| p.0) != Some("unsorted")
        || order_problem(&[e(0, 0, 0, 5, ""), e(0, 4, 0, 6, "")]).map(|p| p.0) != Some("overlap")
        || order_problem(&[e(0, 0, 0, 5, ""), e(0, 5, 0, 5, "x"), e(0, 5, 0, 6, "")]).is_some()
    {
        return Err("text model self-check: order_problem".into());
    }
    Ok(())
}

// ------------------------------------------------------------------------------------------------
// buffers

#[derive(Clone, Debug)]
struct Buf {
    prog: String,
    family: &'static str,
    variant: String,
    /// (file name relative to the scratch root, text); the entry point is `main.asm`
    files: Vec<(String, String)>,
    /// the file the requests are about
    target: String,
}

impl Buf {
    fn text(&self) -> &str {
        &self.files.iter().find(|f| f.0 == self.target).unwrap().1
    }
    fn key(&self) -> u64 {
        let mut s = self.target.clone();
        for (n, t) in &self.files {
            s.push('\u{1}');
            s.push_str(n);
            s.push('\u{2}');
            s.push_str(t);
        }
        fnv_str(&s)
    }
    fn case_json(&self, request: &str, pos: Option<(u64, u64)>) -> Value {
        let mut files = serde_json::Map::new();
        for (n, t) in &self.files {
            files.insert(n.clone(), json!(t));
        }
        let mut c = json!({"program": self.prog, "family": self.family, "variant": self.variant, "files": files, "target": self.target, "request": request});
        if let Some((l, ch)) = pos {
            c["position"] = json!({"line": l, "character": ch});
        }
        c
    }
}

const FLAVORS: [&str; 3] = ["é", "→", "💾"];

/// comment kinds as in C12: 0 block, 1 line, 2 two-line block (inserted before the terminal),
/// 3 line / 4 block comment ending the previous line (replace a line-break separator)
const COMMENT_KINDS: [&str; 8] = ["block", "line", "mblock", "eol-line", "eol-block", "same-line", "same-line-block", "block-with-lone-cr"];

fn comment_text(kind: usize, second: bool, flavor: Option<&str>) -> String {
    let (a, b, c, d) = match (flavor, second) {
        (None, false) => ("c1".to_string(), "c2".to_string(), "a".to_string(), "b".to_string()),
        (None, true) => ("d1".to_string(), "d2".to_string(), "e".to_string(), "f".to_string()),
        (Some(f), _) => (f.to_string(), f.to_string(), f.to_string(), f.to_string()),
    };
    match kind {
        0 => format!("/* {} */", a),
        1 => format!("// {}\n", b),
        2 => format!("/* {}\n   {} */", c, d),
        3 => format!(" // {}\n", b),
        4 => format!(" /* {} */\n", a),
        // the statement shares the previous statement's line
        5 => " ".to_string(),
        6 => format!(" /* {} */ ", a),
        // a carriage return that is not followed by a line feed ends a line all the same (LSP), and the only place
        // the grammar has for it is a block comment
        _ => format!("/* {}\r{} */", c, d),
    }
}

fn comment_dev(slot: (usize, usize), second: bool, flavor: Option<&str>) -> Dev {
    let text = comment_text(slot.1, second, flavor);
    if (3..=6).contains(&slot.1) {
        Dev::Sep(slot.0, text)
    } else {
        Dev::Insert(slot.0, text)
    }
}

/// (terminal index, comment kind) for every comment slot
fn comment_slots(r: &Rendered) -> Vec<(usize, usize)> {
    let mut out = vec![];
    for (i, t) in r.terms.iter().enumerate() {
        match t.slot {
            Slot::None => {}
            Slot::Ws => out.push((i, 0)),
            Slot::Mws => {
                for k in 0..3 {
                    out.push((i, k));
                }
                out.push((i, 7));
                if t.sep == "\n" {
                    out.push((i, 3));
                    out.push((i, 4));
                }
                if r.joinable(i) {
                    out.push((i, 5));
                    out.push((i, 6));
                }
            }
        }
    }
    out
}

const WS_DEVS: [(&str, &str); 3] = [("space", " "), ("tab", "\t"), ("spaces3", "   ")];
const MWS_DEVS: [(&str, &str); 4] = [("newline", "\n"), ("newlines2", "\n\n"), ("space-newline", " \n"), ("newline-tab", "\n\t")];

const FILE_VARIANTS: [&str; 13] = [
    "double-spaces",
    "blank-lines",
    "indented",
    "leading-blank",
    "trailing-newline",
    "trailing-blank-lines",
    "trailing-ws",
    "wide-spaces",
    "tabs",
    "eof-line-comment",
    "eof-block-comment",
    "eof-own-line-comment",
    "eof-mblock-comment",
];

fn file_variant(base: &str, v: &str) -> String {
    match v {
        "as-is" => base.to_string(),
        "blank-lines" => base.replace('\n', "\n\n\n"),
        "indented" => format!("  {}", base.replace('\n', "\n\t  ")),
        "leading-blank" => format!("\n\n  {}", base),
        "trailing-newline" => format!("{}\n", base),
        "trailing-blank-lines" => format!("{}\n\n\n", base),
        "trailing-ws" => format!("{}  \t", base.replace('\n', " \t \n")),
        "wide-spaces" => base.replace(' ', "   "),
        "double-spaces" => base.replace(' ', "  "),
        "tabs" => base.replace(' ', "\t"),
        "eof-line-comment" => format!("{} // c2", base),
        "eof-block-comment" => format!("{} /* c1 */", base),
        "eof-own-line-comment" => format!("{}\n// c2\n", base),
        "eof-mblock-comment" => format!("{}\n/* a\n   b */\n", base),
        _ => unreachable!(),
    }
}

fn extra_programs() -> Vec<Prog> {
    let nop = || imp("nop");
    let p = |name: &str, stmts: Vec<Stmt>| Prog {
        name: name.to_string(),
        stmts,
        valid: true,
    };
    vec![
        p(
            "fmt-long-labels",
            vec![
                label("a_label_longer_than_the_label_margin"),
                nop(),
                label("x"),
                nop(),
                label_block("another_quite_long_label_name", vec![nop(), label("inner_label_that_is_long_too"), imp("rts")]),
            ],
        ),
        p(
            "fmt-label-runs",
            vec![
                label("l1"),
                label("l2"),
                nop(),
                label("d1"),
                byte(vec![num(1), num(2)]),
                label("t1"),
                Stmt::Text {
                    encoding: None,
                    value: string("ab"),
                },
                label("e1"),
            ],
        ),
        p(
            "fmt-empty-blocks",
            vec![
                Stmt::Braces(vec![]),
                label_block("e", vec![]),
                Stmt::Loop {
                    count: num(2),
                    body: vec![],
                },
                Stmt::If {
                    cond: num(1),
                    then: vec![],
                    els: Some(vec![]),
                },
                Stmt::Test {
                    name: "t".into(),
                    body: vec![],
                },
                nop(),
            ],
        ),
        p(
            "fmt-mixed-kinds",
            vec![
                konst("c", num(1)),
                konst("d", num(2)),
                ins("lda", Form::Imm, id("c")),
                byte(vec![id("d")]),
                ins("ldx", Form::Imm, id("d")),
                Stmt::Braces(vec![nop()]),
                Stmt::Braces(vec![nop()]),
                Stmt::If {
                    cond: id("c"),
                    then: vec![nop()],
                    els: None,
                },
                label("after_if"),
                imp("rts"),
            ],
        ),
        // string literals everywhere a string may stand
        p(
            "fmt-strings",
            vec![
                konst("s", string("ab")),
                Stmt::Text {
                    encoding: None,
                    value: string("cd"),
                },
                Stmt::Test {
                    name: "tn".into(),
                    body: vec![
                        Stmt::Assert {
                            cond: num(1),
                            msg: Some("msg".into()),
                        },
                        imp("brk"),
                    ],
                },
                byte(vec![bin(id("s"), "==", string("ab")), num(2)]),
            ],
        ),
    ]
}

fn main_files(text: String) -> Vec<(String, String)> {
    let mut files = vec![("main.asm".to_string(), text)];
    if files[0].1.contains("other.asm") {
        files.push(("other.asm".to_string(), OTHER_ASM.to_string()));
    }
    files
}

fn crlf(s: &str) -> String {
    s.replace('\n', "\r\n")
}

fn buffers(thorough: bool, ctx: &Ctx) -> Vec<Buf> {
    let mut progs: Vec<Prog> = base_programs().into_iter().filter(|p| p.valid).collect();
    progs.extend(extra_programs());
    ctx.set("base_programs", json!(progs.len()));
    let mut out: Vec<Buf> = vec![];
    let mut slots_total = 0usize;
    let mut string_terms = 0usize;
    for p in &progs {
        let r = render(&p.stmts);
        let base = r.text();
        let mut push = |family: &'static str, variant: String, text: String, with_crlf: bool| {
            out.push(Buf {
                prog: p.name.clone(),
                family,
                variant: variant.clone(),
                files: main_files(text.clone()),
                target: "main.asm".into(),
            });
            if with_crlf && text.contains('\n') {
                out.push(Buf {
                    prog: p.name.clone(),
                    family,
                    variant: format!("{}+crlf", variant),
                    files: main_files(crlf(&text)),
                    target: "main.asm".into(),
                });
            }
        };
        // as rendered + whole-file variants
        push("plain", "as-is".into(), base.clone(), true);
        for v in FILE_VARIANTS.iter() {
            push("file-variant", v.to_string(), file_variant(&base, v), true);
        }
        // one comment per slot (ASCII)
        let slots = comment_slots(&r);
        slots_total += r.terms.iter().filter(|t| t.slot != Slot::None).count();
        for (i, k) in &slots {
            let text = r.layout(&[comment_dev((*i, *k), false, None)]).text;
            push("comment-slot", format!("{}@{}", COMMENT_KINDS[*k], i), text, true);
        }
        // the same slots with non-ASCII comment text; the edits of interest follow the comment
        // on its line, hence also the trailing-whitespace and widened-spaces transforms
        for (n, (i, k)) in slots.iter().enumerate() {
            for (fi, f) in FLAVORS.iter().enumerate() {
                if !thorough && fi != n % 3 {
                    continue;
                }
                let text = r.layout(&[comment_dev((*i, *k), false, Some(f))]).text;
                let name = format!("{}@{}:{}", COMMENT_KINDS[*k], i, f);
                push("non-ascii-comment", name.clone(), text.clone(), true);
                push("non-ascii-comment", format!("{}+trailing-ws", name), file_variant(&text, "trailing-ws"), thorough);
                push("non-ascii-comment", format!("{}+wide-spaces", name), file_variant(&text, "wide-spaces"), thorough);
            }
        }
        // non-ASCII text in string literals (not in import file names)
        let mut n = 0usize;
        for (i, t) in r.terms.iter().enumerate() {
            if t.kind != Kind::Str || t.text.contains(".asm") {
                continue;
            }
            string_terms += 1;
            let inner: Vec<char> = t.text[1..t.text.len() - 1].chars().collect();
            for (pi, pos) in ["start", "middle", "end"].iter().enumerate() {
                for (fi, f) in FLAVORS.iter().enumerate() {
                    n += 1;
                    if !thorough && fi != (n / 3 + pi) % 3 {
                        continue;
                    }
                    let at = match pi {
                        0 => 0,
                        1 => 1.min(inner.len()),
                        _ => inner.len(),
                    };
                    let mut s: String = inner[..at].iter().collect();
                    s.push_str(f);
                    s.extend(inner[at..].iter());
                    let mut r2 = r.clone();
                    r2.terms[i].text = format!("\"{}\"", s);
                    let text = r2.text();
                    let name = format!("string@{}:{}:{}", i, pos, f);
                    push("non-ascii-string", name.clone(), text.clone(), true);
                    push("non-ascii-string", format!("{}+trailing-ws", name), file_variant(&text, "trailing-ws"), thorough);
                    push("non-ascii-string", format!("{}+wide-spaces", name), file_variant(&text, "wide-spaces"), thorough);
                    if thorough {
                        push("non-ascii-string", format!("{}+indented", name), file_variant(&text, "indented"), true);
                    }
                }
            }
        }
        // one-factor whitespace deviations: quick = space / tab / three spaces / one line break at
        // every slot that takes it, thorough = all seven kinds and the default separator removed
        for (i, t) in r.terms.iter().enumerate() {
            let devs: Vec<(&str, &str)> = match t.slot {
                Slot::None => vec![],
                Slot::Ws => WS_DEVS.to_vec(),
                Slot::Mws => WS_DEVS.iter().chain(MWS_DEVS.iter()).cloned().collect(),
            };
            for (name, s) in devs {
                if !thorough && MWS_DEVS.iter().any(|d| d.0 == name) && name != "newline" {
                    continue;
                }
                let text = r.layout(&[Dev::Insert(i, s.to_string())]).text;
                push("whitespace-deviation", format!("{}@{}", name, i), text, true);
            }
            // the default separator removed (where the result is still an error-free buffer)
            if thorough && !t.sep.is_empty() && i > 0 {
                let text = r.layout(&[Dev::Sep(i, String::new())]).text;
                push("whitespace-deviation", format!("no-separator@{}", i), text, false);
            }
        }
        if thorough {
            // pairs of comments at most 6 terminals apart, distinct texts
            for a in 0..slots.len() {
                for b in a + 1..slots.len() {
                    if slots[b].0 - slots[a].0 > 6 {
                        break;
                    }
                    if slots[a].0 == slots[b].0 && ((3..=6).contains(&slots[a].1)) != ((3..=6).contains(&slots[b].1)) {
                        // a separator replacement and an insertion at the same terminal are fine;
                        // two separator replacements are not two comments
                    }
                    if slots[a].0 == slots[b].0 && (3..=6).contains(&slots[a].1) && (3..=6).contains(&slots[b].1) {
                        continue;
                    }
                    let text = r
                        .layout(&[comment_dev(slots[a], false, None), comment_dev(slots[b], true, None)])
                        .text;
                    push(
                        "comment-pair",
                        format!("{}@{}&{}@{}", COMMENT_KINDS[slots[a].1], slots[a].0, COMMENT_KINDS[slots[b].1], slots[b].0),
                        text,
                        false,
                    );
                }
            }
        }
    }
    ctx.set("trivia_slots", json!(slots_total));
    ctx.set("string_terminals", json!(string_terms));

    // tiny buffers (the smallest members of the classes above; they become the reproducers)
    for t in [
        "nop",
        "nop\n",
        "nop\nnop",
        "{nop}",
        "{nop}\n",
        "a: nop",
        "a:\nnop  \n",
        "/* é */nop",
        "/* → */nop",
        "/* 💾 */nop",
        ".text \"é\"  ",
        "lda /* 💾 */  #1",
        "nop // é",
        "nop   // é\n nop",
        ".const s = \"é→💾\"  \nnop",
    ] {
        for text in [t.to_string(), crlf(t)] {
            out.push(Buf {
                prog: "tiny".into(),
                family: "tiny",
                variant: format!("{:?}", text),
                files: main_files(text),
                target: "main.asm".into(),
            });
        }
    }

    // a file that is not the entry point: other.asm imported by main.asm
    for (v, other) in [
        ("as-is", OTHER_ASM.to_string()),
        ("crlf", crlf(OTHER_ASM)),
        ("non-ascii", format!("// é → 💾  \n{}  // 💾 end  ", OTHER_ASM.replace("{ baz", "{ /* → */   baz"))),
    ] {
        out.push(Buf {
            prog: "imported-file".into(),
            family: "imported-file",
            variant: v.into(),
            files: vec![
                ("main.asm".into(), ".import * from \"other.asm\"\njsr foo".into()),
                ("other.asm".into(), other),
            ],
            target: "other.asm".into(),
        });
    }

    // example sources; the documents of a server live in one scratch root, so the imported file is
    // placed next to main.asm and the import path is flattened accordingly
    let examples = Path::new("/repo/examples");
    let mut n_examples = 0;
    for (dir, import) in [
        ("atari800/colors", Some(("atari800.asm", "atari800/colors/atari800.asm"))),
        ("c64/cartridge", Some(("../shared/c64.asm", "c64/shared/c64.asm"))),
        ("c64/scroller", Some(("../shared/c64.asm", "c64/shared/c64.asm"))),
        ("c64/unit-testing", None),
    ] {
        let main = match std::fs::read_to_string(examples.join(dir).join("main.asm")) {
            Ok(t) => t,
            Err(_) => {
                ctx.note(format!("example {} not readable", dir));
                continue;
            }
        };
        let mut files = vec![];
        let mut main = main;
        let mut imp_name = None;
        if let Some((as_written, path)) = import {
            if let Ok(t) = std::fs::read_to_string(examples.join(path)) {
                let flat = Path::new(path).file_name().unwrap().to_string_lossy().to_string();
                main = main.replace(&format!("\"{}\"", as_written), &format!("\"{}\"", flat));
                files.push((flat.clone(), t));
                imp_name = Some(flat);
            }
        }
        files.insert(0, ("main.asm".to_string(), main));
        let mut targets = vec!["main.asm".to_string()];
        if let Some(i) = imp_name {
            targets.push(i);
        }
        for t in targets {
            n_examples += 1;
            for (v, tr) in [("as-is", "as-is"), ("crlf", "as-is"), ("trailing-ws", "trailing-ws"), ("wide-spaces", "wide-spaces")] {
                let mut fs = files.clone();
                for f in fs.iter_mut() {
                    if f.0 == t {
                        f.1 = file_variant(&f.1, tr);
                        if v == "crlf" {
                            f.1 = crlf(&f.1.replace("\r\n", "\n"));
                        }
                    }
                }
                out.push(Buf {
                    prog: format!("example:{}", dir),
                    family: "example",
                    variant: format!("{}:{}", t, v),
                    files: fs,
                    target: t.clone(),
                });
            }
        }
    }
    ctx.set("example_files", json!(n_examples));
    out
}

// ------------------------------------------------------------------------------------------------
// reference: the in-process formatter on the same paths the server uses

#[derive(Clone, Debug)]
enum Reference {
    Formatted(String),
    /// the buffer has parse diagnostics: outside the quantifier
    NotErrorFree(String),
    Panic(String),
}

fn reference(b: &Buf) -> Reference {
    let rootp = root();
    let mut src = InMemoryParsingSource::new();
    for (n, t) in &b.files {
        src = src.add(rootp.join(n).to_string_lossy().to_string(), t);
    }
    let main = rootp.join("main.asm");
    let target = rootp.join(&b.target);
    let r = guard(move || {
        let (tree, errs) = parse(&main, src.into());
        match tree {
            Some(t) if errs.is_empty() => {
                if t.try_get_file(&target).is_none() {
                    return Err("target file is not part of the parse tree".to_string());
                }
                Ok(format(target, t, FormattingOptions::default()))
            }
            _ => Err(errs.iter().next().map(|d| d.message.clone()).unwrap_or_else(|| "no parse tree".into())),
        }
    });
    match r {
        Ok(Ok(s)) => Reference::Formatted(s),
        Ok(Err(e)) => Reference::NotErrorFree(e),
        Err(p) => Reference::Panic(format!("{} at {}", p.message, p.site)),
    }
}

// ------------------------------------------------------------------------------------------------
// one buffer on a fresh server

#[derive(Clone, Debug)]
struct Req {
    kind: &'static str,
    pos: Option<(u64, u64)>,
}

fn requests_for(text: &str, max_on_type: usize) -> Vec<Req> {
    let mut out = vec![
        Req {
            kind: "formatting",
            pos: None,
        },
        // the same request from an editor that is set up differently (tabSize 2, tabs): `mos format` does not know
        // about the editor, so the answer is the same
        Req {
            kind: "formatting-tab2",
            pos: None,
        },
    ];
    let lines = split_lines(text, LineModel::Standard);
    let mut n = 0;
    for (li, (s, e)) in lines.iter().enumerate() {
        let mut col = 0u64;
        for c in text[*s..*e].chars() {
            col += c.len_utf16() as u64;
            if c == '}' {
                n += 1;
                if n <= max_on_type {
                    out.push(Req {
                        kind: "onTypeFormatting",
                        pos: Some((li as u64, col)),
                    });
                }
            }
        }
    }
    out
}

fn send(s: &mut Server, file: &str, r: &Req) -> Result<Value, Death> {
    let opts = if r.kind == "formatting-tab2" { json!({"tabSize": 2, "insertSpaces": false}) } else { json!({"tabSize": 4, "insertSpaces": true}) };
    match r.pos {
        None => s.request("textDocument/formatting", json!({"textDocument": {"uri": uri(file)}, "options": opts})),
        Some((l, c)) => s.request(
            "textDocument/onTypeFormatting",
            json!({"textDocument": {"uri": uri(file)}, "position": {"line": l, "character": c}, "ch": "}", "options": opts}),
        ),
    }
}

fn open_all(s: &mut Server, b: &Buf) -> Result<(), Death> {
    // imported files first, so that main.asm's import finds them
    for (n, t) in b.files.iter().filter(|f| f.0 != "main.asm") {
        s.did_open(n, t);
    }
    if let Some((n, t)) = b.files.iter().find(|f| f.0 == "main.asm") {
        s.did_open(n, t);
    }
    s.sync()
}

struct Judged {
    /// violated clauses in statement order: out-of-range, overlap, unsorted, wrong-text
    violated: Vec<&'static str>,
    /// readings (names) under which the edits reproduce the formatter with all positions in range
    reproduce: Vec<&'static str>,
    label: String,
    what: String,
    n_edits: usize,
    shapes: BTreeSet<String>,
}

fn show(s: &str) -> String {
    if s.len() > 500 {
        let mut end = 500;
        while !s.is_char_boundary(end) {
            end -= 1;
        }
        format!("{:?}…", &s[..end])
    } else {
        format!("{:?}", s)
    }
}

fn first_diff(a: &str, b: &str) -> usize {
    a.bytes().zip(b.bytes()).position(|(x, y)| x != y).unwrap_or(a.len().min(b.len()))
}

fn judge(text: &str, expected: &str, edits: &[Edit]) -> Judged {
    let mut violated = vec![];
    let mut reproduce = vec![];
    let std = apply(text, edits, Units::Utf16, LineModel::Standard);
    let mut culprit: Option<usize> = None;
    let mut details = vec![];
    if let Some((i, why)) = std.first_out_of_range {
        violated.push("out-of-range");
        culprit = Some(i);
        let e = &edits[i];
        details.push(format!(
            "edit #{} {}:{}-{}:{} is outside the buffer ({})",
            i,
            e.sl,
            e.sc,
            e.el,
            e.ec,
            match why {
                PosErr::LineBeyond => "line beyond the last line",
                PosErr::ColBeyond => "character beyond the end of the line",
                PosErr::InsideChar => "character inside a surrogate pair",
            }
        ));
    }
    if let Some((k, i)) = order_problem(edits) {
        violated.push(k);
        culprit = culprit.or(Some(i));
        details.push(format!("edit #{} {} with its predecessor", i, if k == "overlap" { "overlaps" } else { "is not in order" }));
    }
    let ok_text = std.text.as_deref() == Some(expected);
    if !ok_text {
        violated.push("wrong-text");
        match &std.text {
            Some(t) => {
                let d = first_diff(t, expected);
                let resp = std.out_starts.iter().filter(|(_, o)| *o <= d).map(|(i, _)| *i).last().or(std.out_starts.first().map(|x| x.0));
                culprit = culprit.or(resp);
                let mut ds = d;
                while !t.is_char_boundary(ds) {
                    ds -= 1;
                }
                let mut de = d;
                while !expected.is_char_boundary(de) {
                    de -= 1;
                }
                let tail = |s: &str, at: usize| -> String {
                    let from = s[..at].char_indices().rev().nth(12).map(|x| x.0).unwrap_or(0);
                    let to = s[at..].char_indices().nth(24).map(|x| at + x.0).unwrap_or(s.len());
                    format!("{:?}", &s[from..to])
                };
                details.push(format!(
                    "applied result differs from the formatter's text at byte {}: got …{}… expected …{}…",
                    d,
                    tail(t, ds),
                    tail(expected, de)
                ));
            }
            None => details.push("edits overlap after conversion to offsets: cannot be applied".to_string()),
        }
    }
    for (u, lm, name) in READINGS.iter() {
        let a = if *name == "utf16" { None } else { Some(apply(text, edits, *u, *lm)) };
        let (in_range, t) = match &a {
            None => (std.in_range, std.text.as_deref()),
            Some(a) => (a.in_range, a.text.as_deref()),
        };
        if in_range && t == Some(expected) {
            reproduce.push(*name);
        }
    }
    let shapes: BTreeSet<String> = edits.iter().map(|e| edit_shape(text, e)).collect();
    // label: the non-standard reading that explains the failure, else the shape of the culprit
    let label = if violated.is_empty() {
        String::new()
    } else {
        let pick = ["utf16+cr-is-a-column", "bytes", "chars", "bytes+cr-is-a-column", "chars+cr-is-a-column"]
            .iter()
            .find(|n| reproduce.contains(*n));
        match pick {
            Some(&"utf16+cr-is-a-column") => "cr-counted-as-column".to_string(),
            Some(&"bytes") => "byte-columns".to_string(),
            Some(&"chars") => "char-columns".to_string(),
            Some(&"bytes+cr-is-a-column") => "byte-columns+cr-counted-as-column".to_string(),
            Some(&"chars+cr-is-a-column") => "char-columns+cr-counted-as-column".to_string(),
            _ => culprit.map(|i| edit_shape(text, &edits[i])).unwrap_or_else(|| "no-edit".into()),
        }
    };
    Judged {
        violated,
        reproduce,
        label,
        what: details.join("; "),
        n_edits: edits.len(),
        shapes,
    }
}

fn classes(b: &Buf) -> (&'static str, &'static str) {
    let t = b.text();
    (if t.is_ascii() { "ascii" } else { "non-ascii" }, if t.contains("\r\n") { "crlf" } else { "lf" })
}

struct BufOut {
    /// formatter output when the buffer is error-free and differs from the buffer
    formatted: Option<String>,
    reference_ok: bool,
}

fn run_buffer(ctx: &Ctx, b: &Buf, max_on_type: usize) -> BufOut {
    let text = b.text().to_string();
    let (ascii, eol) = classes(b);
    let reference = reference(b);
    let reqs = requests_for(&text, max_on_type);
    let mut server = Server::start();
    let opened = open_all(&mut server, b);
    let mut answers: Vec<(Req, Result<Value, Death>)> = vec![];
    for r in &reqs {
        ctx.eval(|| b.case_json(r.kind, r.pos));
        ctx.count(&format!("requests:{}", r.kind));
        let a = match &opened {
            Ok(()) => send(&mut server, &b.target, r),
            Err(d) => Err(d.clone()),
        };
        let dead = a.is_err();
        answers.push((r.clone(), a));
        if dead {
            break;
        }
    }
    let expected = match &reference {
        Reference::Formatted(s) => s.clone(),
        Reference::NotErrorFree(_) => {
            ctx.count("buffers_not_error_free_(outside_the_quantifier)");
            ctx.count(&format!("not_error_free:{}", b.family));
            return BufOut {
                formatted: None,
                reference_ok: false,
            };
        }
        Reference::Panic(p) => {
            ctx.count("buffers_formatter_panics_in_process_(no_verdict)");
            ctx.note(format!("in-process formatter panics on {}: {}", show(&text), p));
            return BufOut {
                formatted: None,
                reference_ok: false,
            };
        }
    };
    ctx.count("buffers_parse_clean");
    ctx.count(&format!("buffers:{}:{}:{}", b.family, ascii, eol));
    let already = expected == text;
    ctx.count(if already { "buffers_already_formatted" } else { "buffers_not_yet_formatted" });

    // which arms of the chunk -> edit rewrite this (buffer, formatter text) pair reaches; computed
    // with the same diff library, for the evidence only
    {
        use dissimilar::Chunk;
        let chunks = dissimilar::diff(&text, &expected);
        let mut arms: BTreeSet<&str> = BTreeSet::new();
        let mut i = 0;
        while i < chunks.len() {
            match (chunks[i], chunks.get(i + 1), chunks.get(i + 2)) {
                (Chunk::Delete(d), Some(Chunk::Equal(_)), Some(Chunk::Insert(ins))) if &d == ins => {
                    arms.insert("delete-equal-insert-merge");
                    i += 3;
                }
                (Chunk::Delete(d), Some(Chunk::Insert(ins)), _) => {
                    arms.insert("delete+insert");
                    if d.contains('\n') || ins.contains('\n') {
                        arms.insert("multi-line-chunk");
                    }
                    i += 2;
                }
                (Chunk::Equal(e), _, _) => {
                    if e.contains('\n') {
                        arms.insert("equal-chunk-spanning-lines");
                    }
                    i += 1;
                }
                (Chunk::Insert(x), _, _) => {
                    arms.insert("insert");
                    if x.contains('\n') {
                        arms.insert("multi-line-chunk");
                    }
                    i += 1;
                }
                (Chunk::Delete(x), _, _) => {
                    arms.insert("delete");
                    if x.contains('\n') {
                        arms.insert("multi-line-chunk");
                    }
                    i += 1;
                }
            }
        }
        if let Ok(want) = std::env::var("VERIF_C17_DUMP") {
            if arms.contains(want.as_str()) {
                eprintln!("[c17] {} / {} reaches {}: {:?} -> {:?}", b.prog, b.variant, want, text, expected);
            }
        }
        for a in arms {
            ctx.count(&format!("buffers_reaching_rewrite_arm:{}", a));
        }
    }

    // group identical answers: the handler ignores the request kind and the position
    let mut groups: Vec<(String, Vec<usize>)> = vec![];
    for (i, (_, a)) in answers.iter().enumerate() {
        let key = match a {
            Ok(v) => v.to_string(),
            Err(d) => format!("died:{:?}", d),
        };
        match groups.iter_mut().find(|g| g.0 == key) {
            Some(g) => g.1.push(i),
            None => groups.push((key, vec![i])),
        }
    }
    if groups.len() > 1 {
        ctx.count("buffers_with_different_answers_per_request");
    }
    for (_, members) in &groups {
        let kinds: BTreeSet<&str> = members.iter().map(|i| answers[*i].0.kind).collect();
        let all_kinds: BTreeSet<&str> = answers.iter().map(|a| a.0.kind).collect();
        // `any`: every request sent for this buffer (formatting and, where the buffer has a `}`,
        // onTypeFormatting at every such position) got this very answer
        let _ = all_kinds;
        let kind = if groups.len() == 1 {
            "any".to_string()
        } else {
            kinds.iter().cloned().collect::<Vec<_>>().join("+")
        };
        let first = &answers[members[0]];
        let n = members.len() as u64;
        let v = match &first.1 {
            Ok(v) => v,
            Err(d) => {
                // a dying server is C14's subject; counted, no verdict here
                ctx.count_n("answers_server_died_(no_verdict)", n);
                ctx.note(format!("server died on {} for {}: {:?}", first.0.kind, show(&text), d));
                continue;
            }
        };
        if v.is_null() {
            ctx.count_n("answers_null", n);
            let diag = server
                .diags
                .values()
                .filter_map(|d| d.as_array())
                .flat_map(|a| a.iter())
                .filter_map(|d| d["message"].as_str())
                .next()
                .map(|s| s.to_string());
            match diag {
                Some(d) => {
                    // the parse is clean but code generation reports a diagnostic: the buffer is
                    // not error-free, i.e. outside the quantifier
                    let reason: String = d.split(':').next().unwrap_or("").chars().take(40).collect();
                    ctx.count_n("answers_null_because_the_buffer_has_a_codegen_diagnostic_(outside_the_quantifier)", n);
                    ctx.count_n(&format!("answers_null_because:{}:{}:{}", reason.trim().replace(' ', "_"), b.prog, b.family), n);
                }
                None => {
                    ctx.count_n("answers_null_although_no_diagnostic_was_published_(counted,_no_verdict)", n);
                    if !already {
                        ctx.count_n("answers_null_or_empty_for_an_error-free_buffer_not_yet_formatted_(counted,_no_verdict)", n);
                    }
                    ctx.note(format!("null answer without diagnostics for {}", show(&text)));
                }
            }
            continue;
        }
        if v.get("__error").is_some() {
            ctx.count_n("answers_error_response_(no_verdict)", n);
            continue;
        }
        let edits = match parse_edits(v) {
            Ok(e) => e,
            Err(why) => {
                ctx.finding(Finding::new(
                    format!("edits:malformed:{}:{}:{}:answer", ascii, eol, kind),
                    format!("{}: {}", why, v),
                    b.case_json(first.0.kind, first.0.pos),
                ));
                continue;
            }
        };
        if edits.is_empty() {
            ctx.count_n("answers_empty", n);
            if already {
                ctx.count_n("answers_empty_for_already_formatted_text", n);
            } else {
                ctx.count_n("answers_null_or_empty_for_an_error-free_buffer_not_yet_formatted_(counted,_no_verdict)", n);
                ctx.count_n("answers_empty_for_a_buffer_not_yet_formatted", n);
                ctx.note(format!("empty edit list although the formatter changes {}", show(&text)));
            }
            continue;
        }
        ctx.count_n("answers_with_edits", n);
        if already {
            ctx.count_n("answers_with_edits_for_already_formatted_text", n);
        }
        ctx.nontrivial(fnv_str(&format!("{}\u{1}{}\u{1}{}", b.key(), kind, v)));
        let j = judge(&text, &expected, &edits);
        ctx.count_n("edits_judged", j.n_edits as u64 * n);
        for s in &j.shapes {
            ctx.count(&format!("edit_shapes_seen:{}", s));
        }
        for r in &j.reproduce {
            ctx.count_n(&format!("reproduces_formatter:{}:{}:{}", ascii, eol, r), n);
        }
        if j.reproduce.is_empty() {
            ctx.count_n(&format!("reproduces_formatter:{}:{}:under-no-reading", ascii, eol), n);
        }
        ctx.count_n(&format!("answers_with_edits:{}:{}", ascii, eol), n);
        if j.violated.is_empty() {
            ctx.count_n("answers_with_edits_correct", n);
        } else {
            ctx.count_n("answers_with_edits_violating", n);
            ctx.finding(Finding::new(
                format!("edits:{}:{}:{}:{}:{}", j.violated[0], ascii, eol, kind, j.label),
                format!(
                    "{} [{} / {}]: {} edits for {}; violated: {}; {}; readings that do reproduce the formatter: {}; formatter text {}",
                    first.0.kind,
                    b.prog,
                    b.variant,
                    j.n_edits,
                    show(&text),
                    j.violated.join(","),
                    j.what,
                    if j.reproduce.is_empty() { "none".to_string() } else { j.reproduce.join(",") },
                    show(&expected)
                ),
                b.case_json(first.0.kind, first.0.pos),
            ));
        }
    }
    BufOut {
        formatted: if already { None } else { Some(expected) },
        reference_ok: true,
    }
}


// ------------------------------------------------------------------------------------------------
// histories: the buffer is what the client holds now, whatever the server has seen before

const HISTORIES: [&str; 9] = [
    "open(A) change(B)",
    "open(A) close open(B)",
    "disk=A open(other) disk:=B open(B)",
    "disk=A open(other) open(B)",
    "disk=B open(other) open(B)",
    "open(A) formatting change(B)",
    "disk=A open(A) disk:=B change(B)",
    "open(B) change(A) change(B)",
    "disk=A open(other) disk:=B open(B) close open(B)",
];

/// Plays history `h` (the client ends up holding `b` in main.asm); `Err` = the server died.
fn play_history(s: &mut Server, h: usize, a: &str, b: &str) -> Result<(), Death> {
    let disk = root().join("main.asm");
    let _ = std::fs::remove_file(&disk);
    let other = "// nothing\n";
    match h {
        0 => {
            s.did_open("main.asm", a);
            s.did_change("main.asm", b);
        }
        1 => {
            s.did_open("main.asm", a);
            s.did_close("main.asm");
            s.did_open("main.asm", b);
        }
        2 | 8 => {
            std::fs::write(&disk, a).unwrap();
            s.did_open("other.asm", other);
            s.sync()?;
            std::fs::write(&disk, b).unwrap();
            s.did_open("main.asm", b);
            if h == 8 {
                s.did_close("main.asm");
                s.did_open("main.asm", b);
            }
        }
        3 => {
            std::fs::write(&disk, a).unwrap();
            s.did_open("other.asm", other);
            s.did_open("main.asm", b);
        }
        4 => {
            std::fs::write(&disk, b).unwrap();
            s.did_open("other.asm", other);
            s.did_open("main.asm", b);
        }
        5 => {
            s.did_open("main.asm", a);
            let _ = s.request("textDocument/formatting", json!({"textDocument": {"uri": uri("main.asm")}, "options": {"tabSize": 4, "insertSpaces": true}}))?;
            s.did_change("main.asm", b);
        }
        6 => {
            std::fs::write(&disk, a).unwrap();
            s.did_open("main.asm", a);
            s.sync()?;
            std::fs::write(&disk, b).unwrap();
            s.did_change("main.asm", b);
        }
        _ => {
            s.did_open("main.asm", b);
            s.did_change("main.asm", a);
            s.did_change("main.asm", b);
        }
    }
    s.sync()
}

/// Sequential (the servers of this process share one working directory, and these histories put files into it).
fn run_histories(ctx: &Ctx, texts: &[(String, String, String)]) {
    let disk = root().join("main.asm");
    let mut sessions = 0u64;
    for (ai, (_, a, _)) in texts.iter().enumerate() {
        for (bi, (bname, b, expected)) in texts.iter().enumerate() {
            if ai == bi {
                continue;
            }
            for (h, hname) in HISTORIES.iter().enumerate() {
                sessions += 1;
                let case = || json!({"program": bname, "family": "history", "variant": hname, "history": h, "earlier": a, "files": {"main.asm": b}, "target": "main.asm", "request": "formatting"});
                ctx.eval(case);
                ctx.count(&format!("history_sessions:{}", hname));
                let mut server = Server::start();
                let answer = play_history(&mut server, h, a, b).and_then(|_| {
                    send(
                        &mut server,
                        "main.asm",
                        &Req {
                            kind: "formatting",
                            pos: None,
                        },
                    )
                });
                drop(server);
                let _ = std::fs::remove_file(&disk);
                let v = match answer {
                    Ok(v) => v,
                    Err(d) => {
                        ctx.count("history_answers_server_died_(no_verdict)");
                        ctx.note(format!("server died in history {} for {}: {:?}", hname, show(b), d));
                        continue;
                    }
                };
                if v.is_null() || v.get("__error").is_some() {
                    ctx.count("history_answers_null_(no_verdict)");
                    continue;
                }
                let edits = match parse_edits(&v) {
                    Ok(e) => e,
                    Err(_) => continue,
                };
                if edits.is_empty() {
                    ctx.count(if expected == b { "history_answers_empty_for_already_formatted_text" } else { "history_answers_empty_for_a_buffer_not_yet_formatted_(counted,_no_verdict)" });
                    continue;
                }
                ctx.count("history_answers_with_edits");
                ctx.nontrivial(fnv_str(&format!("history\u{1}{}\u{1}{}\u{1}{}", h, a, b)));
                let j = judge(b, expected, &edits);
                if !j.violated.is_empty() {
                    ctx.finding(Finding::new(
                        format!("edits:{}:after-history:{}", j.violated[0], hname.replace(' ', "_")),
                        format!(
                            "formatting after the history [{}] (A = {}): {} edits for the buffer {}; violated: {}; {}; formatter text {}",
                            hname,
                            show(a),
                            j.n_edits,
                            show(b),
                            j.violated.join(","),
                            j.what,
                            show(expected)
                        ),
                        case(),
                    ));
                }
            }
        }
    }
    ctx.set("history_sessions", json!(sessions));
    ctx.set("history_texts", json!(texts.len()));
}

// ------------------------------------------------------------------------------------------------
// the real binary: `mos format` writes what the in-process formatter returns

fn mos_path(ctx: &Ctx) -> PathBuf {
    std::env::var("MOS_BIN")
        .map(PathBuf::from)
        .unwrap_or_else(|_| ctx.verif_root.join(".build/bin/release/mos"))
}

fn run_cli(mos: &Path, dir: &Path, b: &Buf) -> Result<(Option<i32>, String, String), String> {
    let _ = std::fs::remove_dir_all(dir);
    std::fs::create_dir_all(dir).map_err(|e| format!("mkdir {}: {}", dir.display(), e))?;
    for (n, t) in &b.files {
        std::fs::write(dir.join(n), t).map_err(|e| format!("write {}: {}", n, e))?;
    }
    let out = Command::new(mos)
        .args(["-e", "Short", "--no-color", "format"])
        .current_dir(dir)
        .env_remove("RUST_LOG")
        .env("RUST_BACKTRACE", "0")
        .stdin(std::process::Stdio::null())
        .output()
        .map_err(|e| format!("cannot run {}: {}", mos.display(), e))?;
    let bytes = std::fs::read(dir.join(&b.target)).map_err(|e| format!("read {}: {}", b.target, e))?;
    let _ = std::fs::remove_dir_all(dir);
    Ok((
        out.status.code(),
        String::from_utf8_lossy(&bytes).to_string(),
        String::from_utf8_lossy(&out.stderr).to_string() + &String::from_utf8_lossy(&out.stdout),
    ))
}

/// Returns false on a machinery failure.
fn cli_cross_check(ctx: &Ctx, bufs: &[&Buf], want: usize) -> bool {
    let mos = mos_path(ctx);
    if !mos.is_file() {
        eprintln!(
            "C17: MACHINERY: mos executable not found at {} (build it: cd /repo && CARGO_TARGET_DIR=/verif/.build/bin cargo build --release --offline -p mos; or set MOS_BIN)",
            mos.display()
        );
        return false;
    }
    // stratified: the same number from every (family, ascii, eol) class, evenly spaced
    let mut classes_: BTreeMap<(String, &str, &str), Vec<&Buf>> = BTreeMap::new();
    for b in bufs {
        let (a, e) = classes(b);
        classes_.entry((b.family.to_string(), a, e)).or_default().push(b);
    }
    let per = (want / classes_.len().max(1)).max(2);
    let mut chosen: Vec<&Buf> = vec![];
    for (_, v) in classes_.iter() {
        let step = (v.len() / per).max(1);
        chosen.extend(v.iter().step_by(step).take(per).cloned());
    }
    let scratch = ctx.verif_root.join(".build/scratch/c17");
    let counter = AtomicU64::new(0);
    let machinery: Mutex<Option<String>> = Mutex::new(None);
    chosen.par_iter().for_each(|b| {
        let k = counter.fetch_add(1, Ordering::Relaxed);
        let dir = scratch.join(format!("{}-{}", std::process::id(), k));
        let expected = match reference(b) {
            Reference::Formatted(s) => s,
            _ => return,
        };
        ctx.eval(|| b.case_json("mos format", None));
        match run_cli(&mos, &dir, b) {
            Err(e) => *machinery.lock().unwrap() = Some(e),
            Ok((exit, written, output)) => {
                let (a, e) = classes(b);
                ctx.count("cli_buffers_formatted_by_the_real_binary");
                ctx.count(&format!("cli:{}:{}", a, e));
                if written == expected && exit == Some(0) {
                    ctx.count("cli_file_equals_in_process_format");
                } else {
                    ctx.finding(Finding::new(
                        format!("reference:mos-format-differs-from-in-process-format:{}:{}", a, e),
                        format!(
                            "`mos format` (exit {:?}, output {:?}) wrote {} but the in-process formatter gives {} for {}",
                            exit,
                            output,
                            show(&written),
                            show(&expected),
                            show(b.text())
                        ),
                        b.case_json("mos format", None),
                    ));
                }
            }
        }
    });
    let _ = std::fs::remove_dir(&scratch);
    if let Some(m) = machinery.lock().unwrap().clone() {
        eprintln!("C17: MACHINERY: {}", m);
        return false;
    }
    true
}

// ------------------------------------------------------------------------------------------------

fn replay_case(ctx: &Ctx, case: &Value) -> i32 {
    let mut files = vec![];
    if let Some(m) = case["files"].as_object() {
        for (n, t) in m {
            files.push((n.clone(), t.as_str().unwrap_or("").to_string()));
        }
    }
    let b = Buf {
        prog: "replay".into(),
        family: "replay",
        variant: "replay".into(),
        files,
        target: case["target"].as_str().unwrap_or("main.asm").to_string(),
    };
    if b.files.iter().all(|f| f.0 != b.target) {
        eprintln!("C17: replay case has no file {}", b.target);
        return 2;
    }
    let text = b.text().to_string();
    println!("buffer {} = {:?}", b.target, text);
    let expected = match reference(&b) {
        Reference::Formatted(s) => {
            println!("in-process format(path, tree, default) = {:?}", s);
            Some(s)
        }
        Reference::NotErrorFree(e) => {
            println!("buffer is not error-free ({}): outside the quantifier", e);
            None
        }
        Reference::Panic(p) => {
            println!("in-process formatter panics: {}", p);
            None
        }
    };
    if case["request"] == "mos format" {
        let dir = ctx.verif_root.join(format!(".build/scratch/c17/replay-{}", std::process::id()));
        match run_cli(&mos_path(ctx), &dir, &b) {
            Ok((exit, written, output)) => {
                println!("`mos format`: exit {:?}, output {:?}, file now {:?}", exit, output, written);
                println!("=> {}", if Some(&written) == expected.as_ref() { "EQUAL to the in-process formatter" } else { "DIFFERENT from the in-process formatter" });
            }
            Err(e) => {
                eprintln!("C17: MACHINERY: {}", e);
                return 2;
            }
        }
        return 0;
    }
    let req = Req {
        kind: if case["request"] == "onTypeFormatting" { "onTypeFormatting" } else if case["request"] == "formatting-tab2" { "formatting-tab2" } else { "formatting" },
        pos: case["position"]["line"].as_u64().map(|l| (l, case["position"]["character"].as_u64().unwrap_or(0))),
    };
    let req = if req.kind == "onTypeFormatting" && req.pos.is_none() {
        Req {
            kind: "onTypeFormatting",
            pos: Some((0, 0)),
        }
    } else {
        req
    };
    let mut server = Server::start();
    let opened = match case["history"].as_u64() {
        Some(h) => {
            println!("history [{}] with A = {:?}", HISTORIES[h as usize % HISTORIES.len()], case["earlier"].as_str().unwrap_or(""));
            let r = play_history(&mut server, h as usize, case["earlier"].as_str().unwrap_or(""), &text);
            let _ = std::fs::remove_file(root().join("main.asm"));
            r
        }
        None => open_all(&mut server, &b),
    };
    if let Err(d) = opened {
        println!("server died while opening the documents: {:?}", d);
        return 0;
    }
    println!("published diagnostics: {}", json!(server.diags));
    let answer = send(&mut server, &b.target, &req);
    crate::lspdrv::cleanup_root();
    let v = match answer {
        Ok(v) => v,
        Err(d) => {
            println!("server died: {:?}", d);
            return 0;
        }
    };
    println!("answer to textDocument/{} {:?}: {}", req.kind, req.pos, v);
    let (expected, edits) = match (expected, parse_edits(&v)) {
        (Some(e), Ok(ed)) => (e, ed),
        (_, Err(why)) => {
            println!("no edit list ({}): no verdict", why);
            return 0;
        }
        _ => return 0,
    };
    if edits.is_empty() {
        println!("empty edit list: no verdict (buffer {} formatted)", if expected == text { "is already" } else { "IS NOT YET" });
        return 0;
    }
    for (u, lm, name) in READINGS.iter() {
        let a = apply(&text, &edits, *u, *lm);
        println!(
            "applied with reading {:<22} in range: {:<5} result: {} => {}",
            name,
            a.in_range,
            a.text.as_ref().map(|t| format!("{:?}", t)).unwrap_or_else(|| "<overlapping>".into()),
            if a.text.as_deref() == Some(expected.as_str()) { "equals the formatter's text" } else { "DIFFERS" }
        );
    }
    let j = judge(&text, &expected, &edits);
    if j.violated.is_empty() {
        println!("C17 holds for this case");
    } else {
        println!("C17 FAILS ({}; {}): {}", j.violated.join(","), j.label, j.what);
    }
    0
}

pub fn run(ctx: &Ctx, replay: Option<&Value>) -> i32 {
    if let Err(e) = self_check() {
        eprintln!("C17: MACHINERY: {}", e);
        return 2;
    }
    let _ = root();
    if let Some(case) = replay {
        return replay_case(ctx, case);
    }
    let thorough = ctx.tier.is_thorough();
    let max_on_type = if thorough { 64 } else { 6 };

    // round 1: the enumerated buffers (deduplicated by content)
    let all = buffers(thorough, ctx);
    ctx.set("buffers_generated", json!(all.len()));
    let mut seen: HashSet<u64> = HashSet::new();
    let round1: Vec<Buf> = all.into_iter().filter(|b| seen.insert(b.key())).collect();
    ctx.set("buffers_distinct_round1", json!(round1.len()));
    let outs: Vec<BufOut> = round1.par_iter().map(|b| run_buffer(ctx, b, max_on_type)).collect();
    ctx.set("wall_s_after_round1", json!(ctx.wall()));

    // round 2: the formatter's own output for each of them (already formatted text)
    let mut round2: Vec<Buf> = vec![];
    for (b, o) in round1.iter().zip(outs.iter()) {
        if let Some(f) = &o.formatted {
            let mut nb = b.clone();
            for file in nb.files.iter_mut() {
                if file.0 == nb.target {
                    file.1 = f.clone();
                }
            }
            nb.family = "formatter-output";
            nb.variant = format!("format({}:{})", b.family, b.variant);
            let mut cr = nb.clone();
            if seen.insert(nb.key()) {
                round2.push(nb);
                // the same text with CRLF line ends (formatted up to the line ends)
                if thorough || round2.len() % 5 == 0 {
                    for file in cr.files.iter_mut() {
                        if file.0 == cr.target {
                            file.1 = crlf(&file.1);
                        }
                    }
                    cr.variant = format!("{}+crlf", cr.variant);
                    if seen.insert(cr.key()) {
                        round2.push(cr);
                    }
                }
            }
        }
    }
    // the delete / equal / insert merge rule needs text that moves across unchanged text: the
    // formatted base programs with one `, ` written ` ,` (the space moves over the comma)
    for (b, o) in round1.iter().zip(outs.iter()) {
        if b.family != "plain" || b.variant != "as-is" {
            continue;
        }
        let f = match &o.formatted {
            Some(f) => f.clone(),
            None => b.text().to_string(),
        };
        let places: Vec<usize> = f.match_indices(", ").map(|m| m.0).collect();
        for (k, at) in places.iter().enumerate() {
            for (v, moved) in [("moved-space", " ,"), ("moved-space-after-é", " ,")] {
                let mut t = f.clone();
                t.replace_range(*at..*at + 2, moved);
                if v == "moved-space-after-é" {
                    // a non-ASCII comment earlier on the same line
                    let bol = t[..*at].rfind('\n').map(|p| p + 1).unwrap_or(0);
                    let code = bol + t[bol..].len() - t[bol..].trim_start().len();
                    t.insert_str(code, "/* é */ ");
                }
                let mut nb = b.clone();
                nb.files[0].1 = t;
                nb.family = "moved-space";
                nb.variant = format!("{}@{}", v, k);
                if seen.insert(nb.key()) {
                    round2.push(nb);
                }
            }
        }
    }
    ctx.set("buffers_distinct_round2_formatter_outputs", json!(round2.len()));
    let _outs2: Vec<BufOut> = round2.par_iter().map(|b| run_buffer(ctx, b, max_on_type)).collect();
    ctx.set("wall_s_after_round2", json!(ctx.wall()));

    // round 3: the same request after different histories of the server (single-file buffers: the rendered base
    // programs and the formatter's text for them)
    {
        let want = if thorough { 7 } else { 3 };
        let mut texts: Vec<(String, String, String)> = vec![];
        let mut progs_seen: HashSet<String> = HashSet::new();
        for (b, o) in round1.iter().zip(outs.iter()) {
            if b.family != "plain" || b.files.len() != 1 || !o.reference_ok {
                continue;
            }
            if let Some(f) = &o.formatted {
                if progs_seen.len() < want && progs_seen.insert(b.prog.clone()) {
                    texts.push((b.prog.clone(), b.text().to_string(), f.clone()));
                    texts.push((format!("format({})", b.prog), f.clone(), f.clone()));
                }
            }
        }
        run_histories(ctx, &texts);
        ctx.set("wall_s_after_round3", json!(ctx.wall()));
    }

    // real binary
    let ok_bufs: Vec<&Buf> = round1
        .iter()
        .zip(outs.iter())
        .filter(|(_, o)| o.reference_ok)
        .map(|(b, _)| b)
        .chain(round2.iter().step_by(7))
        .collect();
    if !cli_cross_check(ctx, &ok_bufs, if thorough { 150 } else { 50 }) {
        crate::lspdrv::cleanup_root();
        return 2;
    }
    crate::lspdrv::cleanup_root();
    ctx.set("on_type_requests_per_buffer_at_most", json!(max_on_type));
    ctx.set(
        "null_or_empty_answers",
        json!({
            "for_error_free_buffers_not_yet_formatted": ctx.counter("answers_null_or_empty_for_an_error-free_buffer_not_yet_formatted_(counted,_no_verdict)"),
            "null_because_code_generation_reports_a_diagnostic_(buffer_not_error-free)": ctx.counter("answers_null_because_the_buffer_has_a_codegen_diagnostic_(outside_the_quantifier)"),
            "null_without_any_diagnostic": ctx.counter("answers_null_although_no_diagnostic_was_published_(counted,_no_verdict)"),
            "empty_for_already_formatted_text": ctx.counter("answers_empty_for_already_formatted_text"),
            "edits_for_already_formatted_text": ctx.counter("answers_with_edits_for_already_formatted_text"),
        }),
    );
    ctx.finish(
        "exploration",
        "buffers = valid base programs + 5 formatter-specific shapes x {as rendered, 13 whole-file spacing variants, one-factor whitespace deviations at every trivia slot (quick: space / tab / 3 spaces / line break; thorough: 7 kinds + separator removed), one comment per trivia slot (block / line / two-line block / end-of-line kinds), the same slots with non-ASCII comment text and every string literal with é / → / 💾 at start, middle, end (each also with trailing whitespace and widened spaces), CRLF versions; thorough: comment pairs <= 6 terminals apart, all three non-ASCII characters at every place} + 15 tiny buffers + a non-entry file + the sources under /repo/examples + the formatter's own output for every one of them (also with CRLF line ends) + formatted base programs with one space moved across a comma; one case = one textDocument/formatting or textDocument/onTypeFormatting('}') request (after every '}' of the buffer) on a fresh real server holding that buffer. Oracle only on answers with edits: in range, sorted, non-overlapping, and applied with the LSP text model (UTF-16 columns; lines end at \\n, \\r\\n, \\r) equal to the in-process format(path, tree, default), which is cross-checked against `mos format` of the real binary on a stratified selection. non-trivial = distinct (buffer, request kind, non-empty edit list)",
        true,
        &[
            "small-scope: base programs of the harness grammar, deviation bound 1 (quick) / one-factor whitespace + comment pairs (thorough); buffers that are not error-free are outside the quantifier and only counted",
            "the LSP text model (UTF-16 columns, three line-end forms, clamping of out-of-range positions) is trusted; it is self-checked on hand-made cases at start-up",
            "the real main loop runs over an in-memory connection; stdio framing is not exercised here",
            "null / empty answers are counted, never judged (the statement only constrains returned edits)",
            "quick sends onTypeFormatting after the first 6 `}` of a buffer only (thorough: all); the handler ignores the position",
            "example sources are opened with the import path flattened into the scratch root (../shared/c64.asm -> c64.asm)",
        ],
    )
}
