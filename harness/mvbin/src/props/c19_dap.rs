//! Protocol-level layer of C19: deterministic DAP sessions against the real `mos lsp` process
//! (stdio LSP + TCP DAP). A breakpoint on every instruction line, then stackTrace / evaluate /
//! stepIn / next / stepOut / continue; stops at breakpoints and after steps are synchronous, so the
//! expected lines do not depend on timing. This binds the adapter-level exploration to what a
//! client sees (breakpoint line -> address mapping, stack trace address -> line mapping).

use super::c20::{frame, read_frames, wait_for};
use mvlib::{Ctx, Finding};
use rayon::prelude::*;
use serde_json::{json, Value};
use std::io::Write;
use std::net::TcpStream;
use std::path::Path;
use std::process::{Command, Stdio};
use std::sync::mpsc::Receiver;
use std::time::{Duration, Instant};

/// (name, source, executed lines of an uninterrupted run (1-based), X register at each of them,
///  index after `next` from each position, index after `stepOut` (None = not inside a subroutine))
struct Prog {
    name: &'static str,
    source: &'static str,
    lines: Vec<usize>,
    x: Vec<u8>,
    next: Vec<usize>,
    step_out: Vec<Option<usize>>,
}

fn programs() -> Vec<Prog> {
    vec![
        Prog {
            name: "straight",
            source: ".test \"t\" {\ninx\ninx\ninx\ninx\ninx\ninx\nbrk\n}\n",
            lines: vec![2, 3, 4, 5, 6, 7, 8],
            x: vec![0, 1, 2, 3, 4, 5, 6],
            next: vec![1, 2, 3, 4, 5, 6, 6],
            step_out: vec![None; 7],
        },
        Prog {
            name: "loop",
            source: ".test \"t\" {\nldx #3\nl:\ndex\nbne l\nbrk\n}\n",
            lines: vec![2, 4, 5, 4, 5, 4, 5, 6],
            x: vec![0, 3, 2, 2, 1, 1, 0, 0],
            next: vec![1, 2, 3, 4, 5, 6, 7, 7],
            step_out: vec![None; 8],
        },
        Prog {
            name: "subroutine",
            source: ".test \"t\" {\njsr s\ninx\nbrk\ns:\niny\nrts\n}\n",
            lines: vec![2, 6, 7, 3, 4],
            x: vec![0, 0, 0, 0, 1],
            next: vec![3, 2, 3, 4, 4],
            step_out: vec![None, Some(3), Some(3), None, None],
        },
        // the same, laid out in descending address order: the test in a segment at $c000, the subroutine behind it in
        // the source but at $2000
        Prog {
            name: "subroutine-in-a-lower-segment",
            source: ".define segment { name = \"hi\" start = $c000 }\n.define segment { name = \"lo\" start = $2000 }\n.segment \"hi\" {\n.test \"t\" {\njsr s\ninx\nbrk\n}\n}\n.segment \"lo\" {\ns:\niny\nrts\n}\n",
            lines: vec![5, 12, 13, 6, 7],
            x: vec![0, 0, 0, 0, 1],
            next: vec![3, 2, 3, 4, 4],
            step_out: vec![None, Some(3), Some(3), None, None],
        },
        // a subroutine that calls another one: leaving the outer one passes the inner one's return on the way
        Prog {
            name: "nested-subroutines",
            source: ".test \"t\" {\njsr a\ninx\nbrk\na:\niny\njsr b\niny\nrts\nb:\ninx\nrts\n}\n",
            lines: vec![2, 6, 7, 11, 12, 8, 9, 3, 4],
            x: vec![0, 0, 0, 0, 1, 1, 1, 1, 2],
            next: vec![7, 2, 5, 4, 5, 6, 7, 8, 8],
            step_out: vec![None, Some(7), Some(7), Some(5), Some(5), Some(7), Some(7), None, None],
        },
        // source lines that are assembled to several addresses: a loop body, a macro invoked twice. A breakpoint on
        // such a line is a breakpoint at each of them
        Prog {
            name: "line-assembled-three-times",
            source: ".test \"t\" {\n.loop 3 {\ninx\n}\nbrk\n}\n",
            lines: vec![3, 3, 3, 5],
            x: vec![0, 1, 2, 3],
            next: vec![1, 2, 3, 3],
            step_out: vec![None; 4],
        },
        Prog {
            name: "macro-invoked-twice",
            source: ".macro m() {\ninx\n}\n.test \"t\" {\nm()\niny\nm()\nbrk\n}\n",
            lines: vec![2, 6, 2, 8],
            x: vec![0, 1, 1, 2],
            next: vec![1, 2, 3, 3],
            step_out: vec![None; 4],
        },
        // a subroutine that ends in a computed jump of the "push the address, rts" kind: that `rts` returns nowhere,
        // `next` over the call ends behind the call all the same (stepOut is only asked where the top of the stack is
        // the return address: the statement does not say what leaving a subroutine means while it has data pushed)
        Prog {
            name: "rts-dispatch",
            source: ".test \"t\" {\njsr s\ninx\nbrk\ns:\nlda #>tgt\npha\nlda #<tgt\npha\nrts\nh:\niny\nrts\n.const tgt = h - 1\n}\n",
            lines: vec![2, 6, 7, 8, 9, 10, 12, 13, 3, 4],
            x: vec![0, 0, 0, 0, 0, 0, 0, 0, 0, 1],
            next: vec![8, 2, 3, 4, 5, 6, 7, 8, 9, 9],
            step_out: vec![None, Some(8), Some(8), None, None, None, Some(8), Some(8), None, None],
        },
        // code in two files (the subroutine is imported): breakpoints are set per file
        Prog {
            name: "two-files",
            source: ".test \"t\" {\njsr s\ninx\nbrk\n}\n.import s from \"lib.asm\"\n",
            lines: vec![2, 3, 4],
            x: vec![0, 0, 1],
            next: vec![1, 2, 2],
            step_out: vec![None; 3],
        },
        // a subroutine that calls itself: `next` over the inner call and `stepOut` end where *this* level continues, not
        // where a deeper level passes the same address first
        Prog {
            name: "recursion",
            source: ".test \"t\" {\nldx #3\njsr r\nbrk\nr:\ndex\nbeq d\njsr r\ninx\nd:\nrts\n}\n",
            lines: vec![2, 3, 6, 7, 8, 6, 7, 8, 6, 7, 11, 9, 11, 9, 11, 4],
            x: vec![0, 3, 3, 2, 2, 2, 1, 1, 1, 0, 0, 0, 1, 1, 2, 2],
            next: vec![1, 15, 3, 4, 13, 6, 7, 11, 9, 10, 11, 12, 13, 14, 15, 15],
            step_out: vec![None, None, Some(15), Some(15), Some(15), Some(13), Some(13), Some(13), Some(11), Some(11), Some(11), Some(13), Some(13), Some(15), Some(15), None],
        },
        // the same subroutine called twice: the second stop at its breakpoint is at the same address as the first
        Prog {
            name: "subroutine-called-twice",
            source: ".test \"t\" {\njsr s\njsr s\nbrk\ns:\ninx\nrts\n}\n",
            lines: vec![2, 6, 7, 3, 6, 7, 4],
            x: vec![0, 0, 1, 1, 1, 2, 2],
            next: vec![3, 2, 3, 6, 5, 6, 6],
            step_out: vec![None, Some(3), Some(3), None, Some(6), Some(6), None],
        },
    ]
}

struct Dap {
    tcp: TcpStream,
    rx: Receiver<Value>,
    seq: i64,
    events: Vec<Value>,
}

impl Dap {
    fn request(&mut self, command: &str, args: Value) -> Option<Value> {
        let s = self.seq;
        self.seq += 1;
        let _ = self
            .tcp
            .write_all(&frame(&json!({"seq": s, "type": "request", "command": command, "arguments": args})));
        let _ = self.tcp.flush();
        let deadline = Instant::now() + Duration::from_secs(5);
        loop {
            let left = deadline.saturating_duration_since(Instant::now());
            match self.rx.recv_timeout(left) {
                Ok(v) => {
                    if v["type"] == "response" && v["request_seq"] == s {
                        return Some(v);
                    }
                    if v["type"] == "event" {
                        self.events.push(v);
                    }
                }
                Err(_) => return None,
            }
        }
    }

    /// Waits for an event of that name (events seen while waiting for responses count).
    fn event(&mut self, name: &str) -> bool {
        if let Some(i) = self.events.iter().position(|e| e["event"] == name) {
            self.events.remove(i);
            return true;
        }
        let deadline = Instant::now() + Duration::from_secs(5);
        loop {
            let left = deadline.saturating_duration_since(Instant::now());
            match self.rx.recv_timeout(left) {
                Ok(v) => {
                    if v["type"] == "event" {
                        if v["event"] == name {
                            return true;
                        }
                        self.events.push(v);
                    }
                }
                Err(_) => return false,
            }
        }
    }

    fn stack_line(&mut self) -> Option<i64> {
        let r = self.request("stackTrace", json!({"threadId": 1}))?;
        r["body"]["stackFrames"][0]["line"].as_i64()
    }

    fn eval(&mut self, expr: &str) -> Option<String> {
        let r = self.request("evaluate", json!({"expression": expr, "context": "watch"}))?;
        r["body"]["result"].as_str().map(|s| s.to_string())
    }
}

#[derive(Clone, Copy, Debug, PartialEq)]
enum Step {
    StepIn,
    Next,
    StepOut,
    /// the breakpoint stays; `continue` until the line is not reached any more, checking every stop
    Continues,
    /// `stepIn` from the breakpoint to the end of the test, checking every stop
    Walk,
    /// (program `two-files` only) one breakpoint in main.asm and one in the imported file, set by two requests - the
    /// one for main.asm first (true) or second (false); both have to stop the machine
    TwoFiles(bool),
}

const LIB_ASM: &str = "s:\niny\nrts\n";

/// One scenario: breakpoint at executed-position `bp_idx`, then one step of the given kind.
fn scenario(bin: &str, dir: &Path, port: u16, p: &Prog, bp_idx: usize, step: Option<Step>) -> Vec<(String, String)> {
    let mut problems = vec![];
    let _ = std::fs::remove_dir_all(dir);
    std::fs::create_dir_all(dir).unwrap();
    std::fs::write(dir.join("main.asm"), p.source).unwrap();
    if p.name == "two-files" {
        std::fs::write(dir.join("lib.asm"), LIB_ASM).unwrap();
    }
    std::fs::write(dir.join("mos.toml"), "[build]\nentry = \"main.asm\"\n").unwrap();
    let mut child = match Command::new(bin)
        .args(["lsp", "-p", &port.to_string()])
        .current_dir(dir)
        .stdin(Stdio::piped())
        .stdout(Stdio::piped())
        .stderr(Stdio::null())
        .spawn()
    {
        Ok(c) => c,
        Err(e) => return vec![("machinery:spawn".into(), e.to_string())],
    };
    let mut stdin = child.stdin.take().unwrap();
    let lsp_rx = read_frames(child.stdout.take().unwrap());
    let mut send_lsp = |v: Value| {
        let _ = stdin.write_all(&frame(&v));
        let _ = stdin.flush();
    };
    send_lsp(json!({"jsonrpc": "2.0", "id": 1, "method": "initialize", "params": {"capabilities": {}}}));
    let mut ok = wait_for(&lsp_rx, |v| v["id"] == 1, 5000);
    send_lsp(json!({"jsonrpc": "2.0", "method": "initialized", "params": {}}));
    let uri = format!("file://{}/main.asm", dir.display());
    send_lsp(json!({"jsonrpc": "2.0", "method": "textDocument/didOpen", "params": {"textDocument": {"uri": uri, "languageId": "asm", "version": 1, "text": p.source}}}));
    send_lsp(json!({"jsonrpc": "2.0", "id": 2, "method": "textDocument/documentSymbol", "params": {"textDocument": {"uri": uri}}}));
    ok &= wait_for(&lsp_rx, |v| v["id"] == 2, 5000);
    let mut tcp = None;
    for _ in 0..200 {
        match TcpStream::connect(("127.0.0.1", port)) {
            Ok(s) => {
                tcp = Some(s);
                break;
            }
            Err(_) => std::thread::sleep(Duration::from_millis(10)),
        }
    }
    let tcp = match tcp {
        Some(t) => t,
        None => {
            let _ = child.kill();
            let _ = child.wait();
            return vec![("machinery:connect".into(), "cannot connect to the debug port".into())];
        }
    };
    let _ = tcp.set_nodelay(true);
    let rx = read_frames(tcp.try_clone().unwrap());
    let mut dap = Dap {
        tcp,
        rx,
        seq: 1,
        events: vec![],
    };
    let main_path = dir.join("main.asm").display().to_string();
    ok &= dap.request("initialize", json!({"adapterID": "mos", "linesStartAt1": true, "columnsStartAt1": true})).is_some();
    ok &= dap
        .request("launch", json!({"workspace": dir.display().to_string(), "testRunner": {"testCaseName": "t"}}))
        .map_or(false, |r| r["success"] == true);
    if let Some(Step::TwoFiles(main_first)) = step {
        let lib_path = dir.join("lib.asm").display().to_string();
        let set = |dap: &mut Dap, path: &str, line: usize| {
            dap.request("setBreakpoints", json!({"source": {"path": path}, "breakpoints": [{"line": line}]})).is_some()
        };
        if main_first {
            ok &= set(&mut dap, &main_path, 3);
            ok &= set(&mut dap, &lib_path, 2);
        } else {
            ok &= set(&mut dap, &lib_path, 2);
            ok &= set(&mut dap, &main_path, 3);
        }
        ok &= dap.request("configurationDone", Value::Null).is_some();
        if !ok {
            let _ = child.kill();
            let _ = child.wait();
            return vec![("machinery:setup".into(), "session setup failed".into())];
        }
        // `iny` in lib.asm is executed before `inx` in main.asm
        for (n, (file, line)) in [("lib.asm", 2i64), ("main.asm", 3i64)].iter().enumerate() {
            if !dap.event("stopped") {
                problems.push(("dap:breakpoints-in-two-files:no-stopped-event".to_string(), format!("breakpoints on main.asm:3 and lib.asm:2 (set by two requests, main.asm {}): no stop at {}:{}", if main_first { "first" } else { "second" }, file, line)));
                break;
            }
            let r = dap.request("stackTrace", json!({"threadId": 1}));
            let got_line = r.as_ref().and_then(|r| r["body"]["stackFrames"][0]["line"].as_i64());
            let got_file = r.as_ref().and_then(|r| r["body"]["stackFrames"][0]["source"]["path"].as_str().map(|s| s.to_string())).unwrap_or_default();
            if got_line != Some(*line) || !got_file.ends_with(file) {
                problems.push(("dap:breakpoints-in-two-files:wrong-stop".to_string(), format!("breakpoints on main.asm:3 and lib.asm:2 (main.asm set {}): stop #{} must be at {}:{} but stackTrace reports {}:{:?}", if main_first { "first" } else { "second" }, n + 1, file, line, got_file, got_line)));
                break;
            }
            let _ = dap.request("continue", json!({"threadId": 1}));
        }
        if problems.is_empty() && !dap.event("terminated") {
            problems.push(("dap:continue:no-terminated-event".to_string(), "two-files: the test did not run to its end".to_string()));
        }
        let _ = dap.request("disconnect", json!({}));
        drop(dap);
        send_lsp(json!({"jsonrpc": "2.0", "id": 9, "method": "shutdown", "params": null}));
        let _ = wait_for(&lsp_rx, |v| v["id"] == 9, 2000);
        send_lsp(json!({"jsonrpc": "2.0", "method": "exit", "params": null}));
        let start = Instant::now();
        while child.try_wait().ok().flatten().is_none() {
            if start.elapsed() > Duration::from_secs(3) {
                let _ = child.kill();
                let _ = child.wait();
                break;
            }
            std::thread::sleep(Duration::from_millis(5));
        }
        let _ = std::fs::remove_dir_all(dir);
        return problems;
    }
    let bp_line = p.lines[bp_idx];
    // a breakpoint inside a loop is hit at the first execution of that line
    let first_idx = p.lines.iter().position(|l| *l == bp_line).unwrap();
    let r = dap.request("setBreakpoints", json!({"source": {"path": main_path}, "breakpoints": [{"line": bp_line}]}));
    if r.as_ref().map_or(true, |r| r["body"]["breakpoints"].as_array().map_or(true, |a| a.is_empty())) {
        problems.push(("dap:setBreakpoints:not-verified".to_string(), format!("setBreakpoints(line {}) returned {:?}", bp_line, r.map(|r| r["body"].clone()))));
    }
    ok &= dap.request("configurationDone", Value::Null).is_some();
    if !ok {
        let _ = child.kill();
        let _ = child.wait();
        return vec![("machinery:setup".into(), "session setup failed".into())];
    }
    if !dap.event("stopped") {
        problems.push(("dap:breakpoint:no-stopped-event".to_string(), format!("no stopped event for a breakpoint on line {} of {}", bp_line, p.name)));
    } else {
        let line = dap.stack_line();
        if line != Some(bp_line as i64) {
            problems.push(("dap:breakpoint:stack-trace-line".to_string(), format!("{}: stopped at the breakpoint on line {} but stackTrace reports line {:?}", p.name, bp_line, line)));
        }
        let x = dap.eval("cpu.x");
        let expect = p.x[first_idx];
        let matches = x.as_ref().map_or(false, |s| {
            let t = s.trim().trim_start_matches('$');
            i64::from_str_radix(t, 16).ok() == Some(expect as i64) || s.trim().parse::<i64>().ok() == Some(expect as i64)
        });
        if !matches {
            problems.push(("dap:breakpoint:evaluate".to_string(), format!("{}: at line {} evaluate(cpu.x) = {:?}, the CPU's X is {}", p.name, bp_line, x, expect)));
        }
        let check_stop = |dap: &mut Dap, problems: &mut Vec<(String, String)>, cmd: &str, t: usize, n: usize| {
            if !dap.event("stopped") {
                problems.push((format!("dap:{}:no-stopped-event", cmd), format!("{}: no stopped event after {} #{} (breakpoint on line {})", p.name, cmd, n, bp_line)));
                return false;
            }
            let line = dap.stack_line();
            if line != Some(p.lines[t] as i64) {
                problems.push((format!("dap:{}:stack-trace-line", cmd), format!("{}: {} #{} (breakpoint on line {}) must stop on line {} but stackTrace reports {:?}", p.name, cmd, n, bp_line, p.lines[t], line)));
            }
            let x = dap.eval("cpu.x");
            let expect = p.x[t];
            let matches = x.as_ref().map_or(false, |s| {
                let tt = s.trim().trim_start_matches('$');
                i64::from_str_radix(tt, 16).ok() == Some(expect as i64) || s.trim().parse::<i64>().ok() == Some(expect as i64)
            });
            if !matches {
                problems.push((format!("dap:{}:evaluate", cmd), format!("{}: after {} #{} (breakpoint on line {}, now on line {}) evaluate(cpu.x) = {:?}, the CPU's X is {}", p.name, cmd, n, bp_line, p.lines[t], x, expect)));
            }
            true
        };
        if step == Some(Step::Continues) {
            let later: Vec<usize> = (first_idx + 1..p.lines.len()).filter(|i| p.lines[*i] == bp_line).collect();
            for (n, t) in later.iter().enumerate() {
                let _ = dap.request("continue", json!({"threadId": 1}));
                if !check_stop(&mut dap, &mut problems, "continue", *t, n + 1) {
                    break;
                }
            }
        } else if step == Some(Step::Walk) {
            // (the last position is the BRK: stepping it ends the test)
            for t in first_idx + 1..p.lines.len() {
                let _ = dap.request("stepIn", json!({"threadId": 1}));
                if !check_stop(&mut dap, &mut problems, "stepIn-walk", t, t - first_idx) {
                    break;
                }
            }
        } else if let Some(st) = step {
            // the step starts at the `bp_idx`-th executed position: a later visit of the line is reached by continuing
            let from = bp_idx;
            let mut reached = true;
            for (n, t) in (first_idx + 1..=from).filter(|i| p.lines[*i] == bp_line).enumerate() {
                let _ = dap.request("continue", json!({"threadId": 1}));
                if !check_stop(&mut dap, &mut problems, "continue", t, n + 1) {
                    reached = false;
                    break;
                }
            }
            let (cmd, target) = match st {
                Step::StepIn => ("stepIn", Some((from + 1).min(p.lines.len() - 1))),
                Step::Next => ("next", Some(p.next[from])),
                Step::StepOut => ("stepOut", p.step_out[from]),
                Step::Continues | Step::Walk | Step::TwoFiles(_) => unreachable!(),
            };
            let target = if reached { target } else { None };
            // the last position is the BRK: stepping it ends the test
            if let Some(t) = target {
                if from + 1 < p.lines.len() {
                    let _ = dap.request(cmd, json!({"threadId": 1}));
                    if !dap.event("stopped") {
                        problems.push((format!("dap:{}:no-stopped-event", cmd), format!("{}: no stopped event after {} from line {}", p.name, cmd, bp_line)));
                    } else {
                        let line = dap.stack_line();
                        if line != Some(p.lines[t] as i64) {
                            problems.push((format!("dap:{}:stack-trace-line", cmd), format!("{}: {} from line {} must stop on line {} but stackTrace reports {:?}", p.name, cmd, bp_line, p.lines[t], line)));
                        }
                        let x = dap.eval("cpu.x");
                        let expect = p.x[t];
                        let matches = x.as_ref().map_or(false, |s| {
                            let tt = s.trim().trim_start_matches('$');
                            i64::from_str_radix(tt, 16).ok() == Some(expect as i64) || s.trim().parse::<i64>().ok() == Some(expect as i64)
                        });
                        if !matches {
                            problems.push((format!("dap:{}:evaluate", cmd), format!("{}: after {} evaluate(cpu.x) = {:?}, expected {}", p.name, cmd, x, expect)));
                        }
                    }
                }
            }
        }
        // remove the breakpoint and run to the end
        let _ = dap.request("setBreakpoints", json!({"source": {"path": main_path}, "breakpoints": []}));
        let _ = dap.request("continue", json!({"threadId": 1}));
        if !dap.event("terminated") {
            problems.push(("dap:continue:no-terminated-event".to_string(), format!("{}: the test did not run to its end after continue", p.name)));
        }
    }
    let _ = dap.request("disconnect", json!({}));
    drop(dap);
    send_lsp(json!({"jsonrpc": "2.0", "id": 9, "method": "shutdown", "params": null}));
    let _ = wait_for(&lsp_rx, |v| v["id"] == 9, 2000);
    send_lsp(json!({"jsonrpc": "2.0", "method": "exit", "params": null}));
    let start = Instant::now();
    loop {
        match child.try_wait() {
            Ok(Some(_)) => break,
            _ => {
                if start.elapsed() > Duration::from_secs(3) {
                    let _ = child.kill();
                    let _ = child.wait();
                    break;
                }
                std::thread::sleep(Duration::from_millis(5));
            }
        }
    }
    let _ = std::fs::remove_dir_all(dir);
    problems
}

/// Runs all scenarios; returns the number that agreed with the expectation.
pub fn conformance(ctx: &Ctx) -> u64 {
    let bin = std::env::var("MOS_BIN").unwrap_or_else(|_| "/verif/.build/bin/release/mos".into());
    if !Path::new(&bin).exists() {
        ctx.note("real binary missing: no DAP conformance sessions");
        return 0;
    }
    let scratch = ctx.verif_root.join(".build/scratch/c19-dap").join(std::process::id().to_string());
    let progs = programs();
    let mut work = vec![];
    for (pi, p) in progs.iter().enumerate() {
        if p.name == "two-files" {
            work.push((pi, 0, Some(Step::TwoFiles(true))));
            work.push((pi, 0, Some(Step::TwoFiles(false))));
            // (its `lines` only describe main.asm: the other session kinds are for the one-file programs)
            continue;
        }
        for idx in 0..p.lines.len() {
            // the first visit of a line: all session kinds; a later visit: the single steps from there
            let first_visit = p.lines.iter().position(|l| *l == p.lines[idx]) == Some(idx);
            for st in [None, Some(Step::StepIn), Some(Step::Next), Some(Step::StepOut), Some(Step::Continues), Some(Step::Walk)] {
                if !first_visit && !matches!(st, Some(Step::StepIn) | Some(Step::Next) | Some(Step::StepOut)) {
                    continue;
                }
                // (continuing is a distinct session only where the line is reached again)
                if st == Some(Step::Continues) && !p.lines[idx + 1..].contains(&p.lines[idx]) {
                    continue;
                }
                work.push((pi, idx, st));
            }
        }
    }
    let base_port = 25000 + (std::process::id() % 1000) as u16 * 8;
    let pool = rayon::ThreadPoolBuilder::new().num_threads(8).build().unwrap();
    let results: Vec<(usize, usize, Option<Step>, Vec<(String, String)>)> = pool.install(|| {
        work.par_iter()
            .enumerate()
            .map(|(i, (pi, idx, st))| {
                let port = base_port + rayon::current_thread_index().unwrap_or(0) as u16;
                let r = scenario(&bin, &scratch.join(format!("s{}", i)), port, &progs[*pi], *idx, *st);
                (*pi, *idx, *st, r)
            })
            .collect()
    });
    let mut agreed = 0;
    for (pi, idx, st, problems) in results {
        ctx.eval(|| json!({"dap_session": progs[pi].name, "breakpoint_line": progs[pi].lines[idx], "step": format!("{:?}", st)}));
        if problems.is_empty() {
            agreed += 1;
        }
        for (sig, what) in problems {
            if sig.starts_with("machinery:") {
                ctx.cap(format!("DAP conformance session could not be set up: {}", what));
                continue;
            }
            ctx.finding(Finding::new(
                format!("{}:protocol", sig),
                format!("{} [real `mos lsp` process, DAP over TCP]", what),
                json!({"program": progs[pi].name, "source": progs[pi].source, "breakpoint_line": progs[pi].lines[idx], "step": format!("{:?}", st)}),
            ));
        }
    }
    let _ = std::fs::remove_dir_all(&scratch);
    ctx.set("dap_sessions", json!(work.len()));
    agreed
}
