//! Conformance of the in-process LSP driver with the real `mos lsp` process: sampled histories are
//! replayed over stdio (JSON-RPC framing) against the executable and the answers to a probe set
//! are compared with those of the in-process server for the same history.

use crate::lspdrv::{uri, Server};
use mvlib::Ctx;
use serde_json::{json, Value};
use std::io::{BufRead, BufReader, Read, Write};
use std::process::{Child, ChildStdin, Command, Stdio};
use std::sync::mpsc::{channel, Receiver};
use std::time::Duration;

pub struct Real {
    child: Child,
    stdin: ChildStdin,
    rx: Receiver<Value>,
    next_id: i64,
}

impl Real {
    pub fn start(port: u16) -> Option<Real> {
        let bin = std::env::var("MOS_BIN").unwrap_or_else(|_| "/verif/.build/bin/release/mos".into());
        if !std::path::Path::new(&bin).exists() {
            return None;
        }
        let mut child = Command::new(&bin)
            .args(["lsp", "-p", &port.to_string()])
            .current_dir(crate::lspdrv::root())
            .stdin(Stdio::piped())
            .stdout(Stdio::piped())
            .stderr(Stdio::null())
            .spawn()
            .ok()?;
        let stdin = child.stdin.take()?;
        let stdout = child.stdout.take()?;
        let (tx, rx) = channel();
        std::thread::spawn(move || {
            let mut r = BufReader::new(stdout);
            loop {
                let mut len = 0usize;
                loop {
                    let mut line = String::new();
                    match r.read_line(&mut line) {
                        Ok(0) | Err(_) => return,
                        Ok(_) => {}
                    }
                    let l = line.trim();
                    if l.is_empty() {
                        break;
                    }
                    if let Some(v) = l.strip_prefix("Content-Length:") {
                        len = v.trim().parse().unwrap_or(0);
                    }
                }
                let mut buf = vec![0u8; len];
                if r.read_exact(&mut buf).is_err() {
                    return;
                }
                if let Ok(v) = serde_json::from_slice::<Value>(&buf) {
                    if tx.send(v).is_err() {
                        return;
                    }
                }
            }
        });
        let mut s = Real {
            child,
            stdin,
            rx,
            next_id: 1,
        };
        s.request("initialize", json!({"capabilities": {}}))?;
        s.notify("initialized", json!({}));
        Some(s)
    }

    fn send(&mut self, v: &Value) -> bool {
        let body = v.to_string();
        write!(self.stdin, "Content-Length: {}\r\n\r\n{}", body.len(), body).is_ok() && self.stdin.flush().is_ok()
    }

    pub fn notify(&mut self, method: &str, params: Value) {
        self.send(&json!({"jsonrpc": "2.0", "method": method, "params": params}));
    }

    pub fn request(&mut self, method: &str, params: Value) -> Option<Value> {
        let id = self.next_id;
        self.next_id += 1;
        if !self.send(&json!({"jsonrpc": "2.0", "id": id, "method": method, "params": params})) {
            return None;
        }
        loop {
            match self.rx.recv_timeout(Duration::from_secs(10)) {
                Ok(v) => {
                    if v.get("id").and_then(|i| i.as_i64()) == Some(id) && v.get("method").is_none() {
                        return Some(v.get("result").cloned().unwrap_or(Value::Null));
                    }
                }
                Err(_) => return None,
            }
        }
    }

    pub fn kill(mut self) {
        let _ = self.child.kill();
        let _ = self.child.wait();
    }
}

fn replay_on_real(r: &mut Real, hist: &Value) -> bool {
    for e in hist.as_array().cloned().unwrap_or_default() {
        let ok = if let Some(f) = e.get("didOpen").and_then(|x| x.as_str()) {
            r.notify("textDocument/didOpen", json!({"textDocument": {"uri": uri(f), "languageId": "asm", "version": 1, "text": e["text"]}}));
            true
        } else if let Some(f) = e.get("didChange").and_then(|x| x.as_str()) {
            r.notify("textDocument/didChange", json!({"textDocument": {"uri": uri(f), "version": 2}, "contentChanges": [{"text": e["text"]}]}));
            true
        } else if let Some(f) = e.get("didClose").and_then(|x| x.as_str()) {
            r.notify("textDocument/didClose", json!({"textDocument": {"uri": uri(f)}}));
            true
        } else if let Some(f) = e.get("rename").and_then(|x| x.as_str()) {
            r.request("textDocument/rename", json!({"textDocument": {"uri": uri(f)}, "position": {"line": e["line"], "character": e["character"]}, "newName": e["newName"]})).is_some()
        } else if let Some(f) = e.get("codeLens").and_then(|x| x.as_str()) {
            r.request("textDocument/codeLens", json!({"textDocument": {"uri": uri(f)}})).is_some()
        } else if let Some(f) = e.get("formatting").and_then(|x| x.as_str()) {
            r.request("textDocument/formatting", json!({"textDocument": {"uri": uri(f)}, "options": {"tabSize": 4, "insertSpaces": true}})).is_some()
        } else if let Some(f) = e.get("documentSymbol").and_then(|x| x.as_str()) {
            r.request("textDocument/documentSymbol", json!({"textDocument": {"uri": uri(f)}})).is_some()
        } else if let Some(f) = e.get("semanticTokens").and_then(|x| x.as_str()) {
            r.request("textDocument/semanticTokens/full", json!({"textDocument": {"uri": uri(f)}})).is_some()
        } else if e.get("workspaceSymbol").is_some() {
            r.request("workspace/symbol", json!({"query": ""})).is_some()
        } else {
            true
        };
        if !ok {
            return false;
        }
    }
    true
}

fn replay_in_process(s: &mut Server, hist: &Value) -> bool {
    for e in hist.as_array().cloned().unwrap_or_default() {
        let ok = if let Some(f) = e.get("didOpen").and_then(|x| x.as_str()) {
            s.did_open(f, e["text"].as_str().unwrap_or(""));
            s.sync().is_ok()
        } else if let Some(f) = e.get("didChange").and_then(|x| x.as_str()) {
            s.did_change(f, e["text"].as_str().unwrap_or(""));
            s.sync().is_ok()
        } else if let Some(f) = e.get("didClose").and_then(|x| x.as_str()) {
            s.did_close(f);
            s.sync().is_ok()
        } else if let Some(f) = e.get("rename").and_then(|x| x.as_str()) {
            s.request("textDocument/rename", json!({"textDocument": {"uri": uri(f)}, "position": {"line": e["line"], "character": e["character"]}, "newName": e["newName"]})).is_ok()
        } else if let Some(f) = e.get("codeLens").and_then(|x| x.as_str()) {
            s.request("textDocument/codeLens", json!({"textDocument": {"uri": uri(f)}})).is_ok()
        } else if let Some(f) = e.get("formatting").and_then(|x| x.as_str()) {
            s.request("textDocument/formatting", json!({"textDocument": {"uri": uri(f)}, "options": {"tabSize": 4, "insertSpaces": true}})).is_ok()
        } else if let Some(f) = e.get("documentSymbol").and_then(|x| x.as_str()) {
            s.request("textDocument/documentSymbol", json!({"textDocument": {"uri": uri(f)}})).is_ok()
        } else if let Some(f) = e.get("semanticTokens").and_then(|x| x.as_str()) {
            s.request("textDocument/semanticTokens/full", json!({"textDocument": {"uri": uri(f)}})).is_ok()
        } else if e.get("workspaceSymbol").is_some() {
            s.request("workspace/symbol", json!({"query": ""})).is_ok()
        } else {
            true
        };
        if !ok {
            return false;
        }
    }
    true
}

fn sorted(v: &Value) -> Value {
    match v {
        Value::Array(a) => {
            let mut items: Vec<Value> = a.iter().map(sorted).collect();
            items.sort_by_key(|x| x.to_string());
            Value::Array(items)
        }
        Value::Object(o) => Value::Object(o.iter().map(|(k, v)| (k.clone(), sorted(v))).collect()),
        other => other.clone(),
    }
}

/// Returns the number of histories on which the real process and the in-process server agreed.
pub fn validate(ctx: &Ctx, histories: &[Value], max: usize) -> usize {
    let mut validated = 0;
    let step = (histories.len() / max.max(1)).max(1);
    let picked: Vec<&Value> = histories.iter().step_by(step).take(max).collect();
    for (i, h) in picked.iter().enumerate() {
        let mut real = match Real::start(21000 + (std::process::id() % 2000) as u16 * 4 + (i % 4) as u16) {
            Some(r) => r,
            None => {
                ctx.note("real `mos lsp` binary not available: no conformance replays");
                return validated;
            }
        };
        let mut inproc = Server::start();
        let a = replay_on_real(&mut real, h);
        let b = replay_in_process(&mut inproc, h);
        let mut agree = a == b;
        if a && b {
            for f in ["main.asm", "other.asm"] {
                for (m, p) in [
                    ("textDocument/documentSymbol", json!({"textDocument": {"uri": uri(f)}})),
                    ("textDocument/semanticTokens/full", json!({"textDocument": {"uri": uri(f)}})),
                    ("textDocument/hover", json!({"textDocument": {"uri": uri(f)}, "position": {"line": 0, "character": 0}})),
                    ("textDocument/definition", json!({"textDocument": {"uri": uri(f)}, "position": {"line": 2, "character": 10}})),
                    ("textDocument/completion", json!({"textDocument": {"uri": uri(f)}, "position": {"line": 1, "character": 1}})),
                ] {
                    let ra = real.request(m, p.clone());
                    let rb = inproc.request(m, p).ok();
                    if ra.as_ref().map(sorted) != rb.as_ref().map(sorted) {
                        agree = false;
                        ctx.count("conformance_mismatch");
                        ctx.note(format!("conformance mismatch on {} {}: real {:?} vs in-process {:?} (history {})", m, f, ra, rb, h));
                    }
                }
            }
        }
        real.kill();
        if agree {
            validated += 1;
        } else {
            ctx.cap("real process and in-process server disagreed on a sampled history (see notes)");
        }
    }
    validated
}
