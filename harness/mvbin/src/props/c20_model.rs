//! Layer 2 of C20: the Promela model of the shutdown protocol, explored exhaustively by spin.
//! The model chooses the history (session state, order) nondeterministically and reports every
//! reachable (state, order, outcome) triple through embedded C code; the result is the outcome set
//! per history.

use mvlib::Ctx;
use serde_json::json;
use std::collections::{BTreeSet, HashMap};
use std::process::Command;

pub type OutcomeSets = HashMap<(String, String), BTreeSet<String>>;

/// `repaired` = the protocol as it is in the tree (the shutdown manager tells late registrations at once);
/// `false` explores the protocol as it was before repair 8dc9ff0 (used as a self-test of the model).
pub fn outcome_sets(ctx: &Ctx, repaired: bool) -> Result<OutcomeSets, String> {
    let model = ctx.verif_root.join("models/shutdown.pml");
    if !model.exists() {
        return Err(format!("{} missing", model.display()));
    }
    let dir = ctx.verif_root.join(".build/scratch/c20-spin").join(std::process::id().to_string());
    let _ = std::fs::remove_dir_all(&dir);
    std::fs::create_dir_all(&dir).map_err(|e| e.to_string())?;
    let run = |cmd: &mut Command| -> Result<String, String> {
        let o = cmd.current_dir(&dir).output().map_err(|e| e.to_string())?;
        let text = format!("{}{}", String::from_utf8_lossy(&o.stdout), String::from_utf8_lossy(&o.stderr));
        if !o.status.success() {
            return Err(text);
        }
        Ok(text)
    };
    run(Command::new("spin").arg(format!("-DIMPL_REMEMBERS={}", repaired as u8)).arg("-a").arg(&model))?;
    run(Command::new("gcc").args(["-O1", "-w", "-DNOREDUCE", "-o", "pan", "pan.c"]))?;
    let out = run(Command::new("./pan").args(["-m100000", "-c0", "-E"]))?;
    let mut sets: OutcomeSets = HashMap::new();
    let mut states_stored = 0u64;
    let mut transitions = 0u64;
    for line in out.lines() {
        if let Some(rest) = line.strip_prefix("TRIPLE ") {
            let p: Vec<&str> = rest.split_whitespace().collect();
            if p.len() == 3 {
                sets.entry((p[0].to_string(), p[1].to_string())).or_default().insert(p[2].to_string());
            }
        }
        if line.contains("states, stored") {
            states_stored = line.trim().split_whitespace().next().and_then(|x| x.parse().ok()).unwrap_or(0);
        }
        if line.contains("transitions (=") {
            transitions = line.trim().split_whitespace().next().and_then(|x| x.parse().ok()).unwrap_or(0);
        }
    }
    if out.contains("errors: ") && !out.contains("errors: 0") {
        ctx.note(format!("spin reports errors in the model: {}", out.lines().filter(|l| l.contains("errors:") || l.contains("assertion") || l.contains("invalid end")).collect::<Vec<_>>().join(" | ")));
    }
    if !repaired {
        let _ = std::fs::remove_dir_all(&dir);
        return Ok(sets);
    }
    ctx.set("spin_states_stored", json!(states_stored));
    ctx.set("spin_transitions", json!(transitions));
    ctx.set("model_outcome_sets", json!(sets.iter().map(|((s, o), v)| json!({"state": s, "order": o, "outcomes": v})).collect::<Vec<_>>()));
    let _ = std::fs::remove_dir_all(&dir);
    if sets.is_empty() {
        return Err(format!("the model produced no outcome triples:\n{}", out));
    }
    Ok(sets)
}
