//! C14 – the language server depends only on the current buffers and survives any request.
//!
//! Explicit-state breadth-first search over event histories. A state is a history; it is realised
//! by replaying the history on a *fresh real server* (real `LspServer::start()` main loop over an
//! in-memory connection). In every state the probe battery is run and compared with a fresh
//! server that only receives `didOpen` of the final buffers. Canonical key = (buffers, open
//! flags, digest of probe answers + diagnostics).

use crate::lspdrv::{pos_params, uri, Death, Server};
use mvlib::{fnv_str, Ctx, Finding};
use rayon::prelude::*;
use serde_json::{json, Value};
use std::collections::{BTreeMap, HashMap, HashSet};
use std::sync::Mutex;

pub const MAIN_TEXTS: [&str; 14] = [
    "",
    "lda",
    "lda #",
    "lda #1",
    "a: nop\ns: {\n  a: lda a\n  jmp super.a\n}\njmp s.a\n",
    "a: nop\ns: {\n  a: lda a\n  jmp super.a\n\njmp s.a\n",
    "a: nop\ns: {\n  a: lda nope\n  jmp super.a\n}\njmp s.a\n",
    ".import * from \"other.asm\"\na: nop\njsr foo\njmp a\n",
    "// é💾 comment\na: lda #1 // é💾\n.text \"é💾\"\njmp a\n",
    "a: nop\r\ns: {\r\n  a: lda a\r\n  jmp super.a\r\n}\r\njmp s.a\r\n",
    // an expression that continues on the next line (tokens spanning lines)
    ".const k = 1 + /* one\n  two */ 13\na: lda #k\n  .byte 1 +\n2\njmp a\n",
    // imports by name and under another name
    ".import foo, bar as baz from \"other.asm\"\na: nop\njsr foo\njsr baz\njmp a\n",
    // a segment whose name is interpolated, inside a scope that has a symbol of that name of its own
    ".define segment {\nname = \"code\"\nstart = $1000\n}\n.const seg = \"code\"\ns: {\n  .const seg = \"code\"\n  .segment \"{seg}\" { nop }\n}\n.segment \"{seg}\" { rts }\n",
    // a file that imports itself
    ".import * from \"main.asm\"\na: nop\n",
];
pub const OTHER_TEXTS: [&str; 3] = ["foo: nop\n", "foo: nop\nbar: rts\n", "foo: {\n"];
pub const STRAY_TEXTS: [&str; 1] = ["lda #1\nzz: nop\n"];
/// the project file as a buffer: the entry point is part of "the current buffers"
pub const TOML_TEXTS: [&str; 2] = ["[build]\nentry = \"main.asm\"\n", "[build]\nentry = \"stray.asm\"\n"];
/// (the fifth is no file at all: an editor's unsaved document; it is only ever asked about, never opened)
pub const FILES: [&str; 5] = ["main.asm", "other.asm", "stray.asm", "mos.toml", "untitled:Untitled-1"];

pub static TYPING_LADDER: std::sync::atomic::AtomicBool = std::sync::atomic::AtomicBool::new(false);

/// Texts per file. With the typing ladder (thorough) main.asm additionally gets every prefix of the
/// two-scope program that ends at a token boundary: the states an editor passes through while
/// the program is typed in, most of them syntactically broken.
fn texts_of(file: usize) -> &'static [&'static str] {
    static MAIN: once_cell::sync::OnceCell<Vec<&'static str>> = once_cell::sync::OnceCell::new();
    match file {
        0 => MAIN.get_or_init(|| {
            let mut v: Vec<&'static str> = MAIN_TEXTS.to_vec();
            if TYPING_LADDER.load(std::sync::atomic::Ordering::SeqCst) {
                let full: &'static str = MAIN_TEXTS[4];
                let mut prev_word = false;
                for (i, ch) in full.char_indices() {
                    let word = ch.is_alphanumeric() || ch == '_';
                    if i > 0 && (word != prev_word || !word) && !ch.is_whitespace() {
                        let p: &'static str = &full[..i];
                        if !v.contains(&p) {
                            v.push(p);
                        }
                    }
                    prev_word = word;
                }
            }
            v
        }),
        1 => &OTHER_TEXTS,
        2 => &STRAY_TEXTS,
        _ => &TOML_TEXTS,
    }
}

#[derive(Clone, Debug, PartialEq, Eq, Hash, PartialOrd, Ord)]
pub enum Event {
    Open(usize, usize),
    Change(usize, usize),
    Close(usize),
    /// rename at (file, line, character) to name
    Rename(usize, u32, u32, String),
    CodeLens(usize),
    Formatting(usize),
    /// read-only requests as events: a request must not change what later requests are answered
    DocSymbol(usize),
    SemTokens(usize),
    WorkspaceSymbol,
}

impl Event {
    fn to_json(&self) -> Value {
        match self {
            Event::Open(f, t) => json!({"didOpen": FILES[*f], "text": texts_of(*f)[*t]}),
            Event::Change(f, t) => json!({"didChange": FILES[*f], "text": texts_of(*f)[*t]}),
            Event::Close(f) => json!({"didClose": FILES[*f]}),
            Event::Rename(f, l, c, n) => json!({"rename": FILES[*f], "line": l, "character": c, "newName": n}),
            Event::CodeLens(f) => json!({"codeLens": FILES[*f]}),
            Event::Formatting(f) => json!({"formatting": FILES[*f]}),
            Event::DocSymbol(f) => json!({"documentSymbol": FILES[*f]}),
            Event::SemTokens(f) => json!({"semanticTokens": FILES[*f]}),
            Event::WorkspaceSymbol => json!({"workspaceSymbol": ""}),
        }
    }
    fn kind(&self) -> &'static str {
        match self {
            Event::Open(..) => "didOpen",
            Event::Change(..) => "didChange",
            Event::Close(..) => "didClose",
            Event::Rename(..) => "rename",
            Event::CodeLens(..) => "codeLens",
            Event::Formatting(..) => "formatting",
            Event::DocSymbol(..) => "documentSymbol",
            Event::SemTokens(..) => "semanticTokens",
            Event::WorkspaceSymbol => "workspaceSymbol",
        }
    }
}

/// buffers[f] = Some(text index) when open
pub type Buffers = [Option<usize>; 4];

pub fn buffers_after(history: &[Event]) -> Buffers {
    let mut b: Buffers = [None; 4];
    for e in history {
        match e {
            Event::Open(f, t) | Event::Change(f, t) => b[*f] = Some(*t),
            Event::Close(f) => b[*f] = None,
            _ => {}
        }
    }
    b
}

pub fn apply_event(s: &mut Server, e: &Event) -> Result<(), Death> {
    match e {
        Event::Open(f, t) => {
            s.did_open(FILES[*f], texts_of(*f)[*t]);
            s.sync()
        }
        Event::Change(f, t) => {
            s.did_change(FILES[*f], texts_of(*f)[*t]);
            s.sync()
        }
        Event::Close(f) => {
            s.did_close(FILES[*f]);
            s.sync()
        }
        Event::Rename(f, l, c, n) => {
            let mut p = pos_params(FILES[*f], *l, *c);
            p["newName"] = json!(n);
            s.request("textDocument/rename", p).map(|_| ())
        }
        Event::CodeLens(f) => s
            .request("textDocument/codeLens", json!({"textDocument": {"uri": uri(FILES[*f])}}))
            .map(|_| ()),
        Event::Formatting(f) => s
            .request(
                "textDocument/formatting",
                json!({"textDocument": {"uri": uri(FILES[*f])}, "options": {"tabSize": 4, "insertSpaces": true}}),
            )
            .map(|_| ()),
        Event::DocSymbol(f) => s
            .request("textDocument/documentSymbol", json!({"textDocument": {"uri": uri(FILES[*f])}}))
            .map(|_| ()),
        Event::SemTokens(f) => s
            .request("textDocument/semanticTokens/full", json!({"textDocument": {"uri": uri(FILES[*f])}}))
            .map(|_| ()),
        Event::WorkspaceSymbol => s.request("workspace/symbol", json!({"query": ""})).map(|_| ()),
    }
}

#[derive(Clone, Debug, PartialEq, Eq, Hash, PartialOrd, Ord)]
pub struct Probe {
    pub method: &'static str,
    pub file: usize,
    pub line: u32,
    pub character: u32,
    pub class: &'static str,
}

const POS_METHODS: [&str; 6] = [
    "textDocument/hover",
    "textDocument/definition",
    "textDocument/references",
    "textDocument/documentHighlight",
    "textDocument/prepareRename",
    "textDocument/completion",
];
const DOC_METHODS: [&str; 4] = [
    "textDocument/documentSymbol",
    "textDocument/semanticTokens/full",
    "textDocument/codeLens",
    "textDocument/formatting",
];

/// Positions of interest in a text: (line, character in bytes, class)
pub fn positions(text: &str, full: bool) -> Vec<(u32, u32, &'static str)> {
    let mut out = vec![];
    let lines: Vec<&str> = text.split('\n').map(|l| l.trim_end_matches('\r')).collect();
    for (li, line) in lines.iter().enumerate() {
        let mut prev_word = false;
        for (ci, ch) in line.char_indices() {
            let word = ch.is_alphanumeric() || ch == '_';
            if (word && !prev_word) || (!word && !ch.is_whitespace()) {
                out.push((li as u32, ci as u32, "token-start"));
            }
            if full && word && prev_word && ci % 3 == 1 {
                out.push((li as u32, ci as u32, "token-middle"));
            }
            if ch.len_utf8() > 1 {
                out.push((li as u32, ci as u32 + 1, "inside-multibyte"));
                if full && ch.len_utf8() > 2 {
                    out.push((li as u32, ci as u32 + 2, "inside-multibyte"));
                }
                out.push((li as u32, (ci + ch.len_utf8()) as u32, "after-multibyte"));
            }
            prev_word = word;
        }
        out.push((li as u32, line.len() as u32, "line-end"));
        out.push((li as u32, line.len() as u32 + 1, "beyond-line-end"));
        if full {
            out.push((li as u32, line.len() as u32 + 5, "beyond-line-end"));
        }
    }
    out.push((lines.len() as u32, 0, "beyond-last-line"));
    if full {
        out.push((lines.len() as u32 + 92, 3, "beyond-last-line"));
    }
    out
}

pub fn battery(buffers: &Buffers, full: bool) -> Vec<Probe> {
    let mut out = vec![];
    for f in 0..3 {
        // positions come from the open buffer; a closed file is probed at a fixed small grid
        let pos: Vec<(u32, u32, &'static str)> = match buffers[f] {
            Some(t) => positions(texts_of(f)[t], full),
            None => vec![(0, 0, "closed-file"), (0, 3, "closed-file"), (2, 1, "closed-file")],
        };
        for m in POS_METHODS.iter() {
            for (l, c, class) in &pos {
                out.push(Probe {
                    method: m,
                    file: f,
                    line: *l,
                    character: *c,
                    class,
                });
            }
        }
        for m in DOC_METHODS.iter() {
            out.push(Probe {
                method: m,
                file: f,
                line: 0,
                character: 0,
                class: "document",
            });
        }
    }
    out.push(Probe {
        method: "workspace/symbol",
        file: 0,
        line: 0,
        character: 0,
        class: "workspace",
    });
    // a document that is not a file (last: should the server die of one of these, everything else has been asked)
    for m in POS_METHODS.iter().chain(DOC_METHODS.iter()) {
        out.push(Probe {
            method: m,
            file: 4,
            line: 0,
            character: 0,
            class: "not-a-file",
        });
    }
    out
}

fn run_probe(s: &mut Server, p: &Probe) -> Result<Value, Death> {
    let doc = json!({"uri": uri(FILES[p.file])});
    let params = match p.method {
        "workspace/symbol" => json!({"query": ""}),
        "textDocument/formatting" => json!({"textDocument": doc, "options": {"tabSize": 4, "insertSpaces": true}}),
        "textDocument/documentSymbol" | "textDocument/semanticTokens/full" | "textDocument/codeLens" => {
            json!({"textDocument": doc})
        }
        "textDocument/references" => {
            json!({"textDocument": doc, "position": {"line": p.line, "character": p.character}, "context": {"includeDeclaration": true}})
        }
        _ => json!({"textDocument": doc, "position": {"line": p.line, "character": p.character}}),
    };
    s.request(p.method, params)
}

/// Sorts arrays whose order carries no meaning.
fn canon(method: &str, v: &Value) -> Value {
    fn sort_arrays(v: &Value) -> Value {
        match v {
            Value::Array(a) => {
                let mut items: Vec<Value> = a.iter().map(sort_arrays).collect();
                items.sort_by_key(|x| x.to_string());
                Value::Array(items)
            }
            Value::Object(o) => Value::Object(o.iter().map(|(k, v)| (k.clone(), sort_arrays(v))).collect()),
            other => other.clone(),
        }
    }
    match method {
        // token stream and edit lists are ordered
        "textDocument/semanticTokens/full" | "textDocument/formatting" => v.clone(),
        _ => sort_arrays(v),
    }
}

#[derive(Clone, Debug)]
pub struct Observation {
    /// answer per probe (canonicalised) or the way the server died
    pub answers: Vec<Result<Value, String>>,
    pub diags: BTreeMap<String, Value>,
    pub deaths: Vec<(Probe, Death)>,
    pub malformed: Vec<(Probe, String)>,
}

impl Observation {
    pub fn digest(&self) -> u64 {
        let mut s = String::new();
        for a in &self.answers {
            match a {
                Ok(v) => s.push_str(&v.to_string()),
                Err(e) => s.push_str(e),
            }
            s.push('\n');
        }
        for (k, v) in &self.diags {
            // an empty list and no list at all are the same thing for the client
            if v.as_array().map_or(true, |a| a.is_empty()) {
                continue;
            }
            let mut items: Vec<String> = v.as_array().map(|a| a.iter().map(|x| x.to_string()).collect()).unwrap_or_default();
            items.sort();
            s.push_str(k);
            s.push_str(&items.join(","));
        }
        fnv_str(&s)
    }
}

fn utf16_len(s: &str) -> usize {
    s.encode_utf16().count()
}

/// Well-formedness of positional results against the document text.
fn check_ranges(v: &Value, text_of_uri: &dyn Fn(&str) -> Option<String>, default_uri: &str, problems: &mut Vec<String>) {
    fn walk(v: &Value, cur_uri: &str, text_of_uri: &dyn Fn(&str) -> Option<String>, problems: &mut Vec<String>) {
        match v {
            Value::Object(o) => {
                let uri = o.get("uri").and_then(|u| u.as_str()).unwrap_or(cur_uri).to_string();
                for (k, val) in o {
                    if (k == "range" || k == "selectionRange" || k == "targetRange" || k == "targetSelectionRange") && val.is_object() {
                        if let Some(text) = text_of_uri(&uri) {
                            // a CR before the line feed counts as a character of the line
                            let lines: Vec<&str> = text.split('\n').collect();
                            for end in ["start", "end"] {
                                let l = val[end]["line"].as_u64().unwrap_or(0) as usize;
                                let c = val[end]["character"].as_u64().unwrap_or(0) as usize;
                                // a position on the line after the last one with character 0 is the end of the document
                                let ok = if l < lines.len() {
                                    c <= utf16_len(lines[l]).max(lines[l].len())
                                } else {
                                    l == lines.len() && c == 0
                                };
                                if !ok {
                                    problems.push(format!("range {} {}:{} outside the document ({} lines)", end, l, c, lines.len()));
                                }
                            }
                            let (sl, sc) = (val["start"]["line"].as_u64(), val["start"]["character"].as_u64());
                            let (el, ec) = (val["end"]["line"].as_u64(), val["end"]["character"].as_u64());
                            if (sl, sc) > (el, ec) {
                                problems.push("range start after end".into());
                            }
                        }
                    }
                    walk(val, &uri, text_of_uri, problems);
                }
            }
            Value::Array(a) => {
                for x in a {
                    walk(x, cur_uri, text_of_uri, problems);
                }
            }
            _ => {}
        }
    }
    walk(v, default_uri, text_of_uri, problems);
}

fn check_tokens(v: &Value, text: Option<&str>, problems: &mut Vec<String>) {
    if let Some(data) = v.get("data").and_then(|d| d.as_array()) {
        let nums: Vec<u64> = data.iter().filter_map(|x| x.as_u64()).collect();
        if nums.len() % 5 != 0 {
            problems.push("semantic token data length not a multiple of 5".into());
            return;
        }
        let lines: Option<Vec<&str>> = text.map(|t| t.split('\n').collect());
        let mut prev_len = 0u64;
        let (mut line, mut start) = (0u64, 0u64);
        for (i, t) in nums.chunks(5).enumerate() {
            let (dl, ds, len) = (t[0], t[1], t[2]);
            if len == 0 {
                problems.push(format!("semantic token {} has length 0", i));
            }
            if i > 0 && dl == 0 && ds < prev_len {
                problems.push(format!("semantic token {} overlaps its predecessor (deltaStart {} < previous length {})", i, ds, prev_len));
            }
            prev_len = len;
            // absolute position: a token lies inside one line of the document
            line += dl;
            start = if dl == 0 { start + ds } else { ds };
            if let Some(lines) = &lines {
                match lines.get(line as usize) {
                    None => problems.push(format!("semantic token {} is on line {} beyond the document ({} lines)", i, line, lines.len())),
                    Some(l) => {
                        let width = (utf16_len(l).max(l.len())) as u64;
                        if start.saturating_add(len) > width {
                            problems.push(format!("semantic token {} exceeds its line (start {} length {} on a line of {} characters)", i, start, len, width));
                        }
                    }
                }
            }
        }
    }
}

/// Realises `history` on a fresh server and runs the battery. When the server dies on a probe it
/// is restarted (history replayed) and the battery continues with the next probe.
pub fn observe(history: &[Event], battery: &[Probe], buffers: &Buffers) -> Observation {
    let mut obs = Observation {
        answers: Vec::with_capacity(battery.len()),
        diags: BTreeMap::new(),
        deaths: vec![],
        malformed: vec![],
    };
    let text_of = |u: &str| -> Option<String> {
        for f in 0..3 {
            if u == uri(FILES[f]) {
                return buffers[f].map(|t| texts_of(f)[t].to_string());
            }
        }
        None
    };
    let start = |obs: &mut Observation| -> Option<Server> {
        let mut s = Server::start();
        for e in history {
            if let Err(d) = apply_event(&mut s, e) {
                obs.deaths.push((
                    Probe {
                        method: e.kind(),
                        file: 0,
                        line: 0,
                        character: 0,
                        class: "event",
                    },
                    d,
                ));
                return None;
            }
        }
        Some(s)
    };
    let mut server = start(&mut obs);
    if let Some(s) = &server {
        obs.diags = s.diags.clone();
    }
    let mut restarts = 0;
    for p in battery {
        let s = match server.as_mut() {
            Some(s) => s,
            None => {
                obs.answers.push(Err("server-dead".into()));
                continue;
            }
        };
        match run_probe(s, p) {
            Ok(v) => {
                let mut problems = vec![];
                check_ranges(&v, &text_of, &uri(FILES[p.file]), &mut problems);
                if p.method == "textDocument/semanticTokens/full" {
                    check_tokens(&v, text_of(&uri(FILES[p.file])).as_deref(), &mut problems);
                }
                for pr in problems {
                    obs.malformed.push((p.clone(), pr));
                }
                obs.answers.push(Ok(canon(p.method, &v)));
            }
            Err(d) => {
                obs.answers.push(Err(format!("died:{:?}", match &d {
                    Death::Panic(pi) => pi.site.clone(),
                    other => format!("{:?}", other),
                })));
                obs.deaths.push((p.clone(), d));
                restarts += 1;
                server = if restarts < 400 { start(&mut obs) } else { None };
            }
        }
    }
    obs
}

fn enabled_events(buffers: &Buffers, thorough: bool) -> Vec<Event> {
    let mut ev = vec![];
    for f in 0..4 {
        for t in 0..texts_of(f).len() {
            match buffers[f] {
                None => ev.push(Event::Open(f, t)),
                Some(cur) if cur != t => ev.push(Event::Change(f, t)),
                _ => {}
            }
        }
        if buffers[f].is_some() {
            ev.push(Event::Close(f));
            if f < 3 {
                ev.push(Event::CodeLens(f));
                ev.push(Event::Formatting(f));
                ev.push(Event::DocSymbol(f));
                ev.push(Event::SemTokens(f));
            }
        }
    }
    if buffers.iter().any(|b| b.is_some()) {
        ev.push(Event::WorkspaceSymbol);
    }
    // renames at identifier occurrences of the open main buffer
    if let Some(t) = buffers[0] {
        let text = texts_of(0)[t];
        let mut n = 0;
        for (l, c, class) in positions(text, false) {
            if class != "token-start" {
                continue;
            }
            let line = text.split('\n').nth(l as usize).unwrap_or("");
            let ch = line[c as usize..].chars().next().unwrap_or(' ');
            if !(ch.is_alphabetic() || ch == '_') {
                continue;
            }
            n += 1;
            if n > if thorough { 8 } else { 5 } {
                break;
            }
            ev.push(Event::Rename(0, l, c, "zz".into()));
            if thorough {
                ev.push(Event::Rename(0, l, c, "foo".into()));
            }
        }
    }
    ev
}

fn death_sig(p: &Probe, d: &Death) -> String {
    let what = match d {
        Death::Panic(pi) => format!("panic:{}", pi.site),
        Death::Error(e) => format!("loop-error:{}", e.chars().filter(|c| c.is_alphanumeric()).take(24).collect::<String>()),
        Death::Ended => "server-ended".into(),
        Death::NoResponse(_) => "no-response".into(),
    };
    format!("lsp:{}:{}:{}", p.method.trim_start_matches("textDocument/"), p.class, what)
}

pub fn run(ctx: &Ctx, replay: Option<&Value>) -> i32 {
    let thorough = ctx.tier.is_thorough();
    if let Some(case) = replay {
        println!("replay of C14 cases: re-run `./check C14`; case = {}", case);
        return 0;
    }
    let _ = crate::lspdrv::root();
    TYPING_LADDER.store(thorough, std::sync::atomic::Ordering::SeqCst);
    if std::env::var("C14_ONE").is_ok() {
        // debugging aid: one history, one probe
        let t = MAIN_TEXTS.len() - 2;
        for hist in [vec![Event::Open(0, t)], vec![Event::Open(0, t), Event::DocSymbol(0)]] {
            let b = buffers_after(&hist);
            let p = Probe { method: "textDocument/references", file: 0, line: 4, character: 7, class: "token-start" };
            let o = observe(&hist, &[p], &b);
            println!("{:?} -> {:?} diags {:?}", hist, o.answers, o.diags);
        }
        return 0;
    }
    ctx.set("main_texts", json!(texts_of(0).len()));
    let max_depth = if thorough { 64 } else { 3 };
    let full = thorough;

    // The search runs once per state of the disk: without any file, and with an `other.asm` on disk that
    // assembles with an error of its own (what the server falls back to when the buffer is closed).
    let mut states = 0usize;
    let mut total_transitions = 0u64;
    let mut total_requests = 0u64;
    let mut depth_reached = 0usize;
    let mut closure = true;
    let mut samples_for_replay: Vec<Value> = vec![];
    for (disk_name, disk_other) in [("empty", None), ("other.asm-with-error", Some("foo: nop\nlda nope\n"))] {
        let disk_path = crate::lspdrv::root().join("other.asm");
        match disk_other {
            Some(t) => std::fs::write(&disk_path, t).expect("cannot write the disk file"),
            None => {
                let _ = std::fs::remove_file(&disk_path);
            }
        }
    // reference observations per buffer configuration (fresh server, didOpen of final buffers)
        let reference: Mutex<HashMap<Buffers, (u64, Observation)>> = Mutex::new(HashMap::new());
        let get_reference = |b: &Buffers| -> (u64, Observation) {
            if let Some(r) = reference.lock().unwrap().get(b) {
                return r.clone();
            }
            // other.asm first, so that main.asm's import finds it
            let mut h = vec![];
            for f in [3usize, 1, 2, 0] {
                if let Some(t) = b[f] {
                    h.push(Event::Open(f, t));
                }
            }
            let o = observe(&h, &battery(b, full), b);
            let d = o.digest();
            reference.lock().unwrap().insert(*b, (d, o.clone()));
            (d, o)
        };

        let seen: Mutex<HashSet<(Buffers, u64)>> = Mutex::new(HashSet::new());
        let transitions = std::sync::atomic::AtomicU64::new(0);
        let requests = std::sync::atomic::AtomicU64::new(0);
        let mut frontier: Vec<Vec<Event>> = vec![vec![]];
        seen.lock().unwrap().insert(([None; 4], get_reference(&[None; 4]).0));
        let mut depth = 0;
        let mut closure_here = false;
        let sample_histories: Mutex<Vec<Value>> = Mutex::new(vec![]);
        while !frontier.is_empty() && depth < max_depth {
            depth += 1;
            let next: Mutex<Vec<Vec<Event>>> = Mutex::new(vec![]);
            let work: Vec<(Vec<Event>, Event)> = frontier
                .iter()
                .flat_map(|h| {
                    let b = buffers_after(h);
                    enabled_events(&b, thorough).into_iter().map(move |e| (h.clone(), e))
                })
                .collect();
            work.par_iter().for_each(|(h, e)| {
                let mut hist = h.clone();
                hist.push(e.clone());
                let b = buffers_after(&hist);
                let bat = battery(&b, full);
                transitions.fetch_add(1, std::sync::atomic::Ordering::Relaxed);
                requests.fetch_add(bat.len() as u64, std::sync::atomic::Ordering::Relaxed);
                ctx.eval(|| json!(hist.iter().map(|e| e.to_json()).collect::<Vec<_>>()));
                let obs = observe(&hist, &bat, &b);
                let d = obs.digest();
                if disk_other.is_some() && json!(obs.diags).to_string().contains("unknown identifier: nope") {
                    // (evidence that the disk file is what the server reads when the buffer is closed)
                    ctx.count("states_showing_the_disk_file's_own_error");
                }
                let (rd, robs) = get_reference(&b);
                let hist_json = json!(hist.iter().map(|e| e.to_json()).collect::<Vec<_>>());
                // (i) every request answered, server alive
                for (p, death) in &obs.deaths {
                    ctx.finding(Finding::new(
                        death_sig(p, death),
                        format!("{} at {}:{}:{} ({}) ended the server: {:?}", p.method, FILES[p.file], p.line, p.character, p.class, death),
                        json!({"history": hist_json, "probe": {"method": p.method, "file": FILES[p.file], "line": p.line, "character": p.character}}),
                    ));
                }
                // (iii) well-formedness
                for (p, why) in &obs.malformed {
                    ctx.finding(Finding::new(
                        format!("lsp:{}:{}:malformed:{}", p.method.trim_start_matches("textDocument/"), p.class, why.split(' ').take(2).collect::<Vec<_>>().join("-")),
                        format!("{} at {}:{}:{}: {}", p.method, FILES[p.file], p.line, p.character, why),
                        json!({"history": hist_json, "probe": {"method": p.method, "file": FILES[p.file], "line": p.line, "character": p.character}}),
                    ));
                }
                // (ii) equals the fresh server
                if d != rd {
                    // first differing probe
                    let mut reported = false;
                    for (i, (a, r)) in obs.answers.iter().zip(robs.answers.iter()).enumerate() {
                        if a != r {
                            let p = &bat[i];
                            if a.is_err() || r.is_err() {
                                // deaths are reported above
                                continue;
                            }
                            ctx.finding(Finding::new(
                                format!("lsp:{}:{}:stale-after:{}", p.method.trim_start_matches("textDocument/"), p.class, stale_cause(&hist)),
                                format!(
                                    "after the history the answer to {} at {}:{}:{} is {} but a fresh server with the same buffers answers {}",
                                    p.method, FILES[p.file], p.line, p.character,
                                    trunc(&a.as_ref().unwrap().to_string()), trunc(&r.as_ref().unwrap().to_string())
                                ),
                                json!({"history": hist_json, "probe": {"method": p.method, "file": FILES[p.file], "line": p.line, "character": p.character}}),
                            ));
                            reported = true;
                            break;
                        }
                    }
                    if !reported && nonempty(&obs.diags) != nonempty(&robs.diags) {
                        ctx.finding(Finding::new(
                            format!("lsp:publishDiagnostics:stale-after:{}", stale_cause(&hist)),
                            format!("last published diagnostics {} differ from a fresh server's {}", trunc(&json!(obs.diags).to_string()), trunc(&json!(robs.diags).to_string())),
                            json!({"history": hist_json}),
                        ));
                    }
                }
                // (up to depth 3 every history is extended, whatever its state looks like: a server may carry state
                // that none of the answers shows yet - the canonical key only prunes deeper levels)
                let fresh = seen.lock().unwrap().insert((b, d));
                if fresh || depth <= 2 {
                    ctx.nontrivial(fnv_str(&format!("{:?}{}", b, d)));
                    let mut sh = sample_histories.lock().unwrap();
                    if sh.len() < 300 {
                        sh.push(hist_json);
                    }
                    next.lock().unwrap().push(hist);
                }
            });
            frontier = next.into_inner().unwrap();
            eprintln!("[c14] depth {} done: {} states, {} transitions, frontier {}", depth, seen.lock().unwrap().len(), transitions.load(std::sync::atomic::Ordering::Relaxed), frontier.len());
            if frontier.is_empty() {
                closure_here = true;
            }
        }
        let states_here = seen.lock().unwrap().len();
        states += states_here;
        total_transitions += transitions.load(std::sync::atomic::Ordering::Relaxed);
        total_requests += requests.load(std::sync::atomic::Ordering::Relaxed);
        depth_reached = depth_reached.max(depth);
        ctx.set(&format!("states_disk_{}", disk_name), json!(states_here));
        if !closure_here {
            closure = false;
            ctx.note(format!("disk {}: search stopped at the depth bound {} with {} frontier states", disk_name, max_depth, frontier.len()));
        }
        // (the conformance replays run against a real process in an empty directory)
        if disk_other.is_none() {
            samples_for_replay = sample_histories.into_inner().unwrap();
        }
        let _ = std::fs::remove_file(&disk_path);
    }
    ctx.set("states", json!(states));
    ctx.set("transitions", json!(total_transitions));
    ctx.set("requests_sent", json!(total_requests));
    ctx.set("max_depth_reached", json!(depth_reached));
    ctx.set("closure_reached", json!(closure));
    // conformance with the real process
    let validated = super::c14_real::validate(ctx, &samples_for_replay, if thorough { 200 } else { 40 });
    ctx.set("traces_validated_against_impl", json!(validated));
    crate::lspdrv::cleanup_root();
    ctx.finish(
        "model_checking",
        "explicit-state BFS over LSP event histories (didOpen/didChange/didClose of 3 source files with a typing ladder of texts and of mos.toml with two entry points, rename, codeLens, formatting), once with an empty disk and once with an imported file on disk that has an error of its own; each state = history replayed on a fresh real server (real main loop over an in-memory connection); in every state the probe battery (10 request types x token starts / line ends / beyond-end / inside-multibyte positions x 3 files) is compared with a fresh server opened on the final buffers; canonical key = (buffers, digest of answers and diagnostics); states = distinct keys",
        closure,
        &[
            "stdio framing is exercised only by the conformance replays against the real `mos lsp` process",
            "texts are a fixed ladder of 14+3+1 buffers (thorough: plus every token-boundary prefix of the two-scope program); positions are byte columns as the server interprets them",
            "quick: depth bound 3 and reduced battery; thorough: search to closure",
        ],
    )
}

fn nonempty(d: &BTreeMap<String, Value>) -> BTreeMap<String, Vec<String>> {
    d.iter()
        .filter(|(_, v)| v.as_array().map_or(false, |a| !a.is_empty()))
        .map(|(k, v)| {
            let mut items: Vec<String> = v.as_array().unwrap().iter().map(|x| x.to_string()).collect();
            items.sort();
            (k.clone(), items)
        })
        .collect()
}

fn stale_cause(hist: &[Event]) -> String {
    // the last state-touching event kind other than a plain open/change of the probed text
    for e in hist.iter().rev() {
        match e {
            Event::Close(_) => return "didClose".into(),
            Event::Rename(..) => return "rename".into(),
            Event::Formatting(_) => return "formatting".into(),
            Event::CodeLens(_) => return "codeLens".into(),
            Event::DocSymbol(_) => return "documentSymbol".into(),
            Event::SemTokens(_) => return "semanticTokens".into(),
            Event::WorkspaceSymbol => return "workspaceSymbol".into(),
            _ => {}
        }
    }
    "didChange".into()
}

fn trunc(s: &str) -> String {
    if s.chars().count() > 240 {
        s.chars().take(240).collect::<String>() + "…"
    } else {
        s.to_string()
    }
}
