//! C18 – not implemented yet.
use mvlib::Ctx;
use serde_json::Value;

pub fn run(_ctx: &Ctx, _replay: Option<&Value>) -> i32 {
    eprintln!("C18: engine not implemented yet");
    2
}
