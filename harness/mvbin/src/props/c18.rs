//! C18 – unit-test verdicts reflect the emulated machine state.
//!
//! Bounded-exhaustive enumeration of `.test` programs against a reference 6502 interpreter
//! written here (documented binary-mode semantics of exactly the enumerated instruction subset).
//!
//! Space: test bodies = all sequences of <= k instructions over a 14-instruction alphabet, inside
//! three frames (straight line / counted loop / subroutine called twice), preceded by a fixed
//! prologue that makes every asserted quantity independent of the emulator's initial state, with
//! ONE `.assert` in one gap (every gap in turn, every assertion kind, value taken from the
//! reference at the 1st or 2nd dynamic visit of that gap, true or off-by-one, with and without a
//! custom message); plus two-bank programs for the isolation clause.
//!
//! Oracle: pass iff the reference reaches BRK and the assertion holds at every dynamic visit of
//! its gap; otherwise failure at that assertion (line of the `.assert`, its message). Programs
//! whose reference run does not reach BRK within the step budget and whose assertion never fails
//! get no verdict (the statement is silent).
//!
//! Every case runs in-process through the real `TestRunner`; a stratified subset additionally
//! runs through the real `mos test` binary (exit status, stdout).

use crate::test_runner::{ExecuteResult, TestRunner};
use mos_core::parser::source::InMemoryParsingSource;
use mos_core::parser::IdentifierPath;
use mvlib::{fnv_str, Ctx, Finding};
use rayon::prelude::*;
use serde_json::{json, Value};
use std::collections::{BTreeMap, BTreeSet, HashMap};
use std::path::{Path, PathBuf};
use std::sync::atomic::{AtomicU64, Ordering};
use std::sync::Mutex;

/// start of the default segment as implemented (the guide says $2000; the code uses $c000). Only
/// the `* == here` kind depends on it; the bank programs use explicit segment starts.
const BASE: u16 = 0xc000;
/// reference step budget (longest terminating program of the space: 256 iterations x 5 + frame)
const REF_BUDGET: usize = 6000;
/// cap on `execute_instruction` calls of the real runner (it has no limit of its own)
const RUNNER_CAP: usize = 8000;
const CUSTOM_MSG: &str = "custom msg 18";
const BIN_TIMEOUT_MS: u64 = 30_000;
const BATCH: usize = 6;

// ------------------------------------------------------------------------------------------
// instruction subset + reference interpreter
// ------------------------------------------------------------------------------------------

#[derive(Clone, Copy, Debug, PartialEq, Eq)]
enum Op {
    Lda(u8),
    Ldx(u8),
    Inx,
    Dex,
    Tax,
    Sta(u8),
    Inc(u8),
    Adc(u8),
    Sbc(u8),
    Cmp(u8),
    And(u8),
    Clc,
    Sec,
    Cld,
    Bne(&'static str),
    Jsr(&'static str),
    Rts,
    Brk,
}

impl Op {
    fn size(self) -> u16 {
        match self {
            Op::Lda(_) | Op::Ldx(_) | Op::Adc(_) | Op::Sbc(_) | Op::Cmp(_) | Op::And(_) => 2,
            Op::Sta(_) | Op::Inc(_) => 2, // zero page
            Op::Bne(_) => 2,
            Op::Jsr(_) => 3,
            _ => 1,
        }
    }
    fn text(self) -> String {
        fn imm(v: u8) -> String {
            if v < 10 {
                format!("#{}", v)
            } else {
                format!("#${:02x}", v)
            }
        }
        match self {
            Op::Lda(v) => format!("lda {}", imm(v)),
            Op::Ldx(v) => format!("ldx {}", imm(v)),
            Op::Inx => "inx".into(),
            Op::Dex => "dex".into(),
            Op::Tax => "tax".into(),
            Op::Sta(a) => format!("sta ${:02x}", a),
            Op::Inc(a) => format!("inc ${:02x}", a),
            Op::Adc(v) => format!("adc {}", imm(v)),
            Op::Sbc(v) => format!("sbc {}", imm(v)),
            Op::Cmp(v) => format!("cmp {}", imm(v)),
            Op::And(v) => format!("and {}", imm(v)),
            Op::Clc => "clc".into(),
            Op::Sec => "sec".into(),
            Op::Cld => "cld".into(),
            Op::Bne(l) => format!("bne {}", l),
            Op::Jsr(l) => format!("jsr {}", l),
            Op::Rts => "rts".into(),
            Op::Brk => "brk".into(),
        }
    }
}

const ALPHA: [Op; 14] = [
    Op::Lda(0),
    Op::Lda(0x80),
    Op::Ldx(2),
    Op::Inx,
    Op::Dex,
    Op::Tax,
    Op::Sta(0x10),
    Op::Inc(0x10),
    Op::Adc(0x7f),
    Op::Sbc(1),
    Op::Cmp(1),
    Op::And(0x0f),
    Op::Clc,
    Op::Sec,
];

/// Makes A, X, ram($10), Z, N, C, D defined whatever the emulator starts with (V is never asserted).
const PROLOGUE: [Op; 5] = [Op::Lda(0), Op::Tax, Op::Sta(0x10), Op::Clc, Op::Cld];

#[derive(Clone, Copy, Debug, PartialEq, Eq)]
struct St {
    pc: u16,
    a: u8,
    x: u8,
    m: u8, // ram($10)
    z: bool,
    c: bool,
    n: bool,
    v: bool,
    d: bool,
}

impl St {
    fn zeros() -> St {
        St { pc: 0, a: 0, x: 0, m: 0, z: false, c: false, n: false, v: false, d: false }
    }
    fn ones() -> St {
        St { pc: 0, a: 0xff, x: 0xff, m: 0xff, z: true, c: true, n: true, v: true, d: true }
    }
    fn zn(&mut self, v: u8) {
        self.z = v == 0;
        self.n = v & 0x80 != 0;
    }
    fn adc(&mut self, v: u8) {
        let sum = self.a as u16 + v as u16 + self.c as u16;
        let res = sum as u8;
        self.c = sum > 0xff;
        self.v = (!(self.a ^ v) & (self.a ^ res) & 0x80) != 0;
        self.a = res;
        self.zn(res);
    }
    /// the part of the state an assertion of this engine can observe
    fn observable(&self) -> (u16, u8, u8, u8, bool, bool) {
        (self.pc, self.a, self.x, self.m, self.z, self.c)
    }
}

#[derive(Clone, Copy, Debug, PartialEq, Eq, Hash, PartialOrd, Ord)]
enum Frame {
    Straight,
    Loop,
    Sub,
    /// as Sub, the subroutine standing after the `.test` block (shared code outside the test)
    SubOutside,
}

impl Frame {
    fn name(self) -> &'static str {
        match self {
            Frame::Straight => "straight",
            Frame::Loop => "loop",
            Frame::Sub => "sub",
            Frame::SubOutside => "sub-outside-test",
        }
    }
    fn from_name(s: &str) -> Option<Frame> {
        match s {
            "straight" => Some(Frame::Straight),
            "loop" => Some(Frame::Loop),
            "sub" => Some(Frame::Sub),
            "sub-outside-test" => Some(Frame::SubOutside),
            _ => None,
        }
    }
}

#[derive(Clone, Debug)]
enum Item {
    Op(Op),
    Label(&'static str),
    Gap(String),
    /// the `.test` block ends here; what follows stands after it
    EndTest,
}

struct Prog {
    items: Vec<Item>,
    /// (address, op) in layout order
    ops: Vec<(u16, Op)>,
    by_addr: HashMap<u16, usize>,
    labels: HashMap<&'static str, u16>,
    /// gap index -> (name, address of the instruction that follows)
    gaps: Vec<(String, u16)>,
    gap_at: HashMap<u16, usize>,
}

/// The gaps that are kept are those whose address identifies them uniquely *and* whose textual
/// position is on the executed path exactly when the PC is there. Excluded (statement silent):
/// the gap directly before a label that is a jump target (`ldx #2 / <here> / l:` and
/// `brk / <here> / s:`) – by PC it coincides with the gap after the label.
fn build_items(frame: Frame, body: &[usize]) -> Vec<Item> {
    let mut it: Vec<Item> = PROLOGUE.iter().map(|o| Item::Op(*o)).collect();
    match frame {
        Frame::Straight => {
            for (i, b) in body.iter().enumerate() {
                it.push(Item::Gap(format!("before-b{}", i)));
                it.push(Item::Op(ALPHA[*b]));
            }
            it.push(Item::Gap("before-brk".into()));
            it.push(Item::Op(Op::Brk));
        }
        Frame::Loop => {
            it.push(Item::Gap("before-ldx".into()));
            it.push(Item::Op(Op::Ldx(2)));
            it.push(Item::Label("l"));
            for (i, b) in body.iter().enumerate() {
                it.push(Item::Gap(format!("loop-before-b{}", i)));
                it.push(Item::Op(ALPHA[*b]));
            }
            it.push(Item::Gap("loop-before-dex".into()));
            it.push(Item::Op(Op::Dex));
            it.push(Item::Gap("loop-before-bne".into()));
            it.push(Item::Op(Op::Bne("l")));
            it.push(Item::Gap("before-brk".into()));
            it.push(Item::Op(Op::Brk));
        }
        Frame::Sub | Frame::SubOutside => {
            it.push(Item::Gap("before-jsr1".into()));
            it.push(Item::Op(Op::Jsr("s")));
            it.push(Item::Gap("before-jsr2".into()));
            it.push(Item::Op(Op::Jsr("s")));
            it.push(Item::Gap("before-brk".into()));
            it.push(Item::Op(Op::Brk));
            if frame == Frame::SubOutside {
                it.push(Item::EndTest);
            }
            it.push(Item::Label("s"));
            for (i, b) in body.iter().enumerate() {
                it.push(Item::Gap(format!("sub-before-b{}", i)));
                it.push(Item::Op(ALPHA[*b]));
            }
            it.push(Item::Gap("sub-before-rts".into()));
            it.push(Item::Op(Op::Rts));
        }
    }
    it
}

fn layout(items: Vec<Item>, base: u16) -> Prog {
    let mut addr = base;
    let mut ops = vec![];
    let mut by_addr = HashMap::new();
    let mut labels = HashMap::new();
    let mut gaps = vec![];
    let mut gap_at = HashMap::new();
    for it in &items {
        match it {
            Item::Op(op) => {
                by_addr.insert(addr, ops.len());
                ops.push((addr, *op));
                addr += op.size();
            }
            Item::Label(l) => {
                labels.insert(*l, addr);
            }
            Item::Gap(name) => {
                assert!(!gap_at.contains_key(&addr), "two gaps at one address");
                gap_at.insert(addr, gaps.len());
                gaps.push((name.clone(), addr));
            }
            Item::EndTest => {}
        }
    }
    Prog { items, ops, by_addr, labels, gaps, gap_at }
}

struct RefRun {
    /// per gap: the machine state at each dynamic visit (before the following instruction)
    visits: Vec<Vec<St>>,
    terminated: bool,
    steps: usize,
}

fn reference(p: &Prog, init: St, base: u16) -> RefRun {
    let mut s = init;
    s.pc = base;
    let mut visits: Vec<Vec<St>> = vec![vec![]; p.gaps.len()];
    let mut stack: Vec<u16> = vec![];
    let mut steps = 0;
    loop {
        if let Some(g) = p.gap_at.get(&s.pc) {
            visits[*g].push(s);
        }
        let (addr, op) = p.ops[*p.by_addr.get(&s.pc).expect("reference: pc outside program")];
        if op == Op::Brk {
            return RefRun { visits, terminated: true, steps };
        }
        if steps >= REF_BUDGET {
            return RefRun { visits, terminated: false, steps };
        }
        steps += 1;
        let mut next = addr + op.size();
        match op {
            Op::Lda(v) => {
                s.a = v;
                s.zn(v);
            }
            Op::Ldx(v) => {
                s.x = v;
                s.zn(v);
            }
            Op::Inx => {
                s.x = s.x.wrapping_add(1);
                s.zn(s.x);
            }
            Op::Dex => {
                s.x = s.x.wrapping_sub(1);
                s.zn(s.x);
            }
            Op::Tax => {
                s.x = s.a;
                s.zn(s.x);
            }
            Op::Sta(a) => {
                assert_eq!(a, 0x10);
                s.m = s.a;
            }
            Op::Inc(a) => {
                assert_eq!(a, 0x10);
                s.m = s.m.wrapping_add(1);
                s.zn(s.m);
            }
            Op::Adc(v) => {
                assert!(!s.d, "reference: decimal mode is outside the model");
                s.adc(v);
            }
            Op::Sbc(v) => {
                assert!(!s.d, "reference: decimal mode is outside the model");
                s.adc(!v);
            }
            Op::Cmp(v) => {
                let r = s.a.wrapping_sub(v);
                s.c = s.a >= v;
                s.zn(r);
            }
            Op::And(v) => {
                s.a &= v;
                s.zn(s.a);
            }
            Op::Clc => s.c = false,
            Op::Sec => s.c = true,
            Op::Cld => s.d = false,
            Op::Bne(l) => {
                if !s.z {
                    next = p.labels[l];
                }
            }
            Op::Jsr(l) => {
                stack.push(next);
                next = p.labels[l];
            }
            Op::Rts => {
                next = stack.pop().expect("reference: rts without jsr");
            }
            Op::Brk => unreachable!(),
        }
        s.pc = next;
    }
}

// ------------------------------------------------------------------------------------------
// assertions
// ------------------------------------------------------------------------------------------

#[derive(Clone, Copy, Debug, PartialEq, Eq, Hash, PartialOrd, Ord)]
enum Kind {
    None,
    A,
    X,
    Ram,
    Zero,
    Carry,
    Pc,
    Const,
    /// refers to a symbol that is not in scope: cannot be evaluated, i.e. fails
    Undefined,
    /// compares a number with a string: has no value, i.e. fails
    Mixed,
    /// the last byte / the last word of the address space (nothing is loaded there: 0)
    RamTop,
    Ram16Top,
}

const KINDS: [Kind; 11] = [Kind::A, Kind::X, Kind::Ram, Kind::Zero, Kind::Carry, Kind::Pc, Kind::Const, Kind::Undefined, Kind::Mixed, Kind::RamTop, Kind::Ram16Top];

impl Kind {
    fn name(self) -> &'static str {
        match self {
            Kind::None => "none",
            Kind::A => "cpu.a",
            Kind::X => "cpu.x",
            Kind::Ram => "ram",
            Kind::Zero => "flags.zero",
            Kind::Carry => "flags.carry",
            Kind::Pc => "pc",
            Kind::Const => "const",
            Kind::Undefined => "undefined-symbol",
            Kind::Mixed => "number-vs-string",
            Kind::RamTop => "ram-top",
            Kind::Ram16Top => "ram16-top",
        }
    }
    fn state_dependent(self) -> bool {
        matches!(self, Kind::A | Kind::X | Kind::Ram | Kind::Zero | Kind::Carry)
    }
}

#[derive(Clone, Copy, Debug, PartialEq, Eq)]
enum Pred {
    A(u32),
    X(u32),
    M(u32),
    Z(bool),
    C(bool),
    Pc(u32),
    Const(bool),
    Undefined,
    Mixed,
    RamTop(bool),
    Ram16Top(bool),
}

impl Pred {
    fn holds(self, s: &St) -> bool {
        match self {
            Pred::A(v) => s.a as u32 == v,
            Pred::X(v) => s.x as u32 == v,
            Pred::M(v) => s.m as u32 == v,
            Pred::Z(b) => s.z == b,
            Pred::C(b) => s.c == b,
            Pred::Pc(v) => s.pc as u32 == v,
            Pred::Const(b) => b,
            // "cannot be evaluated" counts as zero
            Pred::Undefined | Pred::Mixed => false,
            Pred::RamTop(b) | Pred::Ram16Top(b) => b,
        }
    }
    fn expr(self) -> String {
        match self {
            Pred::A(v) => format!("cpu.a == {}", v),
            Pred::X(v) => format!("cpu.x == {}", v),
            Pred::M(v) => format!("ram($10) == {}", v),
            Pred::Z(true) => "cpu.flags.zero".into(),
            Pred::Z(false) => "!cpu.flags.zero".into(),
            Pred::C(true) => "cpu.flags.carry".into(),
            Pred::C(false) => "!cpu.flags.carry".into(),
            Pred::Pc(v) => format!("* == ${:04x}", v),
            Pred::Const(true) => "c == 5".into(),
            Pred::Const(false) => "c == 6".into(),
            Pred::Undefined => "ram(hidden_q) == 0".into(),
            Pred::Mixed => "cpu.x == \"one\"".into(),
            Pred::RamTop(true) => "ram($ffff) == 0".into(),
            Pred::RamTop(false) => "ram($ffff) == 1".into(),
            Pred::Ram16Top(true) => "ram16($fffe) == 0".into(),
            Pred::Ram16Top(false) => "ram16($fffe) == $0100".into(),
        }
    }
}

/// predicate that is true (`truth`) / false (`!truth`) in state `s`
fn make_pred(kind: Kind, s: &St, truth: bool) -> Pred {
    let off = if truth { 0 } else { 1 };
    match kind {
        Kind::A => Pred::A(s.a as u32 + off),
        Kind::X => Pred::X(s.x as u32 + off),
        Kind::Ram => Pred::M(s.m as u32 + off),
        Kind::Zero => Pred::Z(s.z == truth),
        Kind::Carry => Pred::C(s.c == truth),
        Kind::Pc => Pred::Pc(s.pc as u32 + off),
        Kind::Const => Pred::Const(truth),
        Kind::Undefined => Pred::Undefined,
        Kind::Mixed => Pred::Mixed,
        Kind::RamTop => Pred::RamTop(truth),
        Kind::Ram16Top => Pred::Ram16Top(truth),
        Kind::None => unreachable!(),
    }
}

#[derive(Clone, Debug, PartialEq, Eq)]
enum Expect {
    Pass,
    /// fails at this dynamic visit (1-based) of the assertion
    Fail(usize),
    NoVerdict,
}

impl Expect {
    fn visit_tag(&self) -> String {
        match self {
            Expect::Fail(1) => "v1".into(),
            Expect::Fail(2) => "v2".into(),
            Expect::Fail(_) => "v3+".into(),
            _ => "vnone".into(),
        }
    }
    fn text(&self) -> String {
        match self {
            Expect::Pass => "pass".into(),
            Expect::Fail(v) => format!("fail at visit {} of the assertion", v),
            Expect::NoVerdict => "no verdict".into(),
        }
    }
    fn from_text(s: &str) -> Expect {
        if s == "pass" {
            Expect::Pass
        } else if let Some(r) = s.strip_prefix("fail at visit ") {
            Expect::Fail(r.split(' ').next().and_then(|n| n.parse().ok()).unwrap_or(1))
        } else {
            Expect::NoVerdict
        }
    }
}

// ------------------------------------------------------------------------------------------
// rendering
// ------------------------------------------------------------------------------------------

/// One `.test` with its expectation, as part of a source file.
#[derive(Clone, Debug)]
struct TestExp {
    /// identifier path of the test ("t", "outer.t", …)
    path: String,
    expect: Expect,
    /// 1-based line of the `.assert` in the file (None: no assertion)
    assert_line: Option<usize>,
    /// length of that line (columns accepted: from the `.assert` keyword to the end of the line)
    assert_line_len: usize,
    expr: String,
    custom_msg: bool,
    /// "verdict:<frame>:<kind>"
    sig_prefix: String,
    desc: Value,
}

impl TestExp {
    fn to_json(&self) -> Value {
        json!({
            "path": self.path, "expect": self.expect.text(), "assert_line": self.assert_line,
            "assert_line_len": self.assert_line_len, "expr": self.expr, "custom_msg": self.custom_msg,
            "sig_prefix": self.sig_prefix, "desc": self.desc,
        })
    }
    fn from_json(v: &Value) -> Option<TestExp> {
        Some(TestExp {
            path: v.get("path")?.as_str()?.to_string(),
            expect: Expect::from_text(v.get("expect")?.as_str()?),
            assert_line: v.get("assert_line").and_then(|l| l.as_u64()).map(|l| l as usize),
            assert_line_len: v.get("assert_line_len").and_then(|l| l.as_u64()).unwrap_or(0) as usize,
            expr: v.get("expr").and_then(|s| s.as_str()).unwrap_or("").to_string(),
            custom_msg: v.get("custom_msg").and_then(|b| b.as_bool()).unwrap_or(false),
            sig_prefix: v.get("sig_prefix").and_then(|s| s.as_str()).unwrap_or("verdict:?:?").to_string(),
            desc: v.get("desc").cloned().unwrap_or(Value::Null),
        })
    }
}

const ASSERT_COL: usize = 5; // 4 spaces of indentation

fn assert_text(expr: &str, custom: bool) -> String {
    if custom {
        format!("    .assert {} \"{}\"", expr, CUSTOM_MSG)
    } else {
        format!("    .assert {}", expr)
    }
}

/// Appends the test to `lines`; returns the 1-based line of the `.assert` (if any).
/// `wrap` = Some(scope name): the test is put into a named scope that defines `.const c = 5`
/// (the file must then define a shadowed file-level `.const c = 7`).
fn render_test(
    lines: &mut Vec<String>,
    p: &Prog,
    assertion: Option<(usize, &str, bool)>,
    name: &str,
    wrap: Option<&str>,
) -> Option<usize> {
    let mut assert_line = None;
    if let Some(w) = wrap {
        lines.push(format!("{}: {{", w));
        lines.push("    .const c = 5".into());
    }
    lines.push(format!(".test \"{}\" {{", name));
    let mut gap_idx = 0;
    let mut test_open = true;
    for it in &p.items {
        match it {
            Item::EndTest => {
                lines.push("}".into());
                test_open = false;
            }
            Item::Op(op) => lines.push(format!("    {}", op.text())),
            Item::Label(l) => lines.push(format!("{}:", l)),
            Item::Gap(_) => {
                if let Some((g, expr, custom)) = assertion {
                    if g == gap_idx {
                        lines.push(assert_text(expr, custom));
                        assert_line = Some(lines.len());
                    }
                }
                gap_idx += 1;
            }
        }
    }
    if test_open {
        lines.push("}".into());
    }
    if wrap.is_some() {
        lines.push("}".into());
    }
    assert_line
}

// ------------------------------------------------------------------------------------------
// observation: in-process and real binary
// ------------------------------------------------------------------------------------------

#[derive(Clone, Debug, PartialEq, Eq)]
enum Verdict {
    Pass,
    Fail,
    /// still running after RUNNER_CAP instructions
    Running,
    /// TestRunner::new / execute_instruction returned an error
    Error(String),
    Panic(String),
    /// (binary) no line for this test in the output
    Missing,
}

#[derive(Clone, Debug)]
struct Observed {
    verdict: Verdict,
    /// "file:line:col: error: message" for a failure
    diag: Option<String>,
}

impl Observed {
    fn text(&self) -> String {
        match (&self.verdict, &self.diag) {
            (Verdict::Pass, _) => "pass".into(),
            (Verdict::Fail, Some(d)) => format!("failed: {}", d),
            (Verdict::Fail, None) => "failed (no diagnostic found)".into(),
            (Verdict::Running, _) => format!("no verdict: still running after {} instructions", RUNNER_CAP),
            (Verdict::Error(e), _) => format!("error: {}", e),
            (Verdict::Panic(e), _) => format!("panic: {}", e),
            (Verdict::Missing, _) => "no line for this test in the output".into(),
        }
    }
}

fn run_inproc(source: &str, path: &str) -> Observed {
    let r = mvlib::panics::guard(|| -> Result<Observed, String> {
        let src = InMemoryParsingSource::new().add("test.asm", source).into();
        let mut runner = TestRunner::new(src, Path::new("test.asm"), &IdentifierPath::from(path))
            .map_err(|e| format!("{}", e))?;
        for _ in 0..RUNNER_CAP {
            match runner.execute_instruction().map_err(|e| format!("{}", e))? {
                ExecuteResult::Running => {}
                ExecuteResult::TestSuccess(_) => {
                    return Ok(Observed { verdict: Verdict::Pass, diag: None });
                }
                ExecuteResult::TestFailed(_, failure) => {
                    return Ok(Observed {
                        verdict: Verdict::Fail,
                        diag: Some(failure.diagnostic.to_string().trim().to_string()),
                    });
                }
            }
        }
        Ok(Observed { verdict: Verdict::Running, diag: None })
    });
    match r {
        Ok(Ok(o)) => o,
        Ok(Err(e)) => Observed { verdict: Verdict::Error(e.trim().to_string()), diag: None },
        Err(p) => Observed { verdict: Verdict::Panic(format!("{} at {}", p.message, p.site)), diag: None },
    }
}

/// "path:line:col: error: message" -> (path, line, col, message)
fn parse_diag(d: &str) -> Option<(String, usize, usize, String)> {
    let first = d.lines().next()?;
    let idx = first.find(": error: ")?;
    let (loc, msg) = first.split_at(idx);
    let msg = &msg[": error: ".len()..];
    let mut parts = loc.rsplitn(3, ':');
    let col: usize = parts.next()?.trim().parse().ok()?;
    let line: usize = parts.next()?.trim().parse().ok()?;
    let file = parts.next()?.to_string();
    Some((file, line, col, msg.to_string()))
}

fn norm(s: &str) -> String {
    s.chars().filter(|c| !c.is_whitespace()).collect::<String>().to_lowercase()
}

/// The oracle comparison. Returns (class, explanation) for a disagreement.
fn judge(t: &TestExp, o: &Observed, file_name: &str) -> Option<(&'static str, String)> {
    match &t.expect {
        Expect::NoVerdict => None,
        Expect::Pass => match &o.verdict {
            Verdict::Pass => None,
            Verdict::Fail => Some(("spurious", format!("expected pass, observed {}", o.text()))),
            _ => Some(("no-verdict", format!("expected pass, observed {}", o.text()))),
        },
        Expect::Fail(visit) => match &o.verdict {
            Verdict::Pass | Verdict::Running => Some((
                "missed",
                format!(
                    "the assertion `{}` is false at its dynamic visit {} (reference interpreter); observed {}",
                    t.expr,
                    visit,
                    o.text()
                ),
            )),
            Verdict::Fail => {
                let d = o.diag.clone().unwrap_or_default();
                let want_line = t.assert_line.unwrap_or(0);
                match parse_diag(&d) {
                    None => Some(("wrong-location", format!("failure without a parsable location: {}", d))),
                    Some((file, line, col, msg)) => {
                        let file_ok = Path::new(&file).file_name().map(|f| f == file_name).unwrap_or(false);
                        if !file_ok || line != want_line || col < ASSERT_COL || col > t.assert_line_len.max(ASSERT_COL) {
                            Some((
                                "wrong-location",
                                format!(
                                    "expected location {}:{}:{}..{}, observed {}",
                                    file_name, want_line, ASSERT_COL, t.assert_line_len, d
                                ),
                            ))
                        } else if t.custom_msg && !msg.contains(CUSTOM_MSG) {
                            Some(("wrong-message", format!("custom message \"{}\" not reported: {}", CUSTOM_MSG, d)))
                        } else if !t.custom_msg && !norm(&msg).contains(&norm(&t.expr)) {
                            Some(("wrong-message", format!("the failing expression `{}` is not reported: {}", t.expr, d)))
                        } else {
                            None
                        }
                    }
                }
            }
            _ => Some(("no-verdict", format!("expected {}, observed {}", t.expect.text(), o.text()))),
        },
    }
}

struct BinOut {
    status: Option<i32>,
    stdout: String,
    stderr: String,
    timed_out: bool,
}

static SCRATCH_SEQ: AtomicU64 = AtomicU64::new(0);

fn scratch_root(ctx: &Ctx) -> PathBuf {
    ctx.verif_root.join(".build").join("scratch").join("c18").join(format!("run-{}", std::process::id()))
}

fn run_bin(ctx: &Ctx, bin: &str, source: &str) -> Result<BinOut, String> {
    run_bin_with_timeout(ctx, bin, source, BIN_TIMEOUT_MS)
}

fn run_bin_with_timeout(ctx: &Ctx, bin: &str, source: &str, timeout_ms: u64) -> Result<BinOut, String> {
    let n = SCRATCH_SEQ.fetch_add(1, Ordering::Relaxed);
    let dir = scratch_root(ctx).join(format!("{}", n));
    std::fs::create_dir_all(&dir).map_err(|e| format!("mkdir {}: {}", dir.display(), e))?;
    std::fs::write(dir.join("main.asm"), source).map_err(|e| e.to_string())?;
    let out_path = dir.join("stdout.txt");
    let err_path = dir.join("stderr.txt");
    let out_f = std::fs::File::create(&out_path).map_err(|e| e.to_string())?;
    let err_f = std::fs::File::create(&err_path).map_err(|e| e.to_string())?;
    let mut child = std::process::Command::new(bin)
        .args(["-e", "Short", "--no-color", "test"])
        .current_dir(&dir)
        .stdin(std::process::Stdio::null())
        .stdout(out_f)
        .stderr(err_f)
        .spawn()
        .map_err(|e| format!("spawn {}: {}", bin, e))?;
    let start = std::time::Instant::now();
    let mut timed_out = false;
    let status = loop {
        match child.try_wait() {
            Ok(Some(st)) => break st.code(),
            Ok(None) => {
                if start.elapsed().as_millis() as u64 > timeout_ms {
                    let _ = child.kill();
                    let _ = child.wait();
                    timed_out = true;
                    break None;
                }
                std::thread::sleep(std::time::Duration::from_millis(if start.elapsed().as_millis() < 50 { 1 } else { 10 }));
            }
            Err(e) => return Err(format!("wait: {}", e)),
        }
    };
    let stdout = std::fs::read_to_string(&out_path).unwrap_or_default();
    let stderr = std::fs::read_to_string(&err_path).unwrap_or_default();
    let _ = std::fs::remove_dir_all(&dir);
    Ok(BinOut { status, stdout, stderr, timed_out })
}

/// Output of `mos test` -> per test name (verdict, diagnostic).
/// The per-test lines (`test 'x' ... ok|failed`, `test: x`) are log output (stderr in the shipped
/// binary; accepted on either stream); the located diagnostics are taken from STDOUT only, and the
/// i-th diagnostic belongs to the i-th `test: <name>` block (both follow the order of failures).
fn parse_bin_output(stdout: &str, stderr: &str) -> HashMap<String, Observed> {
    let mut map: HashMap<String, Observed> = HashMap::new();
    let mut failed_order: Vec<String> = vec![];
    for l in stderr.lines().chain(stdout.lines()) {
        if let Some(rest) = l.strip_prefix("test '") {
            if let Some(q) = rest.find("' ... ") {
                let name = rest[..q].to_string();
                let tail = &rest[q + 6..];
                let verdict = if tail.starts_with("ok") {
                    Verdict::Pass
                } else if tail.starts_with("failed") {
                    Verdict::Fail
                } else {
                    Verdict::Missing
                };
                map.insert(name, Observed { verdict, diag: None });
            }
        } else if let Some(name) = l.strip_prefix("test: ") {
            failed_order.push(name.trim().to_string());
        }
    }
    let diags: Vec<&str> = stdout.lines().filter(|l| parse_diag(l).is_some()).collect();
    for (i, name) in failed_order.iter().enumerate() {
        if let (Some(o), Some(d)) = (map.get_mut(name), diags.get(i)) {
            o.diag = Some(d.trim().to_string());
        }
    }
    map
}

// ------------------------------------------------------------------------------------------
// a file with tests, checked in-process and/or through the binary
// ------------------------------------------------------------------------------------------

#[derive(Clone, Debug)]
struct FileCase {
    source: String,
    tests: Vec<TestExp>,
}

impl FileCase {
    fn case_json(&self, via: &str, focus: Option<&str>) -> Value {
        json!({
            "via": via,
            "focus": focus,
            "source": self.source,
            "tests": self.tests.iter().map(|t| t.to_json()).collect::<Vec<_>>(),
        })
    }
}

fn flat(source: &str) -> String {
    source
        .lines()
        .map(|l| l.trim())
        .filter(|l| !l.is_empty())
        .collect::<Vec<_>>()
        .join(" / ")
}

fn report(ctx: &Ctx, t: &TestExp, class: &str, why: &str, via: &str, case: Value, source: &str) {
    let sig = format!("{}:{}:{}", t.sig_prefix, t.expect.visit_tag(), class);
    let what = format!("[{}] test '{}': {} | expected {} | source: {}", via, t.path, why, t.expect.text(), flat(source));
    ctx.finding(Finding::new(sig, what, case));
}

/// Runs the file through the real binary and judges every test + the exit status.
/// Returns false when the binary could not be run (machinery).
fn check_bin(ctx: &Ctx, bin: &str, fc: &FileCase, local: &mut BTreeMap<String, u64>) -> bool {
    let out = match run_bin(ctx, bin, &fc.source) {
        Ok(o) => o,
        Err(e) => {
            ctx.note(format!("real binary could not be run: {}", e));
            return false;
        }
    };
    *local.entry("bin_processes".into()).or_insert(0) += 1;
    if out.timed_out {
        let t = &fc.tests[0];
        report(
            ctx,
            t,
            "no-verdict",
            &format!("`mos test` did not finish within {} ms", BIN_TIMEOUT_MS),
            "bin",
            fc.case_json("bin", None),
            &fc.source,
        );
        return true;
    }
    let parsed = parse_bin_output(&out.stdout, &out.stderr);
    let mut printed_failed = 0;
    let mut all_agree = true;
    for t in &fc.tests {
        *local.entry("bin_tests".into()).or_insert(0) += 1;
        let o = parsed.get(&t.path).cloned().unwrap_or(Observed { verdict: Verdict::Missing, diag: None });
        if o.verdict == Verdict::Fail {
            printed_failed += 1;
        }
        match &t.expect {
            Expect::Pass => *local.entry("bin_expected_pass".into()).or_insert(0) += 1,
            Expect::Fail(_) => *local.entry("bin_expected_fail".into()).or_insert(0) += 1,
            Expect::NoVerdict => {}
        }
        if let Some((class, why)) = judge(t, &o, "main.asm") {
            all_agree = false;
            let mut case = fc.case_json("bin", Some(&t.path));
            case["observed_stdout"] = json!(out.stdout);
            case["observed_stderr"] = json!(out.stderr);
            case["observed_status"] = json!(out.status);
            report(ctx, t, class, &why, "bin", case, &fc.source);
        }
    }
    // exit status: non-zero iff at least one test failed (as printed; disagreement of a printed
    // verdict with the reference is reported above under its own class)
    let nonzero = out.status.map(|s| s != 0).unwrap_or(true);
    let expected_fail = fc.tests.iter().any(|t| matches!(t.expect, Expect::Fail(_)));
    let inconsistent = nonzero != (printed_failed > 0) || (all_agree && nonzero != expected_fail);
    if out.status.is_none() || inconsistent {
        let t = &fc.tests[0];
        let mut case = fc.case_json("bin", None);
        case["observed_stdout"] = json!(out.stdout);
        case["observed_stderr"] = json!(out.stderr);
        case["observed_status"] = json!(out.status);
        report(
            ctx,
            t,
            "exit-status",
            &format!(
                "exit status {:?} with {} test(s) printed as failed ({} expected to fail)",
                out.status,
                printed_failed,
                fc.tests.iter().filter(|t| matches!(t.expect, Expect::Fail(_))).count()
            ),
            "bin",
            case,
            &fc.source,
        );
    } else {
        *local.entry(if nonzero { "bin_exit_nonzero".to_string() } else { "bin_exit_zero".to_string() }).or_insert(0) += 1;
    }
    true
}

// ------------------------------------------------------------------------------------------
// frame cases
// ------------------------------------------------------------------------------------------

#[derive(Clone, Debug)]
struct FrameCase {
    frame: Frame,
    body: Vec<usize>,
    /// (gap index, kind, visit n the value was taken from, truth at that visit, custom message)
    assertion: Option<(usize, Kind, usize, bool, bool)>,
    pred: Option<Pred>,
    expect: Expect,
    /// a second assertion directly behind the first one, at the same address (fails no earlier than the first)
    second: Option<String>,
}

impl FrameCase {
    fn kind(&self) -> Kind {
        self.assertion.map(|a| a.1).unwrap_or(Kind::None)
    }
    fn desc(&self, p: &Prog) -> Value {
        json!({
            "frame": self.frame.name(),
            "body": self.body.iter().map(|b| ALPHA[*b].text()).collect::<Vec<_>>(),
            "gap": self.assertion.map(|a| p.gaps[a.0].0.clone()),
            "kind": self.kind().name(),
            "value_from_visit": self.assertion.map(|a| a.2),
            "true_at_that_visit": self.assertion.map(|a| a.3),
            "custom_msg": self.assertion.map(|a| a.4),
            "second_assertion": self.second,
        })
    }
    /// Renders the case as one test named `name`, appended to `lines`.
    fn render_into(&self, lines: &mut Vec<String>, p: &Prog, name: &str, wrap_name: &str) -> TestExp {
        // (a subroutine that stands outside the test block is a label of the enclosing scope: in a file that holds
        // several tests each of them needs a scope of its own, or the labels collide)
        let wrap = if self.kind() == Kind::Const || self.frame == Frame::SubOutside { Some(wrap_name) } else { None };
        let expr = self.pred.map(|p| p.expr()).unwrap_or_default();
        let assertion = self.assertion.map(|a| (a.0, expr.as_str(), a.4));
        let assert_line = render_test(lines, p, assertion, name, wrap);
        let assert_line_len = assert_line.map(|l| lines[l - 1].len()).unwrap_or(0);
        if let (Some(l), Some(second)) = (assert_line, &self.second) {
            // (inserted directly behind the first assertion: same gap, same address)
            lines.insert(l, format!("    .assert {} \"second assertion\"", second));
        }
        TestExp {
            path: match wrap {
                Some(w) => format!("{}.{}", w, name),
                None => name.to_string(),
            },
            expect: self.expect.clone(),
            assert_line,
            assert_line_len,
            expr,
            custom_msg: self.assertion.map(|a| a.4).unwrap_or(false),
            sig_prefix: format!("verdict:{}:{}", self.frame.name(), self.kind().name()),
            desc: self.desc(p),
        }
    }
    fn single_file(&self, p: &Prog) -> FileCase {
        let mut lines = vec![];
        if self.kind() == Kind::Const {
            lines.push(".const c = 7".to_string());
        }
        let t = self.render_into(&mut lines, p, "t", "outer");
        FileCase { source: lines.join("\n") + "\n", tests: vec![t] }
    }
}

fn expectation(pred: Pred, visits: &[St], terminated: bool) -> Expect {
    for (i, s) in visits.iter().enumerate() {
        if !pred.holds(s) {
            return Expect::Fail(i + 1);
        }
    }
    if terminated {
        Expect::Pass
    } else {
        Expect::NoVerdict
    }
}

/// All cases of one (frame, body) unit, in a fixed order.
fn unit_cases(frame: Frame, body: &[usize], p: &Prog, r: &RefRun) -> Vec<FrameCase> {
    let mut cases = vec![];
    cases.push(FrameCase {
        frame,
        body: body.to_vec(),
        assertion: None,
        pred: None,
        expect: if r.terminated { Expect::Pass } else { Expect::NoVerdict },
        second: None,
    });
    for g in 0..p.gaps.len() {
        let visits = &r.visits[g];
        if visits.is_empty() {
            continue; // never reached (only behind a non-terminating loop): nothing is encountered
        }
        let mut seen: BTreeSet<String> = BTreeSet::new();
        for kind in KINDS.iter().copied() {
            let ns: &[usize] = if kind.state_dependent() && visits.len() >= 2 { &[1, 2] } else { &[1] };
            for n in ns.iter().copied() {
                for truth in [true, false] {
                    let pred = make_pred(kind, &visits[n - 1], truth);
                    // the same assertion text can arise from visit 1 and visit 2: keep the first
                    if !seen.insert(pred.expr()) {
                        continue;
                    }
                    let expect = expectation(pred, visits, r.terminated);
                    for custom in [false, true] {
                        cases.push(FrameCase {
                            frame,
                            body: body.to_vec(),
                            assertion: Some((g, kind, n, truth, custom)),
                            pred: Some(pred),
                            expect: expect.clone(),
                            second: None,
                        });
                    }
                }
            }
        }
        // two assertions at one address that both hold at the first visit and both fail at the second: the failure
        // that is reported is the first one's
        if visits.len() >= 2 && visits[0].x != visits[1].x {
            let pred = Pred::X(visits[0].x as u32);
            let expect = expectation(pred, visits, r.terminated);
            if expect == Expect::Fail(2) {
                for custom in [false, true] {
                    cases.push(FrameCase {
                        frame,
                        body: body.to_vec(),
                        assertion: Some((g, Kind::X, 1, true, custom)),
                        pred: Some(pred),
                        expect: expect.clone(),
                        second: Some(format!("cpu.x != {}", visits[1].x)),
                    });
                }
            }
        }
    }
    cases
}

fn bodies(k: usize) -> Vec<Vec<usize>> {
    let mut all: Vec<Vec<usize>> = vec![vec![]];
    let mut layer: Vec<Vec<usize>> = vec![vec![]];
    for _ in 0..k {
        let mut next = vec![];
        for b in &layer {
            for i in 0..ALPHA.len() {
                let mut nb = b.clone();
                nb.push(i);
                next.push(nb);
            }
        }
        all.extend(next.iter().cloned());
        layer = next;
    }
    all
}

/// key of a real-binary representative (quick tier): one per frame x kind x truth x visit x verdict
type RepKey = (Frame, Kind, bool, usize, bool);

struct UnitOut {
    reps: BTreeMap<RepKey, (usize, usize, FrameCase)>,
    sampled: Vec<FrameCase>,
    counters: BTreeMap<String, u64>,
    outcomes: BTreeSet<String>,
    machinery: Option<String>,
}

fn run_unit(ctx: &Ctx, unit_idx: usize, frame: Frame, body: &[usize], sample_every: Option<usize>) -> UnitOut {
    let mut out = UnitOut {
        reps: BTreeMap::new(),
        sampled: vec![],
        counters: BTreeMap::new(),
        outcomes: BTreeSet::new(),
        machinery: None,
    };
    let p = layout(build_items(frame, body), BASE);
    let r = reference(&p, St::zeros(), BASE);
    // self-check: what the assertions can observe must not depend on the initial machine state
    let r2 = reference(&p, St::ones(), BASE);
    let same = r.terminated == r2.terminated
        && r.visits.len() == r2.visits.len()
        && r.visits.iter().zip(r2.visits.iter()).all(|(a, b)| {
            a.len() == b.len() && a.iter().zip(b.iter()).all(|(x, y)| x.observable() == y.observable())
        });
    if !same {
        out.machinery = Some(format!(
            "reference run depends on the initial state: frame {} body {:?}",
            frame.name(),
            body
        ));
        return out;
    }
    let mut counters: BTreeMap<String, u64> = BTreeMap::new();
    let mut outcomes: BTreeSet<String> = BTreeSet::new();
    let mut c = |k: &str| *counters.entry(k.to_string()).or_insert(0) += 1;
    c("programs");
    if r.terminated {
        c("programs_reaching_brk");
    } else {
        c("programs_not_reaching_brk_in_budget");
    }
    let cases = unit_cases(frame, body, &p, &r);
    let mut strata: HashMap<(Kind, bool), usize> = HashMap::new();
    for (ci, case) in cases.iter().enumerate() {
        let mut c = |k: &str| *counters.entry(k.to_string()).or_insert(0) += 1;
        if case.expect == Expect::NoVerdict {
            // never fails, never reaches BRK: statement silent; the real runner would not return
            c("cases_without_verdict_not_run");
            continue;
        }
        let fc = case.single_file(&p);
        let t = &fc.tests[0];
        let o = run_inproc(&fc.source, &t.path);
        ctx.eval(|| json!({"source": fc.source, "expected": t.expect.text(), "observed": o.text(), "desc": t.desc}));
        match &o.verdict {
            Verdict::Error(_) | Verdict::Panic(_) => c("inproc_not_assembled_or_crashed"),
            _ => c("inproc_assembled_and_run"),
        }
        match &case.expect {
            Expect::Pass => c("expected_pass"),
            Expect::Fail(1) => c("expected_fail_at_visit_1"),
            Expect::Fail(2) => c("expected_fail_at_visit_2"),
            Expect::Fail(_) => c("expected_fail_at_visit_3plus"),
            Expect::NoVerdict => {}
        }
        if !r.terminated {
            c("expected_fail_in_program_not_reaching_brk");
        }
        if let Some((g, kind, _, _, _)) = case.assertion {
            let visits = &r.visits[g];
            if visits.len() >= 2 {
                c("assertion_visited_more_than_once");
                let pr = case.pred.unwrap();
                match (pr.holds(&visits[0]), pr.holds(&visits[1])) {
                    (true, false) => c("flip_true_then_false"),
                    (false, true) => c("flip_false_then_true"),
                    _ => {}
                }
            }
            // non-trivial: the verdict was produced by the real runner for an assertion that is
            // dynamically encountered (all kept gaps are) and the program assembled
            if matches!(o.verdict, Verdict::Pass | Verdict::Fail | Verdict::Running) {
                ctx.nontrivial(fnv_str(&fc.source));
            }
            let _ = kind;
        }
        outcomes.insert(match (&o.verdict, &o.diag) {
            (Verdict::Fail, Some(d)) => match parse_diag(d) {
                Some((_, _, col, msg)) => format!(
                    "fail:col{}:{}",
                    col,
                    if msg.contains(CUSTOM_MSG) { "custom-message" } else { "default-message" }
                ),
                None => "fail:unparsable".into(),
            },
            (v, _) => format!("{:?}", v).split('(').next().unwrap_or("").to_lowercase(),
        });
        if let Some((class, why)) = judge(t, &o, "test.asm") {
            let mut cj = fc.case_json("inproc", Some(&t.path));
            cj["observed"] = json!(o.text());
            report(ctx, t, class, &why, "inproc", cj, &fc.source);
            c("inproc_disagreements");
        }
        // candidates for the real binary: only programs that reach BRK in the reference (so the
        // process terminates whatever the runner does with the assertion)
        if r.terminated {
            let (kind, n, truth) = case.assertion.map(|a| (a.1, a.2, a.3)).unwrap_or((Kind::None, 1, true));
            let key: RepKey = (frame, kind, truth, n, case.expect == Expect::Pass);
            out.reps.entry(key).or_insert((unit_idx, ci, case.clone()));
            if let Some(every) = sample_every {
                let s = strata.entry((kind, truth)).or_insert(0);
                if (*s + unit_idx) % every == 0 {
                    out.sampled.push(case.clone());
                }
                *s += 1;
            }
        }
    }
    out.counters = counters;
    out.outcomes = outcomes;
    out
}

// ------------------------------------------------------------------------------------------
// bank isolation cases
// ------------------------------------------------------------------------------------------

#[derive(Clone, Copy, Debug, PartialEq, Eq, PartialOrd, Ord)]
enum BankForm {
    OwnEq,
    OwnEqOther,
    Own16,
    Own16Other,
    OwnLabel,
    OwnLabelOther,
    PcTrue,
    PcFalse,
    OtherNe,
    OtherEq,
    /// an address between the bank's two segments holds the bank's fill value
    GapEqFill,
    GapEqZero,
}

const BANK_FORMS: [BankForm; 12] = [
    BankForm::OwnEq,
    BankForm::OwnEqOther,
    BankForm::Own16,
    BankForm::Own16Other,
    BankForm::OwnLabel,
    BankForm::OwnLabelOther,
    BankForm::PcTrue,
    BankForm::PcFalse,
    BankForm::OtherNe,
    BankForm::OtherEq,
    BankForm::GapEqFill,
    BankForm::GapEqZero,
];

impl BankForm {
    fn name(self) -> &'static str {
        match self {
            BankForm::OwnEq => "ram-own==own",
            BankForm::OwnEqOther => "ram-own==other",
            BankForm::Own16 => "ram16-own==own",
            BankForm::Own16Other => "ram16-own==other",
            BankForm::OwnLabel => "ram-label==own",
            BankForm::OwnLabelOther => "ram-label==other",
            BankForm::PcTrue => "pc==here",
            BankForm::PcFalse => "pc==here+1",
            BankForm::OtherNe => "ram-other-addr!=other",
            BankForm::OtherEq => "ram-other-addr==other",
            BankForm::GapEqFill => "ram-gap==fill",
            BankForm::GapEqZero => "ram-gap==0",
        }
    }
    fn passes(self) -> bool {
        matches!(
            self,
            BankForm::OwnEq | BankForm::Own16 | BankForm::OwnLabel | BankForm::PcTrue | BankForm::OtherNe | BankForm::GapEqFill
        )
    }
    fn needs_distinct_addresses(self) -> bool {
        matches!(self, BankForm::OtherNe | BankForm::OtherEq)
    }
}

struct BankSide {
    bank: &'static str,
    segment: &'static str,
    label: &'static str,
    test: &'static str,
    data: [u8; 2],
    start: u16,
    fill: u8,
}

fn bank_sides(same_start: bool) -> [BankSide; 2] {
    [
        BankSide { bank: "a", segment: "sa", label: "da", test: "ta", data: [0x11, 0x47], start: 0x2000, fill: 0xe7 },
        BankSide {
            bank: "b",
            segment: "sb",
            label: "db",
            test: "tb",
            data: [0x22, 0x58],
            start: if same_start { 0x2000 } else { 0x3000 },
            fill: 0xd9,
        },
    ]
}

/// `forms[i]` = assertion of test i (0 = ta, 1 = tb) placed directly before its `brk`.
fn bank_file(same_start: bool, b_first: bool, body: &[usize], forms: [Option<(BankForm, bool)>; 2]) -> FileCase {
    let sides = bank_sides(same_start);
    let order: [usize; 2] = if b_first { [1, 0] } else { [0, 1] };
    let mut lines: Vec<String> = vec![];
    for i in order {
        lines.push(format!(".define bank {{ name = \"{}\" fill = ${:02x} }}", sides[i].bank, sides[i].fill));
    }
    for i in order {
        lines.push(format!(
            ".define segment {{ name = \"{}\" bank = \"{}\" start = ${:04x} }}",
            sides[i].segment, sides[i].bank, sides[i].start
        ));
        // a second segment of the bank, $100 further: what lies between the two is the bank's fill value
        lines.push(format!(
            ".define segment {{ name = \"{}2\" bank = \"{}\" start = ${:04x} }}",
            sides[i].segment, sides[i].bank, sides[i].start + 0x100
        ));
    }
    for i in order {
        lines.push(format!(".segment \"{}2\" {{ .byte $99 }}", sides[i].segment));
    }
    let mut tests: Vec<Option<TestExp>> = vec![None, None];
    for i in order {
        let me = &sides[i];
        let other = &sides[1 - i];
        lines.push(format!(".segment \"{}\" {{", me.segment));
        lines.push(format!("{}: .byte ${:02x}, ${:02x}", me.label, me.data[0], me.data[1]));
        let p = layout(build_items(Frame::Straight, body), me.start + 2);
        let last_gap = p.gaps.len() - 1;
        let w16 = |d: [u8; 2]| d[0] as u32 + 256 * d[1] as u32;
        let expr = forms[i].map(|(f, _)| match f {
            BankForm::OwnEq => format!("ram(${:04x}) == ${:02x}", me.start, me.data[0]),
            BankForm::OwnEqOther => format!("ram(${:04x}) == ${:02x}", me.start, other.data[0]),
            BankForm::Own16 => format!("ram16(${:04x}) == ${:04x}", me.start, w16(me.data)),
            BankForm::Own16Other => format!("ram16(${:04x}) == ${:04x}", me.start, w16(other.data)),
            BankForm::OwnLabel => format!("ram({} + 1) == ${:02x}", me.label, me.data[1]),
            BankForm::OwnLabelOther => format!("ram({} + 1) == ${:02x}", me.label, other.data[1]),
            BankForm::PcTrue => format!("* == ${:04x}", p.gaps[last_gap].1),
            BankForm::PcFalse => format!("* == ${:04x}", p.gaps[last_gap].1 + 1),
            BankForm::OtherNe => format!("ram(${:04x}) != ${:02x}", other.start, other.data[0]),
            BankForm::OtherEq => format!("ram(${:04x}) == ${:02x}", other.start, other.data[0]),
            BankForm::GapEqFill => format!("ram(${:04x}) == ${:02x}", me.start + 0xf0, me.fill),
            BankForm::GapEqZero => format!("ram(${:04x}) == 0", me.start + 0xf0),
        });
        let assertion = match (&expr, forms[i]) {
            (Some(e), Some((_, custom))) => Some((last_gap, e.as_str(), custom)),
            _ => None,
        };
        let assert_line = render_test(&mut lines, &p, assertion, me.test, None);
        lines.push("}".into());
        let expect = match forms[i] {
            None => Expect::Pass,
            Some((f, _)) if f.passes() => Expect::Pass,
            Some(_) => Expect::Fail(1),
        };
        tests[i] = Some(TestExp {
            path: me.test.to_string(),
            expect,
            assert_line,
            assert_line_len: assert_line.map(|l| lines[l - 1].len()).unwrap_or(0),
            expr: expr.clone().unwrap_or_default(),
            custom_msg: forms[i].map(|f| f.1).unwrap_or(false),
            sig_prefix: format!("verdict:bank:{}", forms[i].map(|f| f.0.name()).unwrap_or("none")),
            desc: json!({
                "group": "bank", "same_start": same_start, "b_first": b_first, "test": me.test,
                "form": forms[i].map(|f| f.0.name()),
                "body": body.iter().map(|b| ALPHA[*b].text()).collect::<Vec<_>>(),
            }),
        });
    }
    FileCase {
        source: lines.join("\n") + "\n",
        tests: tests.into_iter().map(|t| t.unwrap()).collect(),
    }
}

fn run_bank_inproc(ctx: &Ctx, k: usize) -> BTreeMap<String, u64> {
    let mut units = vec![];
    for same_start in [true, false] {
        for b_first in [false, true] {
            for body in bodies(k) {
                units.push((same_start, b_first, body));
            }
        }
    }
    let locals: Vec<BTreeMap<String, u64>> = units
        .par_iter()
        .map(|(same_start, b_first, body)| {
            let mut local: BTreeMap<String, u64> = BTreeMap::new();
            for test in 0..2usize {
                for form in BANK_FORMS.iter().copied() {
                    if form.needs_distinct_addresses() && *same_start {
                        continue;
                    }
                    for custom in [false, true] {
                        let mut forms = [None, None];
                        forms[test] = Some((form, custom));
                        let fc = bank_file(*same_start, *b_first, body, forms);
                        let t = &fc.tests[test];
                        let o = run_inproc(&fc.source, &t.path);
                        ctx.eval(|| json!({"source": fc.source, "test": t.path, "expected": t.expect.text(), "observed": o.text()}));
                        *local.entry("bank_cases".into()).or_insert(0) += 1;
                        if form.passes() {
                            *local.entry("bank_expected_pass".into()).or_insert(0) += 1;
                        } else {
                            *local.entry("bank_expected_fail".into()).or_insert(0) += 1;
                        }
                        if matches!(o.verdict, Verdict::Pass | Verdict::Fail) {
                            ctx.nontrivial(fnv_str(&format!("{}#{}", fc.source, t.path)));
                            *local.entry("bank_assembled_and_run".into()).or_insert(0) += 1;
                        }
                        if let Some((class, why)) = judge(t, &o, "test.asm") {
                            let mut cj = fc.case_json("inproc", Some(&t.path));
                            cj["observed"] = json!(o.text());
                            report(ctx, t, class, &why, "inproc", cj, &fc.source);
                        }
                    }
                }
            }
            local
        })
        .collect();
    let mut merged = BTreeMap::new();
    for l in locals {
        for (k, v) in l {
            *merged.entry(k).or_insert(0) += v;
        }
    }
    merged
}

/// Both tests carry an assertion: all four verdict combinations, for the exit-status clause.
fn bank_bin_files(k: usize) -> Vec<FileCase> {
    let mut files = vec![];
    for same_start in [true, false] {
        for b_first in [false, true] {
            for body in bodies(k) {
                let mut pairs: Vec<(BankForm, BankForm)> = vec![];
                for fa in [BankForm::OwnEq, BankForm::OwnEqOther] {
                    for fb in [BankForm::Own16, BankForm::Own16Other] {
                        pairs.push((fa, fb));
                    }
                }
                if !same_start {
                    for fa in [BankForm::OtherNe, BankForm::OtherEq] {
                        for fb in [BankForm::OtherNe, BankForm::OtherEq] {
                            pairs.push((fa, fb));
                        }
                    }
                }
                for (i, (fa, fb)) in pairs.into_iter().enumerate() {
                    let custom = i % 2 == 1;
                    files.push(bank_file(same_start, b_first, &body, [Some((fa, custom)), Some((fb, !custom))]));
                }
            }
        }
    }
    files
}

// ------------------------------------------------------------------------------------------
// replay
// ------------------------------------------------------------------------------------------

fn replay_case(ctx: &Ctx, case: &Value) -> i32 {
    let source = match case.get("source").and_then(|s| s.as_str()) {
        Some(s) => s.to_string(),
        None => {
            eprintln!("C18 replay: case has no `source`");
            return 2;
        }
    };
    let tests: Vec<TestExp> = case
        .get("tests")
        .and_then(|t| t.as_array())
        .map(|a| a.iter().filter_map(TestExp::from_json).collect())
        .unwrap_or_default();
    let focus = case.get("focus").and_then(|f| f.as_str()).map(|s| s.to_string());
    println!("C18 replay (via = {})", case.get("via").and_then(|v| v.as_str()).unwrap_or("?"));
    println!("---- main.asm ----");
    for (i, l) in source.lines().enumerate() {
        println!("{:3}  {}", i + 1, l);
    }
    println!("------------------");
    let mut disagreements = 0;
    for t in &tests {
        let mark = if focus.as_deref() == Some(&t.path) { " <== case" } else { "" };
        println!("test '{}'{}", t.path, mark);
        println!(
            "  reference : {}{}",
            t.expect.text(),
            match t.assert_line {
                Some(l) => format!(" (`.assert {}` on line {})", t.expr, l),
                None => String::new(),
            }
        );
        let o = run_inproc(&source, &t.path);
        println!("  TestRunner: {}", o.text());
        if let Some((class, why)) = judge(t, &o, "test.asm") {
            println!("  => {}: {}", class, why);
            disagreements += 1;
        }
    }
    let bin = std::env::var("MOS_BIN").unwrap_or_else(|_| "/verif/.build/bin/release/mos".into());
    if Path::new(&bin).exists() {
        match run_bin(ctx, &bin, &source) {
            Ok(out) => {
                println!("---- `mos -e Short --no-color test` (exit status {:?}{}) ----", out.status, if out.timed_out { ", TIMED OUT" } else { "" });
                print!("{}", out.stdout);
                if !out.stderr.trim().is_empty() {
                    println!("---- stderr ----");
                    print!("{}", out.stderr);
                }
                println!("------------------");
                let parsed = parse_bin_output(&out.stdout, &out.stderr);
                for t in &tests {
                    let o = parsed.get(&t.path).cloned().unwrap_or(Observed { verdict: Verdict::Missing, diag: None });
                    if let Some((class, why)) = judge(t, &o, "main.asm") {
                        println!("  binary, test '{}' => {}: {}", t.path, class, why);
                        disagreements += 1;
                    }
                }
                let expected_fail = tests.iter().any(|t| matches!(t.expect, Expect::Fail(_)));
                println!(
                    "  exit status {:?}; reference expects {}",
                    out.status,
                    if expected_fail { "non-zero (a test fails)" } else { "0 (all tests pass)" }
                );
                if out.status.map(|s| s != 0).unwrap_or(true) != expected_fail {
                    disagreements += 1;
                }
            }
            Err(e) => println!("real binary not run: {}", e),
        }
        let _ = std::fs::remove_dir_all(scratch_root(ctx));
    } else {
        println!("real binary {} not found; in-process result only", bin);
    }
    if disagreements > 0 {
        println!("REPRODUCED: {} disagreement(s) with the reference", disagreements);
        1
    } else {
        println!("not reproduced: the real code agrees with the reference on this case");
        0
    }
}

// ------------------------------------------------------------------------------------------
// entry
// ------------------------------------------------------------------------------------------

fn batch_files(cases: &[FrameCase]) -> Vec<FileCase> {
    // An assertion about the program counter was derived for a test that starts at BASE. Code outside the test blocks
    // (the subroutines of the `sub-outside-test` frame) is assembled in front of every later test of the same file, so
    // such a case gets a file of its own.
    let (solo, shared): (Vec<FrameCase>, Vec<FrameCase>) = cases.iter().cloned().partition(|c| c.frame == Frame::SubOutside && c.kind() == Kind::Pc);
    // (and no test stands behind a `sub-outside-test` case of another kind in a file with program counter assertions)
    let (pc_cases, other): (Vec<FrameCase>, Vec<FrameCase>) = shared.into_iter().partition(|c| c.kind() == Kind::Pc);
    let mut chunks: Vec<Vec<FrameCase>> = solo.into_iter().map(|c| vec![c]).collect();
    chunks.extend(pc_cases.chunks(BATCH).map(|c| c.to_vec()));
    chunks.extend(other.chunks(BATCH).map(|c| c.to_vec()));
    chunks
        .iter()
        .map(|chunk| {
            let mut lines: Vec<String> = vec![];
            if chunk.iter().any(|c| c.kind() == Kind::Const) {
                lines.push(".const c = 7".into());
            }
            let mut tests = vec![];
            for (i, case) in chunk.iter().enumerate() {
                let p = layout(build_items(case.frame, &case.body), BASE);
                tests.push(case.render_into(&mut lines, &p, &format!("t{}", i), &format!("outer{}", i)));
            }
            FileCase { source: lines.join("\n") + "\n", tests }
        })
        .collect()
}

pub fn run(ctx: &Ctx, replay: Option<&Value>) -> i32 {
    if let Some(case) = replay {
        return replay_case(ctx, case);
    }
    let thorough = ctx.tier.is_thorough();
    let k = if thorough { 3 } else { 2 };
    let bank_k = if thorough { 2 } else { 1 };
    let bank_bin_k = if thorough { 1 } else { 0 };

    // ---- frames, in-process ---------------------------------------------------------------
    let mut units: Vec<(Frame, Vec<usize>)> = vec![];
    for frame in [Frame::Straight, Frame::Loop, Frame::Sub, Frame::SubOutside] {
        for b in bodies(k) {
            units.push((frame, b));
        }
    }
    let sample_every = if thorough { Some(10) } else { None };
    let outs: Vec<UnitOut> = units
        .par_iter()
        .enumerate()
        .map(|(i, (frame, body))| run_unit(ctx, i, *frame, body, sample_every))
        .collect();
    let mut reps: BTreeMap<RepKey, (usize, usize, FrameCase)> = BTreeMap::new();
    let mut sampled: Vec<FrameCase> = vec![];
    let mut outcomes: BTreeSet<String> = BTreeSet::new();
    for o in outs {
        if let Some(m) = o.machinery {
            eprintln!("C18 machinery error: {}", m);
            return 2;
        }
        ctx.merge_counters(&o.counters);
        outcomes.extend(o.outcomes);
        sampled.extend(o.sampled);
        for (key, v) in o.reps {
            match reps.get(&key) {
                Some(old) if (old.0, old.1) <= (v.0, v.1) => {}
                _ => {
                    reps.insert(key, v);
                }
            }
        }
    }
    ctx.set("seconds_after_frames_inproc", json!(ctx.wall()));
    ctx.set("bound_body_length", json!(k));
    ctx.set("frame_units", json!(units.len()));
    ctx.set("distinct_inproc_outcomes", json!(outcomes.iter().cloned().collect::<Vec<_>>()));

    // ---- banks, in-process ----------------------------------------------------------------
    let bank_counters = run_bank_inproc(ctx, bank_k);
    ctx.merge_counters(&bank_counters);
    ctx.set("seconds_after_banks_inproc", json!(ctx.wall()));
    ctx.set("bound_bank_body_length", json!(bank_k));

    // ---- real binary ----------------------------------------------------------------------
    let bin = std::env::var("MOS_BIN").unwrap_or_else(|_| "/verif/.build/bin/release/mos".into());
    if !Path::new(&bin).exists() {
        ctx.cap(format!("real binary {} not found: `mos test` conformance part not run", bin));
    } else {
        let mut files: Vec<FileCase> = vec![];
        // representatives: one test per file, so the exit status is that of the single case
        for (_, (_, _, case)) in reps.iter() {
            let p = layout(build_items(case.frame, &case.body), BASE);
            files.push(case.single_file(&p));
        }
        ctx.set("bin_representatives", json!(reps.len()));
        // stratified 10 % (thorough): batched, several tests per file (mixed verdicts per file)
        let batches = batch_files(&sampled);
        ctx.set("bin_sampled_cases", json!(sampled.len()));
        ctx.set("bin_sample_batches", json!(batches.len()));
        files.extend(batches);
        let bank_files = bank_bin_files(bank_bin_k);
        ctx.set("bin_bank_files", json!(bank_files.len()));
        files.extend(bank_files);
        let ok = Mutex::new(true);
        let locals: Vec<BTreeMap<String, u64>> = files
            .par_iter()
            .map(|fc| {
                let mut local = BTreeMap::new();
                if !check_bin(ctx, &bin, fc, &mut local) {
                    *ok.lock().unwrap() = false;
                }
                ctx.add_evals(fc.tests.len() as u64);
                local
            })
            .collect();
        for l in locals {
            ctx.merge_counters(&l);
        }
        let _ = std::fs::remove_dir_all(scratch_root(ctx));
        if !*ok.lock().unwrap() {
            eprintln!("C18 machinery error: the real binary could not be run");
            return 2;
        }
    }

    // exit status with many failing tests: "non-zero iff at least one test failed", however many
    if Path::new(&bin).exists() {
        let counts: Vec<usize> = if thorough { vec![1, 2, 255, 256, 257, 512] } else { vec![1, 256] };
        let outcomes: Vec<(usize, String, Result<BinOut, String>)> = counts
            .par_iter()
            .map(|n| {
                let mut src = String::new();
                for i in 0..*n {
                    src.push_str(&format!(".test \"t{}\" {{\n    .assert 1 == 2\n    brk\n}}\n", i));
                }
                let r = run_bin_with_timeout(ctx, &bin, &src, 300_000);
                (*n, src, r)
            })
            .collect();
        for (n, src, r) in outcomes {
            ctx.eval(|| json!({"failing_tests": n}));
            match r {
                Ok(out) => {
                    if out.timed_out {
                        ctx.cap(format!("`mos test` with {} failing tests did not finish within 300 s (no verdict)", n));
                    } else if out.status == Some(0) || out.status.is_none() {
                        ctx.finding(Finding::new(
                            "verdict:many-tests:exit-status".to_string(),
                            format!("`mos test` on a file with {} failing tests exits with status {:?}", n, out.status),
                            json!({"kind": "bin", "failing_tests": n, "files": {"main.asm": src}}),
                        ));
                    } else {
                        ctx.count("many_failing_tests_exit_nonzero");
                    }
                }
                Err(e) => {
                    eprintln!("C18 machinery error: {}", e);
                    return 2;
                }
            }
        }
        let _ = std::fs::remove_dir_all(scratch_root(ctx));
    }
    ctx.set("seconds_after_real_binary", json!(ctx.wall()));
    ctx.finish(
        "exploration",
        "non-trivial = the program assembled, the real TestRunner was driven on it, and it contains an `.assert` that the reference interpreter reaches at least once (so the verdict depends on emulated machine state); distinct by source text",
        true,
        &[
            "the reference interpreter models exactly the enumerated subset (lda/ldx #, inx, dex, tax, sta/inc zp, adc/sbc/cmp/and #, clc, sec, cld, bne, jsr, rts, brk) in binary mode",
            "every test starts with `lda #0 / tax / sta $10 / clc / cld`, so no asserted quantity depends on the emulator's initial registers, flags or RAM; V and N are never asserted",
            "the default segment starts at $c000 as implemented (only `* == here` depends on it; the guide says $2000)",
            "one `.assert` per test; gaps directly before a jump-target label are excluded (by PC they coincide with the gap after the label; the statement is silent on which of the two readings applies)",
            "a reported column anywhere between the `.assert` keyword and the end of its line counts as the assertion's location; without a custom message the reported text must contain the asserted expression (modulo whitespace/case)",
            "programs that do not reach BRK within 6000 reference steps and whose assertion never fails get no verdict and are not run; the real runner is stepped with a cap of 8000 instructions",
            "an address outside the own bank must merely not show the other bank's byte (its content is otherwise unspecified)",
            "real-binary part: only programs whose reference run reaches BRK; quick = one representative per frame x kind x truth x visit x verdict in its own directory, thorough additionally every 10th case of each (unit, kind, truth) stratum, 6 tests per file",
        ],
    )
}
