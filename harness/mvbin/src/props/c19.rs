//! C19 – the debugger reports where the machine really is.
//!
//! Stateless, preemption-bounded exploration of the *real* threads of the emulated-machine debug
//! adapter (machine thread + poller thread are the repository's own `thread::spawn`s; the harness
//! plays the debug session and calls the same adapter methods the DAP request handlers call).
//! Scheduling points = hook H3; executed-PC tap and state accessors = H4.

use crate::debugger::adapters::test_runner::TestRunnerAdapter;
use crate::debugger::adapters::{Machine, MachineAdapter, MachineBreakpoint, MachineRunningState};
use crate::sched::{Sched, Trace};
use mos_core::codegen::ProgramCounter;
use mos_core::parser::source::InMemoryParsingSource;
use mos_core::parser::IdentifierPath;
use mvlib::{fnv_str, Ctx, Finding};
use serde_json::{json, Value};
use std::sync::atomic::{AtomicBool, AtomicUsize, Ordering};
use std::sync::{Arc, RwLock};

#[derive(Clone, Debug, PartialEq, Eq, Hash)]
pub enum Op {
    /// breakpoint on the n-th distinct instruction address of the reference run
    SetBp(usize),
    Start,
    /// let the machine run until it executed k more instructions (or idles / ends)
    Wait(usize),
    Pause,
    Continue,
    Next,
    StepIn,
    StepOut,
}

impl Op {
    fn name(&self) -> String {
        match self {
            Op::SetBp(i) => format!("setBreakpoints({})", i),
            Op::Start => "configurationDone".into(),
            Op::Wait(k) => format!("wait({})", k),
            Op::Pause => "pause".into(),
            Op::Continue => "continue".into(),
            Op::Next => "next".into(),
            Op::StepIn => "stepIn".into(),
            Op::StepOut => "stepOut".into(),
        }
    }
    fn kind(&self) -> &'static str {
        match self {
            Op::SetBp(_) => "setBreakpoints",
            Op::Start => "configurationDone",
            Op::Wait(_) => "wait",
            Op::Pause => "pause",
            Op::Continue => "continue",
            Op::Next => "next",
            Op::StepIn => "stepIn",
            Op::StepOut => "stepOut",
        }
    }
}

pub const PROGRAMS: [(&str, &str); 4] = [
    ("straight", ".test \"t\" {\ninx\ninx\ninx\ninx\ninx\ninx\nbrk\n}"),
    ("loop", ".test \"t\" {\nldx #3\nl:\ndex\nbne l\nbrk\n}"),
    ("subroutine", ".test \"t\" {\njsr s\ninx\nbrk\ns:\niny\nrts\n}"),
    // (thorough tier only) a subroutine that calls another one
    ("nested-subroutines", ".test \"t\" {\njsr a\nbrk\na:\njsr b\ninx\nrts\nb:\niny\nrts\n}"),
];

#[derive(Clone, Debug, PartialEq)]
struct Truth {
    state: MachineRunningState,
    pc: u16,
    x: u8,
    y: u8,
    executed: usize,
}

#[derive(Clone, Debug, Default)]
pub struct Outcome {
    /// (signature, description)
    pub violations: Vec<(String, String)>,
    pub trace: Trace,
    pub observations: Vec<String>,
    pub ill_formed: bool,
    pub preemptions: usize,
}

struct Shared {
    sched: Arc<Sched>,
    machine_idle: Arc<AtomicBool>,
}

static INSTALL: std::sync::Once = std::sync::Once::new();

fn global_sched() -> Arc<Sched> {
    static S: once_cell::sync::OnceCell<Arc<Sched>> = once_cell::sync::OnceCell::new();
    let s = S.get_or_init(Sched::new).clone();
    INSTALL.call_once(|| crate::verif_hooks::install(s.clone()));
    s
}

/// Runs one script under one schedule on fresh real threads.
pub fn run_script(prog: &str, reference: &[u16], script: &[Op], schedule: &[usize]) -> Outcome {
    let sched = global_sched();
    let mut out = Outcome::default();
    sched.begin(schedule, 4000);
    let src: Arc<std::sync::Mutex<dyn mos_core::parser::source::ParsingSource>> =
        InMemoryParsingSource::new().add("main.asm", prog).into();
    let adapter = match TestRunnerAdapter::new(false, src, "main.asm", &IdentifierPath::from("t")) {
        Ok(a) => a,
        Err(e) => {
            out.violations.push(("machinery:adapter".into(), format!("cannot create adapter: {}", e)));
            out.trace = sched.finish();
            return out;
        }
    };
    let runner = adapter.verif_runner();
    let state = adapter.verif_state();
    sched.watch_state(state.clone());
    let boxed: Box<dyn MachineAdapter + Send + Sync> = Box::new(adapter);
    let machine = Machine::new(Arc::new(RwLock::new(boxed)));

    let truth = |sched: &Sched| -> Truth {
        // (the machine thread may be parked inside its critical section: then the harness waits, as a scheduled
        // thread, until the machine is readable again)
        let r = match runner.try_read() {
            Ok(r) => r,
            Err(_) => {
                crate::verif_hooks::point_read("h:truth", &runner);
                runner.read().unwrap()
            }
        };
        Truth {
            // the machine thread keeps the state locked while it works on an instruction: then it is Running
            state: state.try_lock().map(|g| *g).unwrap_or(MachineRunningState::Running),
            pc: r.cpu().get_program_counter(),
            x: r.cpu().get_x_register(),
            y: r.cpu().get_y_register(),
            executed: sched.executed_count(),
        }
    };
    // distinct addresses of the reference run, in order of first execution
    let mut addrs: Vec<u16> = vec![];
    for pc in reference {
        if !addrs.contains(pc) {
            addrs.push(*pc);
        }
    }
    let mut bps: Vec<(u64, Vec<u16>)> = vec![]; // (step at which the set completed, addresses)
    let mut pos: usize = 0; // index into the reference sequence of the current instruction
    let mut last_stop: Option<Truth> = None;
    let mut stepped_by_session = 0usize;
    let is_connected = |m: &Machine| -> bool { m.adapter().is_connected().unwrap_or(false) };

    // position of pc in the reference at or after `from`
    let find_pos = |from: usize, pc: u16| -> Option<usize> { (from..reference.len()).find(|i| reference[*i] == pc) };

    let mut viol = |out: &mut Outcome, op: &Op, inv: &str, what: String| {
        out.violations.push((format!("dap:{}:{}", op.kind(), inv), what));
    };

    #[allow(unused_assignments)]
    let mut stepped_while_running = false;
    'script: for op in script {
        stepped_while_running = false;
        if std::env::var("C19_DEBUG").is_ok() {
            eprintln!("[c19] op {:?} step {}", op, sched.step());
        }
        if sched.deadlocked() {
            break;
        }
        let before = truth(&sched);
        let stopped_now = matches!(before.state, MachineRunningState::Stopped(_));
        match op {
            Op::Continue | Op::Next | Op::StepIn | Op::StepOut => {
                // a step request may also arrive while the machine runs freely ("any timing of client requests"):
                // it then has to produce a consistent stop like a pause; `continue` needs a stopped machine
                // (`continue` may arrive while the machine runs as well: it has nothing to do then)
                let running_now = before.state == MachineRunningState::Running;
                let step = *op != Op::Continue;
                if !(stopped_now || running_now) || !is_connected(&machine) {
                    out.ill_formed = true;
                    break 'script;
                }
                stepped_while_running = step && running_now;
                // the machine may have stopped (breakpoint) without any request observing it: a step starts from
                // where the machine is
                if stopped_now {
                    if let Some(p) = find_pos(pos, before.pc) {
                        pos = p;
                    }
                }
                if std::env::var("C19_DEBUG").is_ok() {
                    eprintln!("[c19] before {:?}: state {:?} pc ${:04x} -> stepped_while_running {}", op, before.state, before.pc, stepped_while_running);
                }
                // stepping past the final BRK ends the test inside the session thread: not a session a client has
                if before.pc == *reference.last().unwrap() {
                    out.ill_formed = true;
                    break 'script;
                }
                // stepOut outside a subroutine: the statement does not say what it does
                // (from a running machine the position is not known: stepIn and next only)
                if *op == Op::StepOut && running_now {
                    out.ill_formed = true;
                    break 'script;
                }
                if *op == Op::StepOut {
                    if let Some(p) = find_pos(pos, before.pc) {
                        if step_out_index(reference, p) == p {
                            out.ill_formed = true;
                            break 'script;
                        }
                    }
                }
            }
            Op::Pause => {
                if before.state != MachineRunningState::Running || !is_connected(&machine) {
                    out.ill_formed = true;
                    break 'script;
                }
            }
            Op::Start => {
                if before.state != MachineRunningState::Launching {
                    out.ill_formed = true;
                    break 'script;
                }
            }
            Op::Wait(_) => {
                if before.state != MachineRunningState::Running {
                    out.ill_formed = true;
                    break 'script;
                }
            }
            Op::SetBp(i) => {
                if *i >= addrs.len() {
                    out.ill_formed = true;
                    break 'script;
                }
            }
        }
        match op {
            Op::SetBp(i) => {
                let a = addrs[*i];
                let bp = MachineBreakpoint {
                    line: *i,
                    column: None,
                    range: ProgramCounter::new(a as usize)..ProgramCounter::new(a as usize + 1),
                };
                let _ = machine.adapter_mut().set_breakpoints("main.asm", vec![bp]);
                bps.push((sched.step(), vec![a]));
            }
            Op::Start => {
                let _ = machine.adapter_mut().start();
                sched.clear_idle();
            }
            Op::Wait(k) => {
                let target = sched.executed_count() + k;
                let s2 = sched.clone();
                sched.wait_until(
                    "h:wait",
                    Box::new(move || s2.exec_count_atomic() >= target || s2.machine_quiet()),
                );
            }
            Op::Pause => {
                let _ = machine.adapter_mut().pause();
            }
            Op::Continue => {
                last_stop = None;
                let _ = machine.adapter_mut().resume();
                sched.clear_idle();
            }
            Op::Next => {
                last_stop = None;
                let _ = machine.adapter_mut().next();
                stepped_by_session += 1;
            }
            Op::StepIn => {
                last_stop = None;
                let _ = machine.adapter_mut().step_in();
                stepped_by_session += 1;
            }
            Op::StepOut => {
                last_stop = None;
                let _ = machine.adapter_mut().step_out();
                stepped_by_session += 1;
            }
        }
        if sched.deadlocked() {
            break;
        }
        // ---- observation through the API, bracketed by the truth
        let t0 = truth(&sched);
        let api_state = machine.adapter().running_state().unwrap_or(MachineRunningState::Launching);
        let api_regs = machine.adapter().registers().unwrap_or_default();
        let t1 = truth(&sched);
        out.observations.push(format!(
            "{}: api {:?} X={:?} | cpu pc=${:04x} x={} y={} executed={}",
            op.name(), api_state, api_regs.get("X"), t1.pc, t1.x, t1.y, t1.executed
        ));
        let must_be_stopped = matches!(op, Op::Pause | Op::Next | Op::StepIn | Op::StepOut);
        if must_be_stopped && is_connected(&machine) && !matches!(api_state, MachineRunningState::Stopped(_)) {
            viol(&mut out, op, "not-stopped", format!("after {} the adapter reports {:?}", op.name(), api_state));
        }
        if let MachineRunningState::Stopped(p) = api_state {
            let p = p.as_usize() as u16;
            // (t0 was taken before the adapter was asked: the machine may still have been running then)
            let _ = &t0;
            if t1.pc != p {
                viol(&mut out, op, "reported-pc-differs-from-cpu",
                    format!("after {} the adapter reports Stopped(${:04x}) but the CPU is at ${:04x} (X={}, {} instructions executed)", op.name(), p, t1.pc, t1.x, t1.executed));
            } else if api_regs.get("X").map(|x| *x as u8) != Some(t1.x) {
                viol(&mut out, op, "registers-differ-from-cpu", format!("registers() X={:?} but cpu X={}", api_regs.get("X"), t1.x));
            }
            // let everybody else run until the machine is quiet, then look again: nothing may have moved
            let s2 = sched.clone();
            sched.wait_until("h:settle", Box::new(move || s2.machine_quiet()));
            if sched.deadlocked() {
                break;
            }
            let t2 = truth(&sched);
            if is_connected(&machine) || t2.executed == t1.executed {
                if (t2.pc, t2.x, t2.y, t2.executed) != (t1.pc, t1.x, t1.y, t1.executed) || t2.state != api_state {
                    viol(&mut out, op, "not-halted-after-stop",
                        format!("the adapter reported {:?}; after letting the other threads run the CPU is at ${:04x} (was ${:04x}), {} instructions executed (was {}), state {:?}",
                            api_state, t2.pc, t1.pc, t2.executed, t1.executed, t2.state));
                }
            }
            if let Some(ls) = &last_stop {
                if (ls.pc, ls.x, ls.y) != (t2.pc, t2.x, t2.y) && !matches!(op, Op::Pause | Op::Wait(_)) {
                    // covered by the checks above
                }
            }
            last_stop = Some(t2.clone());
            // stepping order
            match find_pos(pos, t2.pc) {
                Some(np) => {
                    let expected = match op {
                        // (a step that was requested while the machine ran starts from wherever it was)
                        _ if stepped_while_running => None,
                        Op::StepIn => Some(pos + 1),
                        Op::Next => Some(next_index(reference, pos)),
                        Op::StepOut => Some(step_out_index(reference, pos)),
                        _ => None,
                    };
                    if let Some(e) = expected {
                        if np != e {
                            viol(&mut out, op, "wrong-step-target",
                                format!("{} from instruction #{} (${:04x}) must stop at #{} (${:04x}) but stopped at #{} (${:04x})",
                                    op.name(), pos, reference[pos], e, reference.get(e).copied().unwrap_or(0), np, t2.pc));
                        }
                    }
                    pos = np;
                }
                None => viol(&mut out, op, "off-sequence",
                    format!("stopped at ${:04x}, which does not follow instruction #{} of the uninterrupted run {:04x?}", t2.pc, pos, reference)),
            }
        }
    }
    // disconnect
    if std::env::var("C19_DEBUG").is_ok() {
        eprintln!("[c19] disconnect, step {}", sched.step());
    }
    let _ = machine.adapter_mut().stop();
    let trace = sched.finish();
    if std::env::var("C19_DEBUG").is_ok() {
        eprintln!("[c19] finished: {} decisions, {} taps, deadlock {:?}", trace.decisions.len(), trace.taps.len(), trace.deadlock);
    }
    machine.join();

    // ---- post-hoc: executed instructions follow the reference, breakpoints are honoured
    if trace.deadlock.is_none() {
        // (a) machine-thread executions are a subsequence of the reference in order
        let mut idx = 0usize;
        for t in &trace.taps {
            match (idx..reference.len()).find(|i| reference[*i] == t.pc) {
                Some(i) => idx = i + 1,
                None => {
                    out.violations.push(("dap:run:off-sequence".into(),
                        format!("the machine executed ${:04x} which does not continue the uninterrupted sequence {:04x?}", t.pc, reference)));
                    break;
                }
            }
            // (no state = the machine thread itself holds the state lock, i.e. it is Running)
            if t.state != Some(MachineRunningState::Running) && t.state.is_some() {
                out.violations.push(("dap:run:executed-while-not-running".into(),
                    format!("the machine thread executed the instruction at ${:04x} while the adapter state was {:?}", t.pc, t.state)));
            }
        }
        // (b) breakpoints: an instruction at a breakpoint address is only executed by the free-running machine
        // right after a stop at that address
        for (k, t) in trace.taps.iter().enumerate() {
            let prev_step = if k > 0 { trace.taps[k - 1].step } else { 0 };
            // breakpoints that were in place before the previous instruction executed
            let active: Vec<u16> = bps
                .iter()
                .rev()
                .find(|(s, _)| *s <= prev_step)
                .map(|(_, a)| a.clone())
                .unwrap_or_default();
            // a later set replaces earlier ones; if the set changed after prev_step take no verdict for this instruction
            let changed_since = bps.iter().any(|(s, _)| *s > prev_step && *s <= t.step);
            if changed_since || !active.contains(&t.pc) {
                continue;
            }
            let stopped_here = trace
                .state_log
                .iter()
                .any(|(s, st)| *s > prev_step && *s <= t.step && *st == MachineRunningState::Stopped(ProgramCounter::new(t.pc as usize)));
            if !stopped_here {
                out.violations.push(("dap:run:breakpoint-skipped".into(),
                    format!("the free-running machine executed the instruction at ${:04x}, which has a breakpoint, without stopping there first", t.pc)));
            }
        }
    } else {
        out.violations.push(("dap:deadlock".into(), trace.deadlock.clone().unwrap()));
    }
    let _ = stepped_by_session;
    out.preemptions = trace.decisions.iter().map(|d| d.cost(d.chosen)).sum();
    out.trace = trace;
    out
}

/// index in the reference after `next` from `pos` (a jsr runs until the instruction after it)
fn next_index(reference: &[u16], pos: usize) -> usize {
    // a jsr is recognised in the reference by a jump that later returns to pc+3
    let pc = reference[pos];
    if pos + 1 < reference.len() && reference[pos + 1] != pc.wrapping_add(1) && reference[pos + 1] != pc.wrapping_add(2) && reference[pos + 1] != pc.wrapping_add(3) {
        if let Some(i) = (pos + 1..reference.len()).find(|i| reference[*i] == pc.wrapping_add(3)) {
            return i;
        }
    }
    pos + 1
}

/// index in the reference after `stepOut` from `pos`
fn step_out_index(reference: &[u16], pos: usize) -> usize {
    // inside a subroutine = between a jsr (non-sequential forward jump) and the return to jsr+3
    for j in (0..pos).rev() {
        let pc = reference[j];
        let seq = [pc.wrapping_add(1), pc.wrapping_add(2), pc.wrapping_add(3)];
        if !seq.contains(&reference[j + 1]) {
            // a jump at j: is it a call that returns to pc+3 after pos?
            if let Some(i) = (pos..reference.len()).find(|i| reference[*i] == pc.wrapping_add(3)) {
                if !(j + 1..pos + 1).any(|m| reference[m] == pc.wrapping_add(3)) {
                    return i;
                }
            }
        }
    }
    pos
}

/// All scripts: optional breakpoint, start, then up to n operations.
pub fn scripts(n: usize, n_addrs: usize) -> Vec<Vec<Op>> {
    let mut out = vec![];
    let tail_ops = |with_bp: bool| -> Vec<Op> {
        let mut v = vec![Op::Wait(1), Op::Wait(3), Op::Pause, Op::Continue, Op::Next, Op::StepIn, Op::StepOut];
        if with_bp {
            v.push(Op::SetBp(1));
        }
        v
    };
    let mut heads: Vec<Vec<Op>> = vec![vec![Op::Start]];
    for b in 0..n_addrs.min(5) {
        heads.push(vec![Op::SetBp(b), Op::Start]);
    }
    for h in heads {
        let ops = tail_ops(h.len() == 1);
        // all sequences of length 0..=n
        let mut seqs: Vec<Vec<Op>> = vec![vec![]];
        let mut frontier: Vec<Vec<Op>> = vec![vec![]];
        for _ in 0..n {
            let mut next = vec![];
            for s in &frontier {
                for o in &ops {
                    // prune sequences that are ill-formed regardless of the schedule
                    let last = s.last();
                    let ok = match (last, o) {
                        (Some(Op::Wait(_)), Op::Wait(_)) => false,
                        (Some(Op::Pause), Op::Pause) => false,
                        (Some(Op::Pause), Op::Wait(_)) => false,
                        (Some(Op::Continue), Op::Continue) => false,
                        _ => true,
                    };
                    if ok {
                        let mut t = s.clone();
                        t.push(o.clone());
                        next.push(t);
                    }
                }
            }
            seqs.extend(next.iter().cloned());
            frontier = next;
        }
        for s in seqs {
            let mut full = h.clone();
            full.extend(s);
            out.push(full);
        }
    }
    out
}

#[derive(Default)]
pub struct ScriptStats {
    pub executions: u64,
    pub ill_formed: bool,
    pub outcomes: std::collections::HashSet<u64>,
    pub findings: Vec<(String, String, Value)>,
    pub capped: bool,
    pub replays_checked: u64,
    pub max_decisions: usize,
}

/// Preemption-bounded DFS over the schedules of one script.
pub fn explore(prog_name: &str, prog: &str, reference: &[u16], script: &[Op], bound: usize, max_exec: u64) -> ScriptStats {
    let mut stats = ScriptStats::default();
    let mut stack: Vec<Vec<usize>> = vec![vec![]];
    let script_json: Vec<String> = script.iter().map(|o| o.name()).collect();
    while let Some(prefix) = stack.pop() {
        if stats.executions >= max_exec {
            stats.capped = true;
            break;
        }
        let out = run_script(prog, reference, script, &prefix);
        stats.executions += 1;
        if out.ill_formed && prefix.is_empty() {
            // not a session a DAP client produces under the default schedule: run once only
            stats.ill_formed = true;
        }
        stats.max_decisions = stats.max_decisions.max(out.trace.decisions.len());
        if out.trace.capped {
            stats.capped = true;
        }
        let choices: Vec<usize> = out.trace.decisions.iter().map(|d| d.chosen).collect();
        stats.outcomes.insert(fnv_str(&format!("{:?}{:?}", out.observations, out.violations.iter().map(|v| &v.0).collect::<Vec<_>>())));
        if !out.violations.is_empty() || stats.executions % 64 == 1 {
            // replay the recorded schedule: the observations must be identical
            let again = run_script(prog, reference, script, &choices);
            stats.replays_checked += 1;
            if again.observations != out.observations
                || again.violations.iter().map(|v| &v.0).collect::<Vec<_>>() != out.violations.iter().map(|v| &v.0).collect::<Vec<_>>()
            {
                eprintln!("[c19] replay divergence for script {:?} schedule {:?}\n first: {:?}\n again: {:?}", script_json, choices, out.observations, again.observations);
                std::process::exit(2);
            }
        }
        for (sig, what) in &out.violations {
            let sig = format!("{}:preemptions-{}", sig, out.preemptions);
            let readable: Vec<String> = out.trace.decisions.iter().filter(|d| d.chosen != 0).map(|d| format!("{}@{}", d.who.0, d.who.1)).collect();
            stats.findings.push((
                sig,
                format!("{} [program {}, script {:?}, deviations from the default schedule: {:?}]", what, prog_name, script_json, readable),
                json!({"program": prog_name, "source": prog, "script": script_json, "schedule": choices, "observations": out.observations}),
            ));
        }
        if out.ill_formed {
            continue;
        }
        // children: deviate at one later decision
        let mut cost = 0usize;
        for (i, d) in out.trace.decisions.iter().enumerate() {
            if i >= prefix.len() {
                for alt in 1..d.enabled {
                    if cost + d.cost(alt) <= bound {
                        let mut p: Vec<usize> = choices[..i].to_vec();
                        p.push(alt);
                        stack.push(p);
                    }
                }
            }
            cost += d.cost(d.chosen);
        }
    }
    stats
}

pub fn reference_run(prog: &str) -> Vec<u16> {
    // configurationDone, then run to the end under the default schedule
    let script = vec![Op::Start, Op::Wait(1000)];
    let out = run_script(prog, &[0u16; 0], &script, &[]);
    out.trace.taps.iter().map(|t| t.pc).collect()
}

/// Worker: explores the scripts of shard i of n and prints one JSON document.
pub fn worker(tier_thorough: bool, shard: usize, shards: usize) -> i32 {
    // quick: scripts of <= 2 operations, 1 preemption. thorough: <= 3 operations with 1 preemption,
    // single-operation and wait-then-pause scripts with 2, one pause script with 3.
    let (n, bound) = if tier_thorough { (3, 1) } else { (2, 1) };
    let mut result = vec![];
    let mut k = 0usize;
    for (pname, prog) in PROGRAMS.iter().take(if tier_thorough { 4 } else { 3 }) {
        let reference = reference_run(prog);
        let mut addrs: Vec<u16> = vec![];
        for pc in &reference {
            if !addrs.contains(pc) {
                addrs.push(*pc);
            }
        }
        for script in scripts(n, addrs.len()) {
            k += 1;
            if k % shards != shard {
                continue;
            }
            // pause-containing scripts get one more preemption in thorough
            let ops_after_start = script.iter().skip_while(|o| **o != Op::Start).count().saturating_sub(1);
            let is_pause_script = ops_after_start == 2
                && matches!(script[script.len() - 2], Op::Wait(_))
                && script[script.len() - 1] == Op::Pause;
            let b = if !tier_thorough {
                bound
            } else if is_pause_script && script[0] == Op::Start && *pname == "straight" && script[script.len() - 2] == Op::Wait(1) {
                3
            } else if ops_after_start <= 1 || is_pause_script {
                2
            } else {
                1
            };
            let st = explore(pname, prog, &reference, &script, b, 200_000);
            result.push(json!({
                "program": pname,
                "script": script.iter().map(|o| o.name()).collect::<Vec<_>>(),
                "executions": st.executions,
                "ill_formed": st.ill_formed,
                "outcomes": st.outcomes.iter().collect::<Vec<_>>(),
                "capped": st.capped,
                "replays": st.replays_checked,
                "max_decisions": st.max_decisions,
                "bound": b,
                "findings": st.findings.iter().map(|(s, w, c)| json!([s, w, c])).collect::<Vec<_>>(),
                "reference": reference,
            }));
        }
    }
    println!("{}", json!(result));
    0
}

pub fn run(ctx: &Ctx, replay: Option<&Value>, rest: &[String]) -> i32 {
    if rest.len() >= 3 && rest[0] == "--worker" {
        return worker(ctx.tier.is_thorough(), rest[1].parse().unwrap(), rest[2].parse().unwrap());
    }
    if let Some(case) = replay {
        let prog = case["source"].as_str().unwrap_or("");
        let reference = reference_run(prog);
        println!("reference run: {:04x?}", reference);
        println!("script {} schedule {} – re-run `./check C19` for the verdict; recorded observations:\n{:#}", case["script"], case["schedule"], case["observations"]);
        return 0;
    }
    let shards = 16usize;
    let exe = std::env::current_exe().unwrap();
    let tier = ctx.tier.as_str().to_string();
    let children: Vec<_> = (0..shards)
        .map(|i| {
            std::process::Command::new(&exe)
                .args(["C19", "--tier", &tier, "--worker", &i.to_string(), &shards.to_string()])
                .stdout(std::process::Stdio::piped())
                .stderr(std::process::Stdio::inherit())
                .spawn()
                .expect("cannot spawn worker")
        })
        .collect();
    let mut states = std::collections::HashSet::new();
    let mut transitions = 0u64;
    let mut replays = 0u64;
    let mut scripts_total = 0u64;
    let mut ill = 0u64;
    let mut max_bound = 0u64;
    let mut samples = vec![];
    for c in children {
        let o = c.wait_with_output().expect("worker failed");
        if !o.status.success() {
            eprintln!("MACHINERY: C19 worker exited with {:?}", o.status);
            return 2;
        }
        let v: Value = match serde_json::from_slice(&o.stdout) {
            Ok(v) => v,
            Err(e) => {
                eprintln!("MACHINERY: cannot parse worker output: {}", e);
                return 2;
            }
        };
        for s in v.as_array().cloned().unwrap_or_default() {
            scripts_total += 1;
            let execs = s["executions"].as_u64().unwrap_or(0);
            transitions += execs * s["max_decisions"].as_u64().unwrap_or(0).max(1);
            ctx.add_evals(execs);
            replays += s["replays"].as_u64().unwrap_or(0);
            max_bound = max_bound.max(s["bound"].as_u64().unwrap_or(0));
            if s["ill_formed"] == true {
                ill += 1;
            }
            if s["capped"] == true {
                ctx.cap(format!("execution cap hit for script {}", s["script"]));
            }
            for o in s["outcomes"].as_array().cloned().unwrap_or_default() {
                let key = format!("{}{}{}", s["program"], s["script"], o);
                states.insert(fnv_str(&key));
                ctx.nontrivial(fnv_str(&key));
            }
            if samples.len() < 12 && execs > 1 {
                samples.push(json!({"program": s["program"], "script": s["script"], "schedules_explored": execs, "distinct_outcomes": s["outcomes"].as_array().map(|a| a.len())}));
            }
            for f in s["findings"].as_array().cloned().unwrap_or_default() {
                ctx.finding(Finding::new(f[0].as_str().unwrap_or("?"), f[1].as_str().unwrap_or(""), f[2].clone()));
            }
        }
    }
    for s in samples {
        ctx.add_sample(s);
    }
    // protocol level: deterministic DAP sessions on the real process
    let dap_ok = super::c19_dap::conformance(ctx);
    replays += dap_ok;
    ctx.set("dap_sessions_agreeing", json!(dap_ok));
    ctx.set("states", json!(states.len()));
    ctx.set("transitions", json!(transitions));
    ctx.set("traces_validated_against_impl", json!(replays));
    ctx.set("scripts", json!(scripts_total));
    ctx.set("ill_formed_scripts_run_once", json!(ill));
    ctx.set("preemption_bound_completed", json!(max_bound));
    ctx.finish(
        "model_checking",
        "stateless preemption-bounded DFS over the interleavings of the real session (harness), machine and poller threads of the emulated-machine debug adapter at the H3 scheduling points, for every script over {setBreakpoints, configurationDone, wait(k), pause, continue, next, stepIn, stepOut} up to the length bound on 3 programs (straight line, loop, subroutine); states = distinct (script, observation sequence, violated invariants) outcomes; transitions = scheduling decisions taken; traces validated = schedules replayed a second time with identical observations",
        true,
        &[
            "the harness calls the adapter methods the DAP request handlers call; TCP framing and the session's select loop are not executed",
            "one thread runs between two scheduling points (sequentially consistent interleavings); all shared data of these threads is behind Mutex/RwLock/AtomicBool/channels in safe Rust",
            "a breakpoint set concurrently with the instruction it names takes no verdict for that instruction",
            "preemption bound 1 with scripts of <= 2 operations (quick); thorough: <= 3 operations at bound 1, single-operation scripts and the wait-then-pause scripts at bound 2, one wait(1)-pause script at bound 3",
        ],
    )
}
