//! C15 – rename is behaviour-preserving and complete;
//! C16 – go-to-definition / find-references / document highlights agree with the assembler's scoping.
//!
//! Both properties share one *program catalogue* (bounded, enumerated completely):
//!
//! * base programs: three nesting levels `root`, `s1: {`, `s2: {` (inside s1), each defining or not
//!   defining `a` as a label or as a constant (27 combinations, every definition with a distinct
//!   value: constants 11/22/33, labels tagged with a unique byte so their address can be read off
//!   the output), one *main use* `.word <path>` at one of the three levels written as one of
//!   {`a`, `super.a`, `super.super.a`, `s1.a`, `s1.s2.a`}, optionally wrapped in {invoked macro,
//!   NOT invoked macro, `.if 1`, `.if 0`, `.text "{path}"`, `.loop 2`, `.loop 2` with an own label
//!   `a` in the body, argument of a macro invocation whose body emits the parameter}; the unwrapped use in two statement orders (definitions before / after the
//!   uses); every defining level additionally has a local use `.word a` next to the definition.
//! * import programs over `main.asm` + `other.asm`: `.import * from`, `.import a from`,
//!   `.import a as b from`, `.import * as ns from` (use `ns.a`), the same file imported twice
//!   under two namespaces, a block imported by name (`.import o1 from`, use `o1.a`) × kind of the
//!   imported `a` × own `a` in `s1` (none/label/const) × use level × (`name` | `super.name`)
//!   × wrapper; the unwrapped use with the import before / after the use.
//! * every program contains `// a`, `/* a */`, `.text "a"` (and `"other.asm"`) which no edit may
//!   touch, and a sibling scope `sib: { .const q = 44 }` (`q` is the "name of another scope").
//!
//! Only programs for which a FRESH server publishes no diagnostics are in scope.
//!
//! Oracle for "which definition does the build use": every use is emitted between two marker
//! byte pairs, so the assembled bytes (own in-process `mos_core` parse + codegen with the
//! server's options) contain the value that was used; definitions have pairwise distinct values.
//! No resolver is re-implemented here.

use crate::lspdrv::{pos_params, uri, Death, Server};
use mos_core::codegen::{codegen, CodegenOptions};
use mos_core::parser::parse;
use mos_core::parser::source::InMemoryParsingSource;
use mvlib::panics::{guard, PanicInfo};
use mvlib::{fnv_str, Ctx, Finding};
use rayon::prelude::*;
use serde_json::{json, Value};
use std::collections::{BTreeMap, BTreeSet};
use std::path::Path;

// ------------------------------------------------------------------------------------------
// catalogue
// ------------------------------------------------------------------------------------------

#[derive(Clone, Copy, Debug, PartialEq, Eq)]
pub enum Kind {
    N,
    L,
    C,
}

impl Kind {
    fn ch(self) -> char {
        match self {
            Kind::N => 'N',
            Kind::L => 'L',
            Kind::C => 'C',
        }
    }
    fn from_ch(c: char) -> Kind {
        match c {
            'L' => Kind::L,
            'C' => Kind::C,
            _ => Kind::N,
        }
    }
}

const WRAPS: [&str; 19] = [
    "none", "macro", "macro-uninvoked", "if1", "if0", "interp", "loop", "loopdef", "macro-arg", "shadowed-first-segment", "expr-positions",
    "else-untaken", "if0-if0", "if0-else-untaken", "if1-if0", "untaken-def-nearer",
    "expr-repeat", "macro-named-a", "macro-arg-same-name",
];

/// Wrappers that put the use into conditional branches: (condition, the use stands in the `else` branch) from the
/// outside in. In the *twin* of such a program every one of these branches is taken (the digits are flipped, nothing
/// else changes, so every position stays where it is): what the assembler binds the use to there is what the
/// scoping rules bind it to in the branch that is not taken.
fn cond_shape(w: &str) -> Option<&'static [(u8, bool)]> {
    Some(match w {
        "if1" => &[(1, false)],
        "if0" => &[(0, false)],
        "else-untaken" => &[(1, true)],
        "if0-if0" => &[(0, false), (0, false)],
        "if0-else-untaken" => &[(0, false), (1, true)],
        "if1-if0" => &[(1, false), (0, false)],
        _ => return None,
    })
}
const FORMS: [&str; 5] = ["a", "super.a", "super.super.a", "s1.a", "s1.s2.a"];
const LEVELS: [&str; 3] = ["root", "s1", "s2"];
const IMPORTS: [&str; 6] = ["star", "named", "alias", "ns", "twice", "block"];

#[derive(Clone, Debug, PartialEq, Eq)]
pub enum Spec {
    Base {
        kinds: [Kind; 3],
        ulevel: usize,
        form: usize,
        wrap: usize,
        use_first: bool,
    },
    Import {
        imp: usize,
        okind: Kind,
        s1kind: Kind,
        ulevel: usize,
        sup: bool,
        wrap: usize,
        import_last: bool,
    },
}

impl Spec {
    fn to_json(&self) -> Value {
        match self {
            Spec::Base { kinds, ulevel, form, wrap, use_first } => json!({
                "catalogue": "base",
                "kinds": kinds.iter().map(|k| k.ch()).collect::<String>(),
                "use_level": ulevel, "form": FORMS[*form], "wrap": WRAPS[*wrap], "use_first": use_first,
            }),
            Spec::Import { imp, okind, s1kind, ulevel, sup, wrap, import_last } => json!({
                "catalogue": "import",
                "import": IMPORTS[*imp], "other_kind": okind.ch().to_string(), "s1_kind": s1kind.ch().to_string(),
                "use_level": ulevel, "super": sup, "wrap": WRAPS[*wrap], "import_last": import_last,
            }),
        }
    }

    fn from_json(v: &Value) -> Option<Spec> {
        let wrap = WRAPS.iter().position(|w| Some(*w) == v["wrap"].as_str())?;
        let ulevel = v["use_level"].as_u64()? as usize;
        match v["catalogue"].as_str()? {
            "base" => {
                let k: Vec<char> = v["kinds"].as_str()?.chars().collect();
                if k.len() != 3 {
                    return None;
                }
                Some(Spec::Base {
                    kinds: [Kind::from_ch(k[0]), Kind::from_ch(k[1]), Kind::from_ch(k[2])],
                    ulevel,
                    form: FORMS.iter().position(|f| Some(*f) == v["form"].as_str())?,
                    wrap,
                    use_first: v["use_first"].as_bool()?,
                })
            }
            "import" => Some(Spec::Import {
                imp: IMPORTS.iter().position(|f| Some(*f) == v["import"].as_str())?,
                okind: Kind::from_ch(v["other_kind"].as_str()?.chars().next()?),
                s1kind: Kind::from_ch(v["s1_kind"].as_str()?.chars().next()?),
                ulevel,
                sup: v["super"].as_bool()?,
                wrap,
                import_last: v["import_last"].as_bool()?,
            }),
            _ => None,
        }
    }
}

pub fn catalogue(thorough: bool) -> Vec<Spec> {
    let wraps: Vec<usize> = if thorough { (0..WRAPS.len()).collect() } else { vec![0, 13, 15, WRAPS.len() - 3, WRAPS.len() - 2, WRAPS.len() - 1] };
    let kinds = [Kind::N, Kind::L, Kind::C];
    let mut out = vec![];
    for k0 in kinds {
        for k1 in kinds {
            for k2 in kinds {
                for ulevel in 0..3 {
                    for form in 0..FORMS.len() {
                        for &wrap in &wraps {
                            for use_first in [false, true] {
                                // the second statement order is combined with the plain use only
                                // (uses in front of the definitions: unwrapped and in the other expression positions)
                                if use_first && wrap != 0 && WRAPS[wrap] != "expr-positions" {
                                    continue;
                                }
                                out.push(Spec::Base { kinds: [k0, k1, k2], ulevel, form, wrap, use_first });
                            }
                        }
                    }
                }
            }
        }
    }
    for imp in 0..IMPORTS.len() {
        for okind in [Kind::L, Kind::C] {
            for s1kind in kinds {
                for (ulevel, sup) in [(0, false), (1, false), (1, true)] {
                    for &wrap in &wraps {
                        for import_last in [false, true] {
                            if import_last && wrap != 0 {
                                continue;
                            }
                            // (this wrapper needs its macro at the top of the file: base programs only)
                            if WRAPS[wrap] == "macro-named-a" {
                                continue;
                            }
                            out.push(Spec::Import { imp, okind, s1kind, ulevel, sup, wrap, import_last });
                        }
                    }
                }
            }
        }
    }
    out
}

// ------------------------------------------------------------------------------------------
// program model: text + every identifier occurrence + every definition
// ------------------------------------------------------------------------------------------

#[derive(Clone, Debug)]
pub struct Def {
    pub file: usize,
    pub line: u32,
    pub c0: u32,
    pub c1: u32,
    pub name: String,
    /// root | s1 | s2 | loop | other | scope | macro | ns | sib
    pub level: String,
    /// unique byte emitted right at a label definition (its offsets give the label's addresses)
    pub tag: Option<u8>,
    pub cval: Option<i64>,
    pub values: BTreeSet<i64>,
    /// label | const | scope | macro | ns
    pub kind: &'static str,
    /// several symbols share this source position (loop iterations, a file imported twice)
    pub multi: bool,
}

#[derive(Clone, Debug, PartialEq, Eq)]
pub enum Role {
    /// the occurrence is this definition's own name token
    DefSite(usize),
    /// refers to the only definition of that name in the project (scope labels, macro, namespaces)
    KnownName(String),
    /// last segment of a use: the definition is identified by the bytes emitted for use `id`
    ByBytes(usize),
    /// a `super` segment
    Super,
}

#[derive(Clone, Debug, PartialEq, Eq)]
pub enum Resolved {
    Def(usize),
    /// nothing was emitted for the use (uninvoked macro, untaken branch), or a `super` token:
    /// no verdict on the target, symmetry only
    SymmetricOnly,
    /// emitted values do not identify exactly one definition (counted, no verdict)
    Ambiguous,
}

#[derive(Clone, Debug)]
pub struct Occ {
    pub file: usize,
    pub line: u32,
    /// range the occurrence occupies (what references / highlights / edits are compared with)
    pub c0: u32,
    pub c1: u32,
    /// identifier tokens inside the range that are queried: (col, len, text)
    pub probes: Vec<(u32, u32, String)>,
    pub role: Role,
    pub level: String,
    pub form: String,
    pub wrap: &'static str,
    pub resolved: Resolved,
    /// the use (marker id) this occurrence is a path segment of
    pub use_id: Option<usize>,
}

#[derive(Clone, Debug)]
pub struct UseInfo {
    pub id: usize,
    pub text_mode: bool,
    /// how many times the use is expected to be emitted is not assumed; this is what was found
    pub emitted: Vec<i64>,
}

#[derive(Clone, Debug)]
pub struct Program {
    pub spec: Spec,
    pub files: Vec<(String, String)>,
    pub defs: Vec<Def>,
    pub occs: Vec<Occ>,
    pub uses: Vec<UseInfo>,
    pub imp_suffix: String,
    /// occurrences in code that is not assembled whose binding was taken from the twin program
    pub twin_resolved: BTreeSet<usize>,
    /// text put in front of every line (a comment with a character that takes 2 / 3 / 4 bytes in UTF-8 and 1 / 1 / 2
    /// code units in UTF-16); columns of the model are UTF-16 columns, as in the protocol
    pub line_prefix: &'static str,
}

pub const PREFIXES: [(&str, &str); 4] = [("none", ""), ("2-byte", "/* é */ "), ("3-byte", "/* → */ "), ("4-byte", "/* 💾 */ ")];

impl Program {
    fn spec_json(&self) -> Value {
        let mut v = self.spec.to_json();
        if !self.line_prefix.is_empty() {
            v["line_prefix"] = json!(PREFIXES.iter().find(|x| x.1 == self.line_prefix).map(|x| x.0).unwrap_or(""));
        }
        v
    }

    /// Puts `prefix` in front of every line of every file and moves every column of the model.
    pub fn with_line_prefix(mut self, prefix: &'static str) -> Program {
        if prefix.is_empty() {
            return self;
        }
        let w = prefix.encode_utf16().count() as u32;
        for (_, t) in self.files.iter_mut() {
            *t = t.lines().map(|l| format!("{}{}\n", prefix, l)).collect();
        }
        for d in self.defs.iter_mut() {
            d.c0 += w;
            d.c1 += w;
        }
        for o in self.occs.iter_mut() {
            o.c0 += w;
            o.c1 += w;
            for pr in o.probes.iter_mut() {
                pr.0 += w;
            }
        }
        self.line_prefix = prefix;
        self
    }
}

/// byte offset of a UTF-16 column in a line (`None`: beyond the line or inside a character)
pub fn col_to_byte(line: &str, col: u32) -> Option<usize> {
    let mut units = 0u32;
    for (i, c) in line.char_indices() {
        if units == col {
            return Some(i);
        }
        if units > col {
            return None;
        }
        units += c.len_utf16() as u32;
    }
    if units == col {
        Some(line.len())
    } else {
        None
    }
}

struct Gen {
    files: Vec<(String, Vec<String>)>,
    defs: Vec<Def>,
    occs: Vec<Occ>,
    uses: Vec<UseInfo>,
    imp_suffix: String,
    /// generate the twin (all wrapper branches taken)
    twin: bool,
}

const INDS: [&str; 6] = ["", "  ", "    ", "      ", "        ", "          "];

impl Gen {
    fn new() -> Gen {
        Gen {
            files: vec![("main.asm".into(), vec![]), ("other.asm".into(), vec![])],
            defs: vec![],
            occs: vec![],
            uses: vec![],
            imp_suffix: String::new(),
            twin: false,
        }
    }

    fn line(&mut self, f: usize, s: String) -> u32 {
        self.files[f].1.push(s);
        (self.files[f].1.len() - 1) as u32
    }

    fn form(&self, f: &str) -> String {
        format!("{}{}", f, self.imp_suffix)
    }

    fn add_def(&mut self, file: usize, line: u32, c0: u32, name: &str, level: &str, tag: Option<u8>, cval: Option<i64>, wrap: &'static str, occ_level: &str) -> usize {
        let c1 = c0 + name.len() as u32;
        self.defs.push(Def {
            file,
            line,
            c0,
            c1,
            name: name.to_string(),
            level: level.to_string(),
            tag,
            cval,
            values: cval.into_iter().collect(),
            kind: if tag.is_some() {
                "label"
            } else if cval.is_some() {
                "const"
            } else {
                match level {
                    "macro" => "macro",
                    "macro-arg" => "macro-arg",
                    "ns" => "ns",
                    _ => "scope",
                }
            },
            multi: level == "loop",
        });
        let d = self.defs.len() - 1;
        let form = self.form("def");
        self.occs.push(Occ {
            file,
            line,
            c0,
            c1,
            probes: vec![(c0, c1 - c0, name.to_string())],
            role: Role::DefSite(d),
            level: occ_level.to_string(),
            form,
            wrap,
            resolved: Resolved::Def(d),
            use_id: None,
        });
        d
    }

    /// `a: .byte $d1 // a`  or  `.const a = 11 // a`
    fn def_a(&mut self, f: usize, ind: usize, kind: Kind, level: &str, occ_level: &str, tag: u8, cval: i64, wrap: &'static str) {
        match kind {
            Kind::N => {}
            Kind::L => {
                let l = self.line(f, format!("{}a: .byte ${:02x} // a", INDS[ind], tag));
                self.add_def(f, l, INDS[ind].len() as u32, "a", level, Some(tag), None, wrap, occ_level);
            }
            Kind::C => {
                let l = self.line(f, format!("{}.const a = {} // a", INDS[ind], cval));
                self.add_def(f, l, INDS[ind].len() as u32 + 7, "a", level, None, Some(cval), wrap, occ_level);
            }
        }
    }

    fn scope_open(&mut self, f: usize, ind: usize, name: &str, occ_level: &str) {
        let l = self.line(f, format!("{}{}: {{", INDS[ind], name));
        self.add_def(f, l, INDS[ind].len() as u32, name, "scope", None, None, "none", occ_level);
    }

    fn close(&mut self, f: usize, ind: usize) {
        self.line(f, format!("{}}}", INDS[ind]));
    }

    /// marker, `.word <path> /* a */` (or `.text "{<path>}" /* a */`), end marker
    fn use_block(&mut self, f: usize, ind: usize, id: usize, path: &str, level: &str, form: &str, wrap: &'static str, text_mode: bool) {
        let i = INDS[ind];
        self.line(f, format!("{}.byte $fe,${:02x}", i, 0xe0 + id));
        let (l, pcol) = if text_mode {
            let l = self.line(f, format!("{}.text \"{{{}}}\" /* a */", i, path));
            (l, i.len() as u32 + 8)
        } else if wrap == "expr-repeat" {
            // the same path three times in one expression (the value is that of the path)
            let l = self.line(f, format!("{}.word {} + {} - {} /* a */", i, path, path, path));
            (l, i.len() as u32 + 6)
        } else {
            let l = self.line(f, format!("{}.word {} /* a */", i, path));
            (l, i.len() as u32 + 6)
        };
        self.line(f, format!("{}.byte $fd,${:02x}", i, 0xe0 + id));
        self.uses.push(UseInfo { id, text_mode, emitted: vec![] });
        self.path_occs(f, l, pcol, id, path, level, form, wrap);
        if wrap == "expr-repeat" && !text_mode {
            let step = path.len() as u32 + 3;
            self.path_occs(f, l, pcol + step, id, path, level, form, wrap);
            self.path_occs(f, l, pcol + 2 * step, id, path, level, form, wrap);
        }
    }

    /// one occurrence per segment of a path written at (line, col)
    fn path_occs(&mut self, f: usize, l: u32, pcol: u32, id: usize, path: &str, level: &str, form: &str, wrap: &'static str) {
        let segs: Vec<&str> = path.split('.').collect();
        let mut col = pcol;
        for (k, seg) in segs.iter().enumerate() {
            let last = k + 1 == segs.len();
            let role = if *seg == "super" {
                Role::Super
            } else if last {
                Role::ByBytes(id)
            } else {
                Role::KnownName(seg.to_string())
            };
            let form = if last { form.to_string() } else { format!("{}~{}", form, seg) };
            let form = self.form(&form);
            self.occs.push(Occ {
                file: f,
                line: l,
                c0: col,
                c1: col + seg.len() as u32,
                probes: vec![(col, seg.len() as u32, seg.to_string())],
                role,
                level: level.to_string(),
                form,
                wrap,
                resolved: Resolved::SymmetricOnly,
                use_id: Some(id),
            });
            col += seg.len() as u32 + 1;
        }
    }

    /// `.macro a() { <use> }` at the top level of main.asm, for the wrapper "macro-named-a"
    fn macro_named_a(&mut self, path: &str, level: &str) {
        let w = "macro-named-a";
        let l = self.line(0, ".macro a() {".to_string());
        self.add_def(0, l, 7, "a", "macro", None, None, w, level);
        self.use_block(0, 1, 0, path, level, path, w, false);
        self.close(0, 0);
    }

    /// the main use with its wrapper
    fn main_use(&mut self, f: usize, ind: usize, path: &str, level: &str, wrap: usize) {
        let w = WRAPS[wrap];
        let i = INDS[ind];
        match w {
            "none" => self.use_block(f, ind, 0, path, level, path, w, false),
            "interp" => self.use_block(f, ind, 0, path, level, path, w, true),
            "macro" | "macro-uninvoked" => {
                let l = self.line(f, format!("{}.macro m() {{", i));
                self.add_def(f, l, i.len() as u32 + 7, "m", "macro", None, None, w, level);
                self.use_block(f, ind + 1, 0, path, level, path, w, false);
                self.close(f, ind);
                if w == "macro" {
                    let l = self.line(f, format!("{}m()", i));
                    let form = self.form("m()");
                    self.occs.push(Occ {
                        file: f,
                        line: l,
                        c0: i.len() as u32,
                        c1: i.len() as u32 + 1,
                        probes: vec![(i.len() as u32, 1, "m".into())],
                        role: Role::KnownName("m".into()),
                        level: level.to_string(),
                        form,
                        wrap: w,
                        resolved: Resolved::SymmetricOnly,
                use_id: None,
                    });
                }
            }
            "expr-repeat" => self.use_block(f, ind, 0, path, level, path, w, false),
            "expr-positions" => {
                // the same path in the other places an expression can stand in (all of them resolve like the
                // `.word` between the markers, which they follow directly)
                self.use_block(f, ind, 0, path, level, path, w, false);
                let pl = path.len() as u32;
                let l = self.line(f, format!("{}.if {} == {} {{ nop }}", i, path, path));
                self.path_occs(f, l, i.len() as u32 + 4, 0, path, level, path, w);
                self.path_occs(f, l, i.len() as u32 + 4 + pl + 4, 0, path, level, path, w);
                let l = self.line(f, format!("{}lda #<{}", i, path));
                self.path_occs(f, l, i.len() as u32 + 6, 0, path, level, path, w);
                let l = self.line(f, format!("{}.var vq = {} + 1", i, path));
                self.path_occs(f, l, i.len() as u32 + 10, 0, path, level, path, w);
                let l = self.line(f, format!("{}.align 1 + {} - {}", i, path, path));
                self.path_occs(f, l, i.len() as u32 + 11, 0, path, level, path, w);
                self.path_occs(f, l, i.len() as u32 + 11 + pl + 3, 0, path, level, path, w);
                // (a loop count: the expression is also where the loop's own `index` is defined)
                let l = self.line(f, format!("{}.loop 1 + {} - {} {{ nop }}", i, path, path));
                self.path_occs(f, l, i.len() as u32 + 10, 0, path, level, path, w);
                self.path_occs(f, l, i.len() as u32 + 10 + pl + 3, 0, path, level, path, w);
            }
            "shadowed-first-segment" => {
                // a plain label that is called like the first segment of a dotted path, nearer than the scope of
                // that name: the whole path still means the outer one (the label has no members)
                let first = path.split('.').next().unwrap_or("");
                // (only where the use stands deeper than the scope the first segment names: in that scope itself the
                // label would be a second symbol of the same name, not a nearer one)
                if first != "super" && path.contains('.') && level != "root" {
                    let l = self.line(f, format!("{}{}: nop", i, first));
                    self.add_def(f, l, i.len() as u32, first, "shadow-label", None, None, w, level);
                }
                self.use_block(f, ind, 0, path, level, path, w, false);
            }
            "macro-named-a" => {
                // the macro `a` is defined at the top of the file (see `macro_named_a`); here it is invoked,
                // possibly with a label or constant `a` nearer than the macro
                let l = self.line(f, format!("{}a()", i));
                let form = self.form("a()");
                self.occs.push(Occ {
                    file: f,
                    line: l,
                    c0: i.len() as u32,
                    c1: i.len() as u32 + 1,
                    probes: vec![(i.len() as u32, 1, "a".into())],
                    role: Role::KnownName("macro:a".into()),
                    level: level.to_string(),
                    form,
                    wrap: w,
                    resolved: Resolved::SymmetricOnly,
                    use_id: None,
                });
            }
            "macro-arg" | "macro-arg-same-name" => {
                // (same-name: the parameter is called `a` like the symbols of the catalogue)
                let pn = if w == "macro-arg" { "p" } else { "a" };
                // the path is the argument of the invocation; the body emits the parameter
                let l = self.line(f, format!("{}.macro m({}) {{", i, pn));
                self.add_def(f, l, i.len() as u32 + 7, "m", "macro", None, None, w, level);
                self.add_def(f, l, i.len() as u32 + 9, pn, "macro-arg", None, None, w, level);
                self.use_block(f, ind + 1, 0, pn, level, pn, w, false);
                // `p` in the body refers to the parameter by construction
                let last = self.occs.len() - 1;
                self.occs[last].role = Role::KnownName(format!("param:{}", pn));
                self.close(f, ind);
                let l = self.line(f, format!("{}m({})", i, path));
                let form = self.form("m()");
                self.occs.push(Occ {
                    file: f,
                    line: l,
                    c0: i.len() as u32,
                    c1: i.len() as u32 + 1,
                    probes: vec![(i.len() as u32, 1, "m".into())],
                    role: Role::KnownName("m".into()),
                    level: level.to_string(),
                    form,
                    wrap: w,
                    resolved: Resolved::SymmetricOnly,
                    use_id: None,
                });
                self.path_occs(f, l, i.len() as u32 + 2, 0, path, level, path, w);
            }
            "if1" | "if0" | "else-untaken" | "if0-if0" | "if0-else-untaken" | "if1-if0" => {
                let shape = cond_shape(w).unwrap();
                for (k, (c, in_else)) in shape.iter().enumerate() {
                    // (twin: the branch with the use is the one that is taken)
                    let c = if self.twin { if *in_else { 0 } else { 1 } } else { *c };
                    self.line(f, format!("{}.if {} {{", INDS[ind + k], c));
                    if *in_else {
                        self.line(f, format!("{}nop", INDS[ind + k + 1]));
                        self.line(f, format!("{}}} else {{", INDS[ind + k]));
                    }
                }
                self.use_block(f, ind + shape.len(), 0, path, level, path, w, false);
                for k in (0..shape.len()).rev() {
                    self.close(f, ind + k);
                }
            }
            "untaken-def-nearer" => {
                // a constant called like the symbol, defined in a branch that is not taken, nearer than the definition
                // the build binds the use to (what is not assembled defines nothing)
                self.line(f, format!("{}.if 0 {{", i));
                let l = self.line(f, format!("{}.const a = 99 // a", INDS[ind + 1]));
                self.add_def(f, l, INDS[ind + 1].len() as u32 + 7, "a", "untaken", None, Some(99), w, level);
                self.close(f, ind);
                self.use_block(f, ind, 0, path, level, path, w, false);
            }
            "loop" | "loopdef" => {
                self.line(f, format!("{}.loop 2 {{", i));
                if w == "loopdef" {
                    self.def_a(f, ind + 1, Kind::L, "loop", level, 0xd5, 0, w);
                }
                self.use_block(f, ind + 1, 0, path, level, path, w, false);
                self.close(f, ind);
            }
            _ => unreachable!(),
        }
    }

    fn tail(&mut self) {
        let l = self.line(0, "sib: { .const q = 44 }".into());
        self.add_def(0, l, 0, "sib", "scope", None, None, "none", "root");
        self.add_def(0, l, 14, "q", "sib", None, Some(44), "none", "sib");
        self.line(0, ".text \"a\" /* a */".into());
    }

    fn finish(self, spec: Spec) -> Program {
        let mut files = vec![];
        for (name, lines) in &self.files {
            if lines.is_empty() {
                continue;
            }
            files.push((name.clone(), lines.join("\n") + "\n"));
        }
        Program {
            spec,
            files,
            defs: self.defs,
            occs: self.occs,
            uses: self.uses,
            imp_suffix: self.imp_suffix,
            twin_resolved: BTreeSet::new(),
            line_prefix: "",
        }
    }
}

pub fn generate(spec: &Spec) -> Program {
    generate_with(spec, false)
}

/// The same program with every branch of a conditional wrapper taken (see `cond_shape`).
pub fn generate_twin(spec: &Spec) -> Program {
    generate_with(spec, true)
}

fn generate_with(spec: &Spec, twin: bool) -> Program {
    let mut g = Gen::new();
    g.twin = twin;
    match spec {
        Spec::Base { kinds, ulevel, form, wrap, use_first } => {
            g.line(0, "// a".into());
            fn level(g: &mut Gen, lvl: usize, kinds: &[Kind; 3], ulevel: usize, form: usize, wrap: usize, use_first: bool) {
                let name = LEVELS[lvl];
                let tag = 0xd1 + lvl as u8;
                let cval = 11 * (lvl as i64 + 1);
                if !use_first {
                    g.def_a(0, lvl, kinds[lvl], name, name, tag, cval, "none");
                    if kinds[lvl] != Kind::N {
                        g.use_block(0, lvl, lvl + 1, "a", name, "local-use", "none", false);
                    }
                }
                if ulevel == lvl {
                    g.main_use(0, lvl, FORMS[form], name, wrap);
                }
                if lvl < 2 {
                    g.scope_open(0, lvl, LEVELS[lvl + 1], name);
                    level(g, lvl + 1, kinds, ulevel, form, wrap, use_first);
                    g.close(0, lvl);
                }
                if use_first {
                    if kinds[lvl] != Kind::N {
                        g.use_block(0, lvl, lvl + 1, "a", name, "local-use", "none", false);
                    }
                    g.def_a(0, lvl, kinds[lvl], name, name, tag, cval, "none");
                }
            }
            if WRAPS[*wrap] == "macro-named-a" {
                g.macro_named_a(FORMS[*form], LEVELS[*ulevel]);
            }
            level(&mut g, 0, kinds, *ulevel, *form, *wrap, *use_first);
            g.tail();
        }
        Spec::Import { imp, okind, s1kind, ulevel, sup, wrap, import_last } => {
            let impname = IMPORTS[*imp];
            g.imp_suffix = format!("@{}", impname);
            // other.asm
            g.line(1, "// a".into());
            if impname == "block" {
                g.scope_open(1, 0, "o1", "other");
                g.def_a(1, 1, *okind, "other", "other", 0xd4, 66, "none");
                g.use_block(1, 1, 4, "a", "other", "local-use", "none", false);
                g.close(1, 0);
            } else {
                g.def_a(1, 0, *okind, "other", "other", 0xd4, 66, "none");
                g.use_block(1, 0, 4, "a", "other", "local-use", "none", false);
            }
            // main.asm
            g.line(0, "// a".into());
            let name = match impname {
                "star" | "named" => "a",
                "alias" => "b",
                "ns" => "ns.a",
                "twice" => "n1.a",
                _ => "o1.a",
            };
            let imports = |g: &mut Gen| match impname {
                "star" => {
                    g.line(0, ".import * from \"other.asm\"".into());
                }
                "named" | "block" => {
                    let n = if impname == "named" { "a" } else { "o1" };
                    let l = g.line(0, format!(".import {} from \"other.asm\"", n));
                    let form = g.form("import-arg");
                    g.occs.push(Occ {
                        file: 0,
                        line: l,
                        c0: 8,
                        c1: 8 + n.len() as u32,
                        probes: vec![(8, n.len() as u32, n.to_string())],
                        role: Role::KnownName(if impname == "named" { "other:a".into() } else { "o1".into() }),
                        level: "root".into(),
                        form,
                        wrap: "none",
                        resolved: Resolved::SymmetricOnly,
                use_id: None,
                    });
                }
                "alias" => {
                    let l = g.line(0, ".import a as b from \"other.asm\"".into());
                    let form = g.form("import-arg");
                    g.occs.push(Occ {
                        file: 0,
                        line: l,
                        c0: 8,
                        c1: 14,
                        probes: vec![(8, 1, "a".into()), (13, 1, "b".into())],
                        role: Role::KnownName("other:a".into()),
                        level: "root".into(),
                        form,
                        wrap: "none",
                        resolved: Resolved::SymmetricOnly,
                use_id: None,
                    });
                }
                "ns" | "twice" => {
                    let names: &[&str] = if impname == "ns" { &["ns"] } else { &["n1", "n2"] };
                    for n in names {
                        let l = g.line(0, format!(".import * as {} from \"other.asm\"", n));
                        g.add_def(0, l, 13, n, "ns", None, None, "none", "root");
                    }
                }
                _ => unreachable!(),
            };
            if !*import_last {
                imports(&mut g);
            }
            if *ulevel == 0 {
                g.main_use(0, 0, name, "root", *wrap);
                if impname == "twice" {
                    g.use_block(0, 0, 5, "n2.a", "root", "n2.a", "none", false);
                }
            }
            g.scope_open(0, 0, "s1", "root");
            g.def_a(0, 1, *s1kind, "s1", "s1", 0xd2, 22, "none");
            if *s1kind != Kind::N {
                g.use_block(0, 1, 2, "a", "s1", "local-use", "none", false);
            }
            if *ulevel == 1 {
                let path = if *sup { format!("super.{}", name) } else { name.to_string() };
                g.main_use(0, 1, &path, "s1", *wrap);
                if impname == "twice" {
                    g.use_block(0, 1, 5, "n2.a", "s1", "n2.a", "none", false);
                }
            }
            g.close(0, 0);
            if *import_last {
                imports(&mut g);
            }
            g.tail();
        }
    }
    let mut p = g.finish(spec.clone());
    if let Spec::Import { .. } = spec {
        // a third file whose name differs from `other.asm` in letter case only and which has other symbols at the very
        // same positions (a file is a file name, not a file name modulo case); imported under a namespace of its own
        if p.files.len() == 2 {
            let mut decoy = String::new();
            for line in p.files[1].1.lines() {
                let l = line.replace("$fe,", "$00,").replace("$fd,", "$00,");
                // the identifier `a` -> `z` (same length, so every position stays where it is)
                let mut out = String::new();
                let cs: Vec<char> = l.chars().collect();
                for (i, c) in cs.iter().enumerate() {
                    let word = |ch: Option<&char>| ch.map_or(false, |x| x.is_alphanumeric() || *x == '_' || *x == '$');
                    if *c == 'a' && !word(if i > 0 { cs.get(i - 1) } else { None }) && !word(cs.get(i + 1)) {
                        out.push('z');
                    } else {
                        out.push(*c);
                    }
                }
                decoy.push_str(&out);
                decoy.push('\n');
            }
            p.files.push(("OTHER.asm".into(), decoy));
            p.files[0].1.push_str(".import * as up from \"OTHER.asm\"\n");
        }
    }
    if let Spec::Import { imp, .. } = spec {
        if IMPORTS[*imp] == "twice" {
            for d in p.defs.iter_mut() {
                if d.file == 1 {
                    d.multi = true;
                }
            }
        }
    }
    // resolve names that are known by construction
    for i in 0..p.occs.len() {
        if let Role::KnownName(n) = &p.occs[i].role {
            let d = if n == "other:a" {
                p.defs.iter().position(|d| d.level == "other" && d.name == "a")
            } else if let Some(pn) = n.strip_prefix("param:") {
                p.defs.iter().position(|d| d.kind == "macro-arg" && d.name == pn)
            } else if let Some(mn) = n.strip_prefix("macro:") {
                p.defs.iter().position(|d| d.kind == "macro" && d.name == mn)
            } else {
                p.defs.iter().position(|d| &d.name == n)
            };
            if let Some(d) = d {
                p.occs[i].resolved = Resolved::Def(d);
            }
        }
    }
    p
}

// ------------------------------------------------------------------------------------------
// in-process assembly (own oracle run, same options as the language server)
// ------------------------------------------------------------------------------------------

#[derive(Clone, Debug, PartialEq, Eq)]
pub struct Asm {
    pub diags: Vec<String>,
    pub segs: Vec<(String, usize, Vec<u8>)>,
}

pub fn assemble(files: &[(String, String)]) -> Result<Asm, PanicInfo> {
    let mut src = InMemoryParsingSource::new();
    for (n, t) in files {
        src = src.add(n, t);
    }
    guard(move || {
        let (tree, errs) = parse(Path::new("main.asm"), src.into());
        let mut diags: Vec<String> = errs.iter().map(|d| d.message.clone()).collect();
        let mut segs = vec![];
        if let (Some(tree), true) = (tree, diags.is_empty()) {
            // (the build: what is not assembled is not analysed either)
            let (ctx, errs) = codegen(tree, CodegenOptions::default());
            let cm = errs.code_map();
            for d in errs.iter() {
                let loc = match (cm, d.labels.first()) {
                    (Some(cm), Some(l)) => {
                        let sl = cm.look_up_span(l.file_id);
                        format!("{}:{}:{}: ", sl.file.name(), sl.begin.line + 1, sl.begin.column + 1)
                    }
                    _ => String::new(),
                };
                diags.push(format!("{}{}", loc, d.message));
            }
            if let Some(c) = ctx {
                for (name, s) in c.segments() {
                    segs.push((name.to_string(), s.range().start, s.range_data().to_vec()));
                }
            }
        }
        Asm { diags, segs }
    })
}

/// Fills definition values and the values emitted for every use; resolves `ByBytes` occurrences.
/// `Err` = the layout assumptions of this engine do not hold (machinery problem, never a verdict).
pub fn resolve(p: &mut Program, asm: &Asm) -> Result<(), String> {
    if asm.segs.len() != 1 {
        return Err(format!("expected one segment, got {}", asm.segs.len()));
    }
    let (_, start, bytes) = &asm.segs[0];
    if bytes.len() >= 0xd0 {
        return Err("program longer than the tag byte range allows".into());
    }
    for d in p.defs.iter_mut() {
        if let Some(tag) = d.tag {
            d.values = bytes
                .iter()
                .enumerate()
                .filter(|(_, b)| **b == tag)
                .map(|(i, _)| (*start + i) as i64)
                .collect();
            if d.values.is_empty() {
                return Err(format!("tag byte ${:02x} not found in the output", tag));
            }
        }
    }
    // definitions named `a`/... must have pairwise disjoint value sets
    for i in 0..p.defs.len() {
        for j in 0..i {
            if p.defs[i].values.intersection(&p.defs[j].values).next().is_some() {
                return Err("two definitions share a value".into());
            }
        }
    }
    for u in p.uses.iter_mut() {
        u.emitted.clear();
        let m0 = [0xfeu8, 0xe0 + u.id as u8];
        let m1 = [0xfdu8, 0xe0 + u.id as u8];
        let mut i = 0;
        while i + 1 < bytes.len() {
            if bytes[i..i + 2] == m0 {
                let rest = &bytes[i + 2..];
                let end = match rest.windows(2).position(|w| w == m1) {
                    Some(e) => e,
                    None => return Err("start marker without end marker".into()),
                };
                let payload = &rest[..end];
                let v = if u.text_mode {
                    match std::str::from_utf8(payload).ok().and_then(|s| s.parse::<i64>().ok()) {
                        Some(v) => v,
                        None => return Err(format!("interpolated payload {:?} is not a number", payload)),
                    }
                } else {
                    if payload.len() != 2 {
                        return Err(format!("word payload of {} bytes", payload.len()));
                    }
                    payload[0] as i64 | ((payload[1] as i64) << 8)
                };
                u.emitted.push(v);
                i += 2 + end + 2;
            } else {
                i += 1;
            }
        }
    }
    for o in p.occs.iter_mut() {
        if let (Some(id), Role::KnownName(_)) = (o.use_id, &o.role) {
            // a scope segment of a path in code that is not assembled (the path need not even resolve there)
            if p.uses.iter().find(|u| u.id == id).map(|u| u.emitted.is_empty()).unwrap_or(false) {
                o.resolved = Resolved::SymmetricOnly;
            }
        }
        if let Role::ByBytes(id) = o.role {
            let u = p.uses.iter().find(|u| u.id == id).unwrap();
            if u.emitted.is_empty() {
                o.resolved = Resolved::SymmetricOnly;
                continue;
            }
            let mut ds = BTreeSet::new();
            let mut unknown = false;
            for v in &u.emitted {
                match p.defs.iter().position(|d| d.values.contains(v)) {
                    Some(d) => {
                        ds.insert(d);
                    }
                    None => unknown = true,
                }
            }
            o.resolved = if !unknown && ds.len() == 1 {
                Resolved::Def(*ds.iter().next().unwrap())
            } else {
                Resolved::Ambiguous
            };
        }
    }
    Ok(())
}

// ------------------------------------------------------------------------------------------
// LSP helpers
// ------------------------------------------------------------------------------------------

/// (file index, line, c0, line1, c1)
type Loc = (usize, u32, u32, u32, u32);

fn file_of_uri(p_files: &[(String, String)], u: &str) -> Option<usize> {
    p_files.iter().position(|(n, _)| u.ends_with(&format!("/{}", n)))
}

fn range_of(v: &Value) -> Option<(u32, u32, u32, u32)> {
    Some((
        v["start"]["line"].as_u64()? as u32,
        v["start"]["character"].as_u64()? as u32,
        v["end"]["line"].as_u64()? as u32,
        v["end"]["character"].as_u64()? as u32,
    ))
}

fn loc_str(files: &[(String, String)], l: &Loc) -> String {
    let name = files.get(l.0).map(|f| f.0.as_str()).unwrap_or("?");
    if l.1 == l.3 {
        format!("{}:{}:{}-{}", name, l.1, l.2, l.4)
    } else {
        format!("{}:{}:{}-{}:{}", name, l.1, l.2, l.3, l.4)
    }
}

pub fn open_server(files: &[(String, String)]) -> Result<Server, Death> {
    let mut s = Server::start();
    // imported files first, so the entry file finds them in memory
    for (n, t) in files.iter().rev() {
        s.did_open(n, t);
    }
    s.sync()?;
    Ok(s)
}

fn server_diags(s: &Server) -> Vec<String> {
    let mut out = vec![];
    for (u, d) in &s.diags {
        if let Some(a) = d.as_array() {
            for x in a {
                out.push(format!(
                    "{}:{}:{}: {}",
                    u.rsplit('/').next().unwrap_or(""),
                    x["range"]["start"]["line"],
                    x["range"]["start"]["character"],
                    x["message"].as_str().unwrap_or("")
                ));
            }
        }
    }
    out
}

/// Standard LSP semantics: all ranges refer to the original text; edits must not overlap.
/// Identical duplicate edits are dropped (counted by the caller).
pub fn apply_edits(text: &str, edits: &[(u32, u32, u32, u32, String)]) -> Result<(String, usize), String> {
    let mut line_starts = vec![0usize];
    for (i, b) in text.bytes().enumerate() {
        if b == b'\n' {
            line_starts.push(i + 1);
        }
    }
    let off = |l: u32, c: u32| -> Result<usize, String> {
        let ls = *line_starts.get(l as usize).ok_or_else(|| format!("line {} outside the document", l))?;
        let le = line_starts.get(l as usize + 1).map(|e| e - 1).unwrap_or(text.len());
        match col_to_byte(&text[ls..le], c) {
            Some(b) => Ok(ls + b),
            None => Err(format!("column {} outside line {} (or inside a character)", c, l)),
        }
    };
    let mut es: Vec<(usize, usize, &str)> = vec![];
    for (l0, c0, l1, c1, t) in edits {
        let a = off(*l0, *c0)?;
        let b = off(*l1, *c1)?;
        if b < a {
            return Err("edit range ends before it starts".into());
        }
        es.push((a, b, t.as_str()));
    }
    es.sort();
    let before = es.len();
    es.dedup();
    let dups = before - es.len();
    for w in es.windows(2) {
        if w[1].0 < w[0].1 || (w[1].0 == w[0].0) {
            return Err(format!(
                "overlapping edits [{}..{})->{:?} and [{}..{})->{:?}",
                w[0].0, w[0].1, w[0].2, w[1].0, w[1].1, w[1].2
            ));
        }
    }
    let mut out = text.to_string();
    for (a, b, t) in es.iter().rev() {
        out.replace_range(*a..*b, t);
    }
    Ok((out, dups))
}

#[derive(Clone, Copy, Debug, PartialEq, Eq)]
enum Trivia {
    Comment,
    StringText,
}

/// comment and string-literal-text spans of a line (the generated texts are simple enough for a
/// scanner: no quotes inside comments, no comment openers inside strings)
fn trivia_spans(line: &str) -> Vec<(usize, usize, Trivia)> {
    let b = line.as_bytes();
    let mut out = vec![];
    let mut i = 0;
    while i < b.len() {
        if b[i] == b'/' && i + 1 < b.len() && b[i + 1] == b'/' {
            out.push((i, b.len(), Trivia::Comment));
            break;
        } else if b[i] == b'/' && i + 1 < b.len() && b[i + 1] == b'*' {
            let end = line[i + 2..].find("*/").map(|e| i + 2 + e + 2).unwrap_or(b.len());
            out.push((i, end, Trivia::Comment));
            i = end;
        } else if b[i] == b'"' {
            let end = line[i + 1..].find('"').map(|e| i + 1 + e).unwrap_or(b.len());
            // text between the quotes, minus `{...}` interpolations
            let mut j = i + 1;
            let mut seg_start = j;
            while j < end {
                if b[j] == b'{' {
                    if j > seg_start {
                        out.push((seg_start, j, Trivia::StringText));
                    }
                    let close = line[j..end].find('}').map(|e| j + e + 1).unwrap_or(end);
                    j = close;
                    seg_start = j;
                } else {
                    j += 1;
                }
            }
            if end > seg_start {
                out.push((seg_start, end, Trivia::StringText));
            }
            i = end + 1;
        } else {
            i += 1;
        }
    }
    out
}

fn is_ident_char(c: u8) -> bool {
    c.is_ascii_alphanumeric() || c == b'_'
}

// ------------------------------------------------------------------------------------------
// reporting helpers
// ------------------------------------------------------------------------------------------

fn files_json(files: &[(String, String)]) -> Value {
    let mut m = serde_json::Map::new();
    for (n, t) in files {
        m.insert(n.clone(), json!(t));
    }
    Value::Object(m)
}

fn def_level(p: &Program, r: &Resolved) -> String {
    match r {
        Resolved::Def(d) => p.defs[*d].level.clone(),
        Resolved::SymmetricOnly => "none".into(),
        Resolved::Ambiguous => "ambiguous".into(),
    }
}

struct Run<'a> {
    ctx: &'a Ctx,
    verbose: bool,
    /// when replaying: only cases matching this filter are executed
    filter: Option<&'a Value>,
    reproduced: std::sync::atomic::AtomicU64,
}

impl<'a> Run<'a> {
    fn finding(&self, sig: String, what: String, case: Value) {
        if self.verbose {
            println!("FINDING {}\n  {}", sig, what);
        }
        self.reproduced.fetch_add(1, std::sync::atomic::Ordering::Relaxed);
        self.ctx.finding(Finding::new(sig, what, case));
    }
}

// ------------------------------------------------------------------------------------------
// C16
// ------------------------------------------------------------------------------------------

fn parse_definition(p: &Program, v: &Value) -> Result<Vec<Loc>, String> {
    if v.is_null() {
        return Ok(vec![]);
    }
    if let Some(e) = v.get("__error") {
        return Err(format!("error response: {}", e));
    }
    let arr: Vec<Value> = match v {
        Value::Array(a) => a.clone(),
        other => vec![other.clone()],
    };
    let mut out = vec![];
    for x in arr {
        let (u, r) = if x.get("targetUri").is_some() {
            (x["targetUri"].as_str(), range_of(&x["targetSelectionRange"]))
        } else {
            (x["uri"].as_str(), range_of(&x["range"]))
        };
        match (u.and_then(|u| file_of_uri(&p.files, u)), r) {
            (Some(f), Some(r)) => out.push((f, r.0, r.1, r.2, r.3)),
            _ => return Err(format!("unparsable location {}", x)),
        }
    }
    Ok(out)
}

fn parse_locations(p: &Program, v: &Value, file_default: usize) -> Result<Vec<Loc>, String> {
    if v.is_null() {
        return Ok(vec![]);
    }
    if let Some(e) = v.get("__error") {
        return Err(format!("error response: {}", e));
    }
    let mut out = vec![];
    for x in v.as_array().cloned().unwrap_or_default() {
        let f = match x.get("uri").and_then(|u| u.as_str()) {
            Some(u) => file_of_uri(&p.files, u),
            None => Some(file_default),
        };
        match (f, range_of(&x["range"])) {
            (Some(f), Some(r)) => out.push((f, r.0, r.1, r.2, r.3)),
            _ => return Err(format!("unparsable location {}", x)),
        }
    }
    Ok(out)
}

fn occ_loc(o: &Occ) -> Loc {
    (o.file, o.line, o.c0, o.line, o.c1)
}
fn def_loc(d: &Def) -> Loc {
    (d.file, d.line, d.c0, d.line, d.c1)
}

/// What the server says at the first character of every occurrence (uncounted helper requests):
/// the definition it names there, and whether the position belongs to several definitions at
/// once (`references` with declarations then contains the name tokens of two different definitions) –
/// an observation that is used to keep the instances of that one cause in few signatures.
struct Survey {
    server_def: Vec<Option<usize>>,
    several: Vec<bool>,
}

fn survey(p: &Program, s: &mut Server) -> Result<Survey, Death> {
    let mut server_def = vec![None; p.occs.len()];
    let mut several = vec![false; p.occs.len()];
    for (oi, o) in p.occs.iter().enumerate() {
        let (col, _, _) = &o.probes[0];
        let v = s.request("textDocument/definition", pos_params(&p.files[o.file].0, o.line, *col))?;
        if let Ok(locs) = parse_definition(p, &v) {
            server_def[oi] = locs.first().and_then(|l| p.defs.iter().position(|d| def_loc(d) == *l));
        }
        let mut params = pos_params(&p.files[o.file].0, o.line, *col);
        params["context"] = json!({ "includeDeclaration": true });
        let v = s.request("textDocument/references", params)?;
        if let Ok(locs) = parse_locations(p, &v, o.file) {
            let sites: BTreeSet<Loc> = locs.into_iter().filter(|l| p.defs.iter().any(|d| def_loc(d) == *l)).collect();
            several[oi] = sites.len() >= 2;
        }
    }
    Ok(Survey { server_def, several })
}

const SEVERAL: &str = "+several-definitions-at-position";
/// the definition in a branch that is not taken (wrapper `untaken-def-nearer`) is involved in the deviation
const UNTAKEN: &str = "definition-in-untaken-branch-taken-for-real";

fn untaken_def(p: &Program) -> Option<usize> {
    p.defs.iter().position(|d| d.level == "untaken")
}

fn def_label(p: &Program, d: usize) -> String {
    let d = &p.defs[d];
    match d.kind {
        "label" => format!("{}L", d.level),
        "const" => format!("{}C", d.level),
        _ => d.level.clone(),
    }
}

fn resolved_label(p: &Program, r: &Resolved) -> String {
    match r {
        Resolved::Def(d) => def_label(p, *d),
        Resolved::SymmetricOnly => "none".into(),
        Resolved::Ambiguous => "ambiguous".into(),
    }
}

fn sig_of(prefix: &str, dl: &str, ul: &str, form: &str, wrap: &str, what: &str, several: bool) -> String {
    sig_cause(prefix, dl, ul, form, wrap, what, if several { Some(&SEVERAL[1..]) } else { None })
}

/// `cause` = an observation that identifies one cause whatever the level, path form and wrapper
fn sig_cause(prefix: &str, dl: &str, ul: &str, form: &str, wrap: &str, what: &str, cause: Option<&str>) -> String {
    if let Some(c) = cause {
        return format!("{}:*/*:*:*:{}+{}", prefix, what, c);
    }
    let several = false;
    if dl == "ns" && !several {
        // a namespace created by `.import * as ns`: one cause whatever the level, path and wrapper
        format!("{}:ns/*:*:*:{}", prefix, what)
    } else if several {
        format!("{}:*/*:*:*:{}{}", prefix, what, SEVERAL)
    } else {
        format!("{}:{}/{}:{}:{}:{}", prefix, dl, ul, form, wrap, what)
    }
}

fn src_line<'a>(p: &'a Program, file: usize, line: u32) -> &'a str {
    p.files[file].1.lines().nth(line as usize).unwrap_or("").trim()
}

fn nav_checks(run: &Run, p: &Program, s: &mut Server) -> Result<(), Death> {
    let ctx = run.ctx;
    let spec = p.spec_json();
    let sv = survey(p, s)?;
    let wanted = |req: &str, file: usize, line: u32, ch: u32| -> bool {
        match run.filter {
            None => true,
            Some(f) => {
                f["request"].as_str() == Some(req)
                    && f["file"].as_str() == Some(p.files[file].0.as_str())
                    && f["line"].as_u64() == Some(line as u64)
                    && f["character"].as_u64() == Some(ch as u64)
            }
        }
    };
    // ---- definition at every probe of every occurrence -----------------------------------
    for (oi, o) in p.occs.iter().enumerate() {
        for (col, len, text) in o.probes.iter() {
            let mut positions = vec![*col];
            if *len > 1 {
                positions.push(col + len - 1);
            }
            for ch in positions {
                if !wanted("definition", o.file, o.line, ch) {
                    continue;
                }
                let v = s.request("textDocument/definition", pos_params(&p.files[o.file].0, o.line, ch))?;
                let case = json!({"spec": spec, "files": files_json(&p.files), "request": "definition",
                    "file": p.files[o.file].0, "line": o.line, "character": ch, "token": text});
                ctx.eval(|| case.clone());
                if run.verbose {
                    println!("definition at {}:{}:{} ({}) -> {}", p.files[o.file].0, o.line, ch, text, v);
                }
                let locs = match parse_definition(p, &v) {
                    Ok(l) => l,
                    Err(e) => {
                        run.finding(
                            sig_of("nav:definition", &resolved_label(p, &o.resolved), &o.level, &o.form, o.wrap, "malformed", false),
                            e,
                            case,
                        );
                        continue;
                    }
                };
                if locs.len() > 1 {
                    ctx.count("definition_answers_with_several_targets");
                }
                match &o.resolved {
                    Resolved::Def(d) => {
                        if matches!(o.role, Role::ByBytes(_)) {
                            ctx.count("definition_checked_against_emitted_bytes");
                            ctx.nontrivial(fnv_str(&case.to_string()));
                        } else {
                            ctx.count("definition_checked_by_construction");
                        }
                        let exp = def_loc(&p.defs[*d]);
                        let emitted = match o.role {
                            Role::ByBytes(id) => format!(
                                " (emitted value(s) {:?})",
                                p.uses.iter().find(|u| u.id == id).map(|u| u.emitted.clone()).unwrap_or_default()
                            ),
                            _ => String::new(),
                        };
                        if locs.is_empty() {
                            run.finding(
                                sig_of("nav:definition", &def_label(p, *d), &o.level, &o.form, o.wrap, "missing", sv.several[oi]),
                                format!(
                                    "definition at {}:{}:{} (`{}` in `{}`) returned nothing; the build binds it to `{}` at {}{}",
                                    p.files[o.file].0, o.line, ch, text, src_line(p, o.file, o.line),
                                    p.defs[*d].name, loc_str(&p.files, &exp), emitted
                                ),
                                case,
                            );
                        } else if locs[0] != exp {
                            let to_untaken = untaken_def(p).map_or(false, |u| def_loc(&p.defs[u]) == locs[0]);
                            run.finding(
                                if to_untaken {
                                    sig_cause("nav:definition", "", "", "", "", "wrong-target", Some(UNTAKEN))
                                } else {
                                    sig_of("nav:definition", &def_label(p, *d), &o.level, &o.form, o.wrap, "wrong-target", sv.several[oi])
                                },
                                format!(
                                    "definition at {}:{}:{} (`{}` in `{}`) leads to {} (`{}`) but the build uses the {} definition at {}{}",
                                    p.files[o.file].0, o.line, ch, text, src_line(p, o.file, o.line),
                                    loc_str(&p.files, &locs[0]), src_line(p, locs[0].0, locs[0].1),
                                    def_label(p, *d), loc_str(&p.files, &exp), emitted
                                ),
                                case,
                            );
                        } else {
                            ctx.count("definition_agrees");
                        }
                    }
                    Resolved::SymmetricOnly => {
                        ctx.count(if o.role == Role::Super {
                            "definition_on_super_token_no_verdict"
                        } else {
                            "definition_in_unassembled_code_no_verdict"
                        });
                        if !locs.is_empty() {
                            ctx.count("definition_in_unassembled_code_or_super_answered");
                        }
                    }
                    Resolved::Ambiguous => ctx.count("definition_ambiguous_bytes_no_verdict"),
                }
            }
        }
    }
    // ---- references and highlights ---------------------------------------------------------
    // does occurrence oi refer to d? by the oracle where it has a verdict, by the server's own
    // definition answer otherwise (symmetry)
    let refers = |oi: usize, d: usize| -> Option<bool> {
        let o = &p.occs[oi];
        match &o.resolved {
            Resolved::Def(x) => Some(*x == d),
            Resolved::SymmetricOnly => Some(sv.server_def[oi] == Some(d)),
            Resolved::Ambiguous => None,
        }
    };
    // one finding per request: everything that is missing / extra / asymmetric in its answer
    let compare = |req: &str, label: &str, d: usize, anchor_i: usize, got: &[Loc], incl_decl: bool, only_file: Option<usize>, case: &Value| {
        let anchor = &p.occs[anchor_i];
        let anchored_at_def = matches!(anchor.role, Role::DefSite(_));
        let gotset: BTreeSet<Loc> = got.iter().cloned().collect();
        if gotset.len() != got.len() {
            ctx.count("answers_with_duplicate_locations");
        }
        let dl = def_loc(&p.defs[d]);
        let mut explained: BTreeSet<Loc> = BTreeSet::new();
        let mut whats: BTreeSet<&str> = BTreeSet::new();
        let mut notes: Vec<String> = vec![];
        let mut several = sv.several[anchor_i];
        let mut involved: Vec<usize> = vec![];
        for (oi, o) in p.occs.iter().enumerate() {
            if let Some(f) = only_file {
                if o.file != f {
                    continue;
                }
            }
            let l = occ_loc(o);
            explained.insert(l);
            let is_def_site = matches!(o.role, Role::DefSite(_));
            let expected = match refers(oi, d) {
                Some(r) => r && (incl_decl || !is_def_site),
                None => continue,
            };
            let present = gotset.contains(&l);
            if expected == present {
                continue;
            }
            if expected && !present && p.defs[d].multi && !anchored_at_def {
                // several symbols share this source position (loop iterations, a file imported
                // twice): asked at a use, the server answers for that use's instance only
                ctx.count("occurrences_of_other_instances_of_a_multi_instance_definition_not_judged");
                continue;
            }
            let symmetric = o.resolved == Resolved::SymmetricOnly;
            let what = if symmetric {
                "asymmetric"
            } else if expected {
                "missing"
            } else {
                "extra"
            };
            whats.insert(what);
            involved.push(oi);
            several |= sv.several[oi];
            notes.push(format!(
                "{} {} (`{}`) {}",
                if present { "contains" } else { "lacks" },
                loc_str(&p.files, &l),
                src_line(p, o.file, o.line),
                if symmetric {
                    format!(
                        "although `definition` there {} it (nothing is assembled for it: symmetry only)",
                        if expected { "names" } else { "does not name" }
                    )
                } else if expected {
                    "which the build binds to that definition".to_string()
                } else {
                    format!("which the build binds to {}", resolved_label(p, &o.resolved))
                }
            ));
        }
        let mut whole_file = false;
        for l in gotset.iter() {
            if !explained.contains(l) {
                let in_file = only_file.map(|f| l.0 == f).unwrap_or(true);
                if l.1 != l.3 {
                    whole_file = true;
                    notes.push(format!("contains the multi-line range {}", loc_str(&p.files, l)));
                } else if in_file {
                    whats.insert("extra-unmodelled-range");
                    notes.push(format!("contains {} (`{}`), which is not an identifier occurrence", loc_str(&p.files, l), src_line(p, l.0, l.1)));
                } else {
                    whats.insert("extra-other-file");
                    notes.push(format!("contains {} outside the queried file", loc_str(&p.files, l)));
                }
            }
        }
        if whole_file {
            // the range of a whole (imported) file: one cause, one signature per file
            run.finding(
                format!("nav:{}:*/{}:*:*:whole-file-range", label, anchor.level),
                format!(
                    "{} at {} (`{}`): the answer {}",
                    req,
                    loc_str(&p.files, &occ_loc(anchor)),
                    src_line(p, anchor.file, anchor.line),
                    notes.iter().filter(|n| n.contains("multi-line")).cloned().collect::<Vec<_>>().join("; ")
                ),
                case.clone(),
            );
        }
        if whats.is_empty() {
            if !whole_file {
                ctx.count(&format!("{}_agrees", label));
            }
            return;
        }
        // with several definitions at one position the answers are unions: one signature for all shapes
        let what = if several { "wrong-set".to_string() } else { whats.iter().cloned().collect::<Vec<_>>().join("+") };
        let shown: Vec<String> = notes.iter().filter(|n| !n.contains("multi-line")).take(4).cloned().collect();
        let untaken = untaken_def(p).map_or(false, |u| {
            anchor.role == Role::DefSite(u) || involved.iter().any(|oi| sv.server_def[*oi] == Some(u) || p.occs[*oi].role == Role::DefSite(u))
        });
        run.finding(
            if untaken {
                sig_cause(&format!("nav:{}", label), "", "", "", "", &what, Some(UNTAKEN))
            } else {
                sig_of(&format!("nav:{}", label), &def_label(p, d), &anchor.level, &anchor.form, anchor.wrap, &what, several)
            },
            format!(
                "{} at {} (`{}`, refers to the {} definition `{}` at {}): the answer {}{}",
                req,
                loc_str(&p.files, &occ_loc(anchor)),
                src_line(p, anchor.file, anchor.line),
                def_label(p, d),
                p.defs[d].name,
                loc_str(&p.files, &dl),
                shown.join("; "),
                if notes.len() > shown.len() { format!("; … ({} deviations)", notes.len()) } else { String::new() }
            ),
            case.clone(),
        );
    };
    for (oi, o) in p.occs.iter().enumerate() {
        let (col, _, text) = &o.probes[0];
        // references: on definitions only (that is what the statement talks about)
        if let Role::DefSite(d) = o.role {
            for incl in [true, false] {
                let req = if incl { "references+decl" } else { "references" };
                if !wanted(req, o.file, o.line, *col) {
                    continue;
                }
                let mut params = pos_params(&p.files[o.file].0, o.line, *col);
                params["context"] = json!({ "includeDeclaration": incl });
                let v = s.request("textDocument/references", params)?;
                let case = json!({"spec": spec, "files": files_json(&p.files), "request": req,
                    "file": p.files[o.file].0, "line": o.line, "character": col, "token": text});
                ctx.eval(|| case.clone());
                if run.verbose {
                    println!("{} at {}:{}:{} ({}) -> {}", req, p.files[o.file].0, o.line, col, text, v);
                }
                match parse_locations(p, &v, o.file) {
                    Ok(got) => {
                        if !got.is_empty() {
                            ctx.nontrivial(fnv_str(&case.to_string()));
                            ctx.count("references_answers_nonempty");
                        }
                        compare(req, "references", d, oi, &got, incl, None, &case)
                    }
                    Err(e) => run.finding(
                        sig_of("nav:references", &def_label(p, d), &o.level, &o.form, o.wrap, "malformed", false),
                        e,
                        case,
                    ),
                }
            }
        }
        // highlights: at every occurrence that has a definition
        let d = match &o.resolved {
            Resolved::Def(d) => Some(*d),
            Resolved::SymmetricOnly => sv.server_def[oi],
            Resolved::Ambiguous => None,
        };
        if !wanted("documentHighlight", o.file, o.line, *col) {
            continue;
        }
        let v = s.request("textDocument/documentHighlight", pos_params(&p.files[o.file].0, o.line, *col))?;
        let case = json!({"spec": spec, "files": files_json(&p.files), "request": "documentHighlight",
            "file": p.files[o.file].0, "line": o.line, "character": col, "token": text});
        ctx.eval(|| case.clone());
        if run.verbose {
            println!("documentHighlight at {}:{}:{} ({}) -> {}", p.files[o.file].0, o.line, col, text, v);
        }
        match (parse_locations(p, &v, o.file), d) {
            (Ok(got), Some(d)) => {
                if o.resolved == Resolved::SymmetricOnly {
                    ctx.count("highlight_in_unassembled_code_or_super_symmetry_only");
                }
                compare("documentHighlight", "highlight", d, oi, &got, true, Some(o.file), &case)
            }
            (Ok(got), None) => {
                ctx.count("highlight_without_definition_no_verdict");
                if !got.is_empty() {
                    ctx.count("highlight_without_definition_nonempty");
                    if run.verbose {
                        println!("  (highlight without a definition answer is not empty: no verdict)");
                    }
                }
            }
            (Err(e), _) => run.finding(
                sig_of("nav:highlight", &resolved_label(p, &o.resolved), &o.level, &o.form, o.wrap, "malformed", false),
                e,
                case,
            ),
        }
    }
    Ok(())
}

// ------------------------------------------------------------------------------------------
// C15
// ------------------------------------------------------------------------------------------

type Edits = BTreeMap<usize, Vec<(u32, u32, u32, u32, String)>>;

fn parse_workspace_edit(p: &Program, v: &Value) -> Result<Edits, String> {
    let mut out = BTreeMap::new();
    let changes = match v.get("changes").and_then(|c| c.as_object()) {
        Some(c) => c,
        None => return Err(format!("workspace edit without `changes`: {}", v)),
    };
    for (u, edits) in changes {
        let f = file_of_uri(&p.files, u).ok_or_else(|| format!("edit for a file outside the project: {}", u))?;
        let mut es = vec![];
        for e in edits.as_array().cloned().unwrap_or_default() {
            let r = range_of(&e["range"]).ok_or_else(|| format!("unparsable edit {}", e))?;
            es.push((r.0, r.1, r.2, r.3, e["newText"].as_str().unwrap_or("").to_string()));
        }
        out.insert(f, es);
    }
    Ok(out)
}

/// A workspace edit with the edits of every file sorted (their order carries no meaning).
fn canon_edit(v: &Value) -> Value {
    let mut v = v.clone();
    if let Some(changes) = v.get_mut("changes").and_then(|c| c.as_object_mut()) {
        for (_, edits) in changes.iter_mut() {
            if let Some(a) = edits.as_array_mut() {
                a.sort_by_key(|e| e.to_string());
            }
        }
    }
    v
}

fn rename_request(s: &mut Server, file: &str, line: u32, ch: u32, name: &str) -> Result<Value, Death> {
    let mut params = pos_params(file, line, ch);
    params["newName"] = json!(name);
    s.request("textDocument/rename", params)
}

fn rename_checks(run: &Run, p: &Program, shared: &mut Server, asm0: &Asm) -> Result<(), Death> {
    let ctx = run.ctx;
    let spec = p.spec_json();
    let sv = survey(p, shared)?;
    for (oi, o) in p.occs.iter().enumerate() {
        for (col, len, text) in o.probes.iter() {
            let mut cases: Vec<(u32, &str, &str)> = vec![];
            let mut seen = BTreeSet::new();
            for (ch, class) in [(*col, "start"), (col + len / 2, "middle"), (col + len, "end")] {
                if seen.insert(ch) {
                    cases.push((ch, class, "zz"));
                }
            }
            if text != "q" && text != "sib" {
                cases.push((*col, "start", "q"));
            }
            for (ch, class, new_name) in cases {
                if let Some(f) = run.filter {
                    if !(f["file"].as_str() == Some(p.files[o.file].0.as_str())
                        && f["line"].as_u64() == Some(o.line as u64)
                        && f["character"].as_u64() == Some(ch as u64)
                        && f["new_name"].as_str() == Some(new_name))
                    {
                        continue;
                    }
                }
                let case = json!({"spec": spec, "files": files_json(&p.files), "request": "rename",
                    "file": p.files[o.file].0, "line": o.line, "character": ch, "position": class,
                    "token": text, "new_name": new_name});
                ctx.eval(|| case.clone());
                let at = format!("rename `{}`->`{}` at {}:{}:{} (`{}`)", text, new_name, p.files[o.file].0, o.line, ch, src_line(p, o.file, o.line));
                // -- is a rename offered here? (read-only request: shared server)
                let prep = shared.request("textDocument/prepareRename", pos_params(&p.files[o.file].0, o.line, ch))?;
                if run.verbose {
                    println!("prepareRename at {}:{}:{} -> {}", p.files[o.file].0, o.line, ch, prep);
                }
                if prep.is_null() || prep.get("__error").is_some() {
                    ctx.count(if text == "super" { "rename_not_offered_on_super" } else { "rename_not_offered" });
                    continue;
                }
                ctx.count("rename_offered");
                match range_of(&prep).or_else(|| range_of(&prep["range"])) {
                    Some(r) if r == (o.line, *col, o.line, col + len) => {}
                    _ => ctx.count("prepare_rename_range_differs_from_token"),
                }
                // -- the rename itself, on a fresh server
                let mut s = open_server(&p.files)?;
                let v = rename_request(&mut s, &p.files[o.file].0, o.line, ch, new_name);
                // the request changes nothing (the client has not applied anything yet): asked again, the
                // server has to return the same edit
                let again = if v.is_ok() { Some(rename_request(&mut s, &p.files[o.file].0, o.line, ch, new_name)) } else { None };
                drop(s);
                if let (Ok(first), Some(second)) = (&v, &again) {
                    let same = match second {
                        Ok(second) => canon_edit(first) == canon_edit(second),
                        Err(_) => false,
                    };
                    if !same {
                        run.finding(
                            sig_of("rename", &resolved_label(p, &o.resolved), &o.level, &o.form, o.wrap, "second-request-differs", false),
                            format!("{}: the same request repeated on the same server returns {:?} instead of {}", at, second.as_ref().map(|x| x.to_string()), first),
                            case.clone(),
                        );
                    }
                }
                let v = match v {
                    Ok(v) => v,
                    Err(d) => {
                        run.finding(
                            sig_of("rename", &resolved_label(p, &o.resolved), &o.level, &o.form, o.wrap, "server-died", false),
                            format!("{}: {:?}", at, d),
                            case,
                        );
                        continue;
                    }
                };
                if run.verbose {
                    println!("{} -> {}", at, v);
                }
                if v.is_null() {
                    ctx.count("rename_offered_but_no_edit_returned");
                    continue;
                }
                if v.get("__error").is_some() {
                    ctx.count("rename_offered_but_error_response");
                    continue;
                }
                let edits = match parse_workspace_edit(p, &v) {
                    Ok(e) => e,
                    Err(e) => {
                        run.finding(
                            sig_of("rename", &resolved_label(p, &o.resolved), &o.level, &o.form, o.wrap, "malformed-edit", false),
                            format!("{}: {}", at, e),
                            case,
                        );
                        continue;
                    }
                };
                let n_edits: usize = edits.values().map(|e| e.len()).sum();
                ctx.count("rename_edits_applied");
                ctx.nontrivial(fnv_str(&case.to_string()));
                let target = match &o.resolved {
                    Resolved::Def(d) => Some(*d),
                    _ => None,
                };
                if target.is_some() {
                    ctx.count("rename_cases_with_known_target_definition");
                } else {
                    ctx.count("rename_cases_in_unassembled_code_or_ambiguous");
                }
                // observations that identify a cause whatever the level / path form / wrapper:
                // the edit touches a position that the server attributes to several definitions; it
                // replaces a `super` token; it replaces an `x as y` import argument; the renamed
                // definition exists in several instances (file imported twice, loop body)
                let mut several = sv.several[oi];
                let mut on_super = false;
                let mut on_alias = false;
                let mut multi = target.map(|t| p.defs[t].multi).unwrap_or(false);
                for (f, es) in &edits {
                    for e in es {
                        if let Some(xi) = p.occs.iter().position(|x| x.file == *f && x.line == e.0 && x.c0 == e.1 && x.c1 == e.3) {
                            several |= sv.several[xi];
                            on_super |= p.occs[xi].role == Role::Super;
                            on_alias |= p.occs[xi].probes.len() > 1;
                            if let Resolved::Def(d) = p.occs[xi].resolved {
                                multi |= p.defs[d].multi;
                            }
                        }
                    }
                }
                // the definition in a branch that is not taken: the rename starts at it, at the use the server binds to
                // it, or at the definition that use really refers to
                let on_untaken = untaken_def(p).map_or(false, |u| {
                    let main_use_target = p.occs.iter().find(|x| x.use_id == Some(0) && matches!(x.role, Role::ByBytes(_))).and_then(|x| match x.resolved {
                        Resolved::Def(d) => Some(d),
                        _ => None,
                    });
                    o.role == Role::DefSite(u) || sv.server_def[oi] == Some(u) || (target.is_some() && target == main_use_target)
                });
                let cause = if on_untaken {
                    Some(UNTAKEN)
                } else if several {
                    Some("several-definitions-at-position")
                } else if on_super {
                    Some("edit-replaces-super")
                } else if on_alias {
                    Some("edit-replaces-import-alias-argument")
                } else if multi {
                    Some("definition-with-several-instances")
                } else {
                    None
                };
                let report = |what: &str, msg: String| {
                    run.finding(
                        sig_cause("rename", &resolved_label(p, &o.resolved), &o.level, &o.form, o.wrap, what, cause),
                        format!("{} ({} edits): {}", at, n_edits, msg),
                        case.clone(),
                    );
                };
                // -- (3) every edit range is an identifier occurrence spelled with the old name that
                //        refers to the renamed symbol; none touches comment or string text
                let mut problems: BTreeMap<&str, Vec<String>> = BTreeMap::new();
                for (f, es) in &edits {
                    let lines: Vec<&str> = p.files[*f].1.lines().collect();
                    for (l0, c0, l1, c1, new_text) in es {
                        let here = format!("{}:{}:{}-{}", p.files[*f].0, l0, c0, c1);
                        if l0 != l1 || (*l0 as usize) >= lines.len() || c1 < c0 {
                            problems.entry("edit-wrong-token").or_default().push(format!("edit range {} is not inside one line", here));
                            continue;
                        }
                        let line = lines[*l0 as usize];
                        // (UTF-16 columns -> byte offsets)
                        let (b0, b1) = match (col_to_byte(line, *c0), col_to_byte(line, *c1)) {
                            (Some(a), Some(b)) => (a, b),
                            _ => {
                                problems.entry("edit-wrong-token").or_default().push(format!("edit range {} is not inside one line (`{}`)", here, line.trim()));
                                continue;
                            }
                        };
                        let mut trivia_hit = false;
                        for (a, b, t) in trivia_spans(line) {
                            if (b0 < b && b1 > a) || (b0 == b1 && b0 > a && b0 < b) {
                                let w = if t == Trivia::Comment { "edit-in-comment" } else { "edit-in-string" };
                                problems.entry(w).or_default().push(format!("edit {} -> {:?} lies in `{}`", here, new_text, line.trim()));
                                trivia_hit = true;
                            }
                        }
                        if trivia_hit {
                            continue;
                        }
                        let old = &line[b0..b1];
                        let bytes = line.as_bytes();
                        let boundary_ok = (b0 == 0 || !is_ident_char(bytes[b0 - 1])) && (b1 == bytes.len() || !is_ident_char(bytes[b1])) && !old.is_empty();
                        let spelled = old.split('.').any(|s| s == text) || old.split(" as ").any(|s| s.trim() == text);
                        let hit = p.occs.iter().find(|x| x.file == *f && x.line == *l0 && x.c0 == *c0 && x.c1 == *c1);
                        let refers_elsewhere = match (hit, target) {
                            (Some(x), Some(t)) => match &x.resolved {
                                Resolved::Def(d) => *d != t,
                                _ => false,
                            },
                            _ => false,
                        };
                        if !boundary_ok || !spelled || refers_elsewhere {
                            let why = if !boundary_ok {
                                "does not cover whole identifier tokens".to_string()
                            } else if !spelled {
                                format!("covers `{}`, which is not spelled `{}`", old, text)
                            } else {
                                format!(
                                    "covers an occurrence that the build binds to the {} definition, not to the renamed {} one",
                                    hit.map(|x| resolved_label(p, &x.resolved)).unwrap_or_default(),
                                    resolved_label(p, &o.resolved)
                                )
                            };
                            problems.entry("edit-wrong-token").or_default().push(format!("edit {} -> {:?} {} (line `{}`)", here, new_text, why, line.trim()));
                        }
                    }
                }
                // -- (4) all files with occurrences of the renamed symbol are covered
                if let Some(t) = target {
                    let mut need: BTreeSet<usize> = BTreeSet::new();
                    for x in &p.occs {
                        if x.resolved == Resolved::Def(t) {
                            need.insert(x.file);
                        }
                    }
                    for f in need {
                        if edits.get(&f).map(|e| e.is_empty()).unwrap_or(true) {
                            problems.entry("missing-file").or_default().push(format!("no edit for {} although it contains occurrences of the symbol", p.files[f].0));
                        }
                    }
                }
                // -- (5) occurrences in branches that are not taken (nothing is assembled for them, so a missed one does
                //        not show in the build): those that refer to the renamed symbol are part of the edit
                if let Some(t) = target {
                    let anchored_at_def = matches!(o.role, Role::DefSite(_));
                    for xi in p.twin_resolved.iter() {
                        let x = &p.occs[*xi];
                        if x.resolved != Resolved::Def(t) || (p.defs[t].multi && !anchored_at_def) {
                            continue;
                        }
                        let covered = edits.get(&x.file).map_or(false, |es| es.iter().any(|e| e.0 == x.line && e.2 == x.line && e.1 <= x.c0 && e.3 >= x.c1));
                        if !covered {
                            problems.entry("missing-occurrence-in-untaken-branch").or_default().push(format!(
                                "no edit for {} (`{}`), which refers to the renamed symbol (bound to it when the branch is taken)",
                                loc_str(&p.files, &occ_loc(x)),
                                src_line(p, x.file, x.line)
                            ));
                        }
                    }
                }
                let bad_tokens = !problems.is_empty();
                for (what, msgs) in &problems {
                    report(what, msgs.iter().take(3).cloned().collect::<Vec<_>>().join("; "));
                }
                // -- apply
                let mut new_files = p.files.clone();
                let mut apply_err = None;
                for (f, es) in &edits {
                    match apply_edits(&p.files[*f].1, es) {
                        Ok((t, dups)) => {
                            if dups > 0 {
                                ctx.count("rename_edits_with_identical_duplicates");
                            }
                            new_files[*f].1 = t;
                        }
                        Err(e) => apply_err = Some(e),
                    }
                }
                if let Some(e) = apply_err {
                    report("edit-wrong-token", format!("the edit cannot be applied: {}", e));
                    continue;
                }
                if run.verbose {
                    for (n, t) in &new_files {
                        println!("---- {} after the edit ----\n{}", n, t);
                    }
                }
                // -- (1) assembles without diagnostics to identical bytes
                let asm1 = match assemble(&new_files) {
                    Ok(a) => a,
                    Err(pi) => {
                        report("diagnostics", format!("assembling the edited project panics at {}", pi.site));
                        continue;
                    }
                };
                if run.verbose {
                    println!("edited project: diagnostics {:?}\n  bytes before {:02x?}\n  bytes after  {:02x?}", asm1.diags, asm0.segs, asm1.segs);
                }
                if !asm1.diags.is_empty() {
                    report("diagnostics", format!("the edited project no longer assembles: {}", asm1.diags.join(" | ")));
                    continue;
                }
                if asm1.segs != asm0.segs {
                    report(
                        "bytes",
                        format!(
                            "the edited project assembles to different bytes: {:02x?} instead of {:02x?}",
                            asm1.segs.first().map(|s| s.2.clone()).unwrap_or_default(),
                            asm0.segs.first().map(|s| s.2.clone()).unwrap_or_default()
                        ),
                    );
                    continue;
                }
                ctx.count("rename_edited_project_assembles_identically");
                if bad_tokens {
                    continue;
                }
                // -- (2) renaming back at the moved position restores the original texts
                let mut same_line: Vec<&(u32, u32, u32, u32, String)> = vec![];
                if let Some(es) = edits.get(&o.file) {
                    for e in es {
                        if e.0 == o.line && !same_line.contains(&e) {
                            same_line.push(e);
                        }
                    }
                }
                same_line.sort();
                let mut shift: i64 = 0;
                let mut new_ch: Option<u32> = None;
                for e in &same_line {
                    if e.3 <= *col {
                        shift += e.4.len() as i64 - (e.3 as i64 - e.1 as i64);
                    } else if e.1 <= *col && e.3 >= col + len {
                        // the edit that replaced the token: find the new name in its text
                        let base = e.1 as i64 + shift;
                        let k = if e.1 == *col && e.4.starts_with(new_name) { Some(0) } else { find_segment(&e.4, new_name) };
                        if let Some(k) = k {
                            let rel = match class {
                                "start" => 0,
                                "middle" => new_name.len() / 2,
                                _ => new_name.len(),
                            };
                            new_ch = Some((base + k as i64 + rel as i64) as u32);
                        }
                    }
                }
                let new_ch = match new_ch {
                    Some(c) => c,
                    None => {
                        ctx.count("rename_did_not_edit_the_token_under_the_cursor");
                        (ch as i64 + shift).max(0) as u32
                    }
                };
                let mut s2 = open_server(&new_files)?;
                if !server_diags(&s2).is_empty() {
                    // cannot happen when the in-process assembly is clean; machinery cross-check
                    // (the server also analyses what is not assembled, and may complain about that)
                    ctx.count(&format!("edited_project_builds_cleanly_but_the_server_reports_diagnostics_wrap_{}", spec["wrap"].as_str().unwrap_or("")));
                    if std::env::var("C15_DUMP_SERVER_ONLY").is_ok() {
                        eprintln!("[c15] {} {:?}\n{}", case, server_diags(&open_server(&new_files)?), new_files[0].1);
                    }
                    if run.verbose {
                        println!("fresh server on the edited project reports: {:?}", server_diags(&s2));
                    }
                }
                let back = rename_request(&mut s2, &p.files[o.file].0, o.line, new_ch, text);
                drop(s2);
                let back = match back {
                    Ok(v) => v,
                    Err(d) => {
                        report("not-restored", format!("renaming back `{}`->`{}` at column {}: {:?}", new_name, text, new_ch, d));
                        continue;
                    }
                };
                if run.verbose {
                    println!("rename back `{}`->`{}` at {}:{}:{} -> {}", new_name, text, p.files[o.file].0, o.line, new_ch, back);
                }
                let mut restored = new_files.clone();
                let mut problem: Option<String> = None;
                if back.is_null() || back.get("__error").is_some() {
                    problem = Some(format!("renaming back returned {}", back));
                } else {
                    match parse_workspace_edit(p, &back) {
                        Ok(es) => {
                            for (f, e) in &es {
                                match apply_edits(&new_files[*f].1, e) {
                                    Ok((t, _)) => restored[*f].1 = t,
                                    Err(e) => problem = Some(format!("the edit of renaming back cannot be applied: {}", e)),
                                }
                            }
                        }
                        Err(e) => problem = Some(e),
                    }
                }
                if problem.is_none() && restored != p.files {
                    let mut diff = vec![];
                    for (i, (n, t)) in restored.iter().enumerate() {
                        for (k, (a, b)) in t.lines().zip(p.files[i].1.lines()).enumerate() {
                            if a != b {
                                diff.push(format!("{}:{}: `{}` instead of `{}`", n, k, a.trim(), b.trim()));
                            }
                        }
                    }
                    problem = Some(format!("texts differ: {}", diff.join(" | ")));
                }
                match problem {
                    Some(pr) => report("not-restored", format!("then back to `{}` at column {}: {}", text, new_ch, pr)),
                    None => ctx.count("rename_round_trip_restored_original"),
                }
            }
        }
    }
    Ok(())
}

/// byte offset of `name` as a whole path segment (or alias) in `text`
fn find_segment(text: &str, name: &str) -> Option<usize> {
    let b = text.as_bytes();
    let mut from = 0;
    while let Some(k) = text[from..].find(name) {
        let a = from + k;
        let e = a + name.len();
        if (a == 0 || !is_ident_char(b[a - 1])) && (e == b.len() || !is_ident_char(b[e])) {
            return Some(a);
        }
        from = a + 1;
    }
    None
}

// ------------------------------------------------------------------------------------------
// driver
// ------------------------------------------------------------------------------------------

fn run_program(run: &Run, spec: &Spec, prefix: &'static str, c15: bool) {
    let ctx = run.ctx;
    let mut p = generate(spec).with_line_prefix(prefix);
    if !prefix.is_empty() {
        ctx.count(&format!("programs_with_line_prefix_{}", p.spec_json()["line_prefix"].as_str().unwrap_or("")));
    }
    ctx.count("programs_generated");
    let mut s = match open_server(&p.files) {
        Ok(s) => s,
        Err(d) => {
            ctx.count("programs_server_died_on_open");
            run.finding(
                format!("{}:open:server-died", if c15 { "rename" } else { "nav" }),
                format!("{:?}", d),
                json!({"spec": p.spec_json(), "files": files_json(&p.files)}),
            );
            return;
        }
    };
    let diags = server_diags(&s);
    if run.verbose {
        for (n, t) in &p.files {
            println!("---- {} ----\n{}", n, t);
        }
        println!("publishDiagnostics of the fresh server: {:?}", diags);
    }
    if !diags.is_empty() {
        ctx.count("programs_out_of_scope_diagnostics");
        return;
    }
    let asm = match assemble(&p.files) {
        Ok(a) => a,
        Err(pi) => {
            ctx.count("machinery_inprocess_assembly_panicked");
            ctx.cap(format!("in-process assembly panicked at {}", pi.site));
            return;
        }
    };
    if !asm.diags.is_empty() {
        // the build rejects the program (the server, which also looks at what is not assembled, does not): not an
        // error-free project
        ctx.count("programs_out_of_scope_the_build_reports_errors_the_server_does_not");
        return;
    }
    if let Err(e) = resolve(&mut p, &asm) {
        // `.word a` where the only `a` in reach is the macro itself: the implementation emits nothing for it (and
        // reports nothing); such a program has no use to judge
        if e == "word payload of 0 bytes" && spec.to_json()["wrap"] == "macro-named-a" {
            ctx.count("out_of_scope_use_refers_to_the_macro_itself");
            return;
        }
        ctx.count("machinery_layout_assumption_broken");
        ctx.cap(format!("{} for {}", e, spec.to_json()));
        return;
    }
    // uses in branches that are not taken: bound as in the twin program, where they are assembled
    let wrap_name = WRAPS[match spec {
        Spec::Base { wrap, .. } => *wrap,
        Spec::Import { wrap, .. } => *wrap,
    }];
    if cond_shape(wrap_name).is_some() && p.occs.iter().any(|o| o.wrap == wrap_name && o.resolved == Resolved::SymmetricOnly && o.role != Role::Super) {
        let mut t = generate_twin(spec).with_line_prefix(prefix);
        let same_layout = t.occs.len() == p.occs.len()
            && t.defs.len() == p.defs.len()
            && t.occs.iter().zip(p.occs.iter()).all(|(a, b)| (a.file, a.line, a.c0, a.c1) == (b.file, b.line, b.c0, b.c1));
        if !same_layout {
            ctx.count("machinery_layout_assumption_broken");
            ctx.cap(format!("the twin of {} is laid out differently", spec.to_json()));
            return;
        }
        match assemble(&t.files) {
            Ok(tasm) if tasm.diags.is_empty() => {
                if resolve(&mut t, &tasm).is_ok() {
                    for i in 0..p.occs.len() {
                        if p.occs[i].wrap == wrap_name && p.occs[i].resolved == Resolved::SymmetricOnly && p.occs[i].role != Role::Super {
                            if let Resolved::Def(d) = t.occs[i].resolved {
                                p.occs[i].resolved = Resolved::Def(d);
                                p.twin_resolved.insert(i);
                                ctx.count("occurrences_in_untaken_branches_bound_as_in_the_twin_with_all_branches_taken");
                            }
                        }
                    }
                } else {
                    ctx.count("twin_programs_without_a_verdict");
                }
            }
            // (the twin has an error, e.g. the path does not resolve: the use has no binding; symmetry only)
            _ => ctx.count("twin_programs_not_error_free_(symmetry_only)"),
        }
    }
    ctx.count("programs_in_scope");
    ctx.count(&format!("programs_in_scope_wrap_{}", WRAPS[match spec {
        Spec::Base { wrap, .. } => *wrap,
        Spec::Import { wrap, .. } => *wrap,
    }]));
    if run.verbose {
        println!("bytes: {:02x?}", asm.segs);
        for d in &p.defs {
            println!("definition `{}` ({}) at {} values {:?}", d.name, d.level, loc_str(&p.files, &def_loc(d)), d.values);
        }
        for o in &p.occs {
            println!("occurrence {} {:?} level={} form={} wrap={} -> {:?}", loc_str(&p.files, &occ_loc(o)), o.role, o.level, o.form, o.wrap, o.resolved);
        }
    }
    for o in &p.occs {
        match (&o.role, &o.resolved) {
            (Role::ByBytes(_), Resolved::Def(d)) => {
                ctx.count("uses_identified_by_emitted_bytes");
                ctx.count(&format!("binding_of_use_in_{}_to_definition_in_{}", o.level, def_label(&p, *d)));
            }
            (Role::ByBytes(_), Resolved::SymmetricOnly) => ctx.count("uses_without_emitted_bytes"),
            (Role::ByBytes(_), Resolved::Ambiguous) => ctx.count("uses_with_ambiguous_bytes"),
            _ => {}
        }
    }
    let r = if c15 { rename_checks(run, &p, &mut s, &asm) } else { nav_checks(run, &p, &mut s) };
    if let Err(d) = r {
        run.finding(
            format!("{}:server-died", if c15 { "rename" } else { "nav" }),
            format!("the server died while answering: {:?}", d),
            json!({"spec": p.spec_json(), "files": files_json(&p.files)}),
        );
    }
}

pub fn run(ctx: &Ctx, replay: Option<&Value>) -> i32 {
    let _ = crate::lspdrv::root();
    let c15 = ctx.id == "C15";
    if let Some(case) = replay {
        let spec = match Spec::from_json(&case["spec"]) {
            Some(s) => s,
            None => {
                eprintln!("replay case has no usable `spec`");
                return 2;
            }
        };
        let run = Run { ctx, verbose: true, filter: if case.get("request").is_some() { Some(case) } else { None }, reproduced: Default::default() };
        let prefix = PREFIXES.iter().find(|x| Some(x.0) == case["spec"]["line_prefix"].as_str()).map(|x| x.1).unwrap_or("");
        run_program(&run, &spec, prefix, c15);
        crate::lspdrv::cleanup_root();
        let n = run.reproduced.load(std::sync::atomic::Ordering::Relaxed);
        println!("{} replay: {} failing check(s)", ctx.id, n);
        return if n > 0 { 1 } else { 0 };
    }
    // (a navigation case is one request on a shared server: C16 runs all wrappers in both tiers)
    let mut specs = catalogue(ctx.tier.is_thorough() || !c15);
    if c15 && !ctx.tier.is_thorough() {
        // a rename case costs two fresh servers: the quick tier keeps one statement order
        specs.retain(|s| match s {
            Spec::Base { use_first, .. } => !*use_first,
            Spec::Import { import_last, .. } => !*import_last,
        });
    }
    ctx.set("catalogue_size", json!(specs.len()));
    let run = Run { ctx, verbose: false, filter: None, reproduced: Default::default() };
    // the same programs with non-ASCII text in front of every line (the positions of the protocol count UTF-16 code
    // units): the unwrapped use, definitions first; thorough: each of them with each prefix, quick: every 5th, the
    // prefixes in turn
    let mut work: Vec<(&Spec, &'static str)> = specs.iter().map(|s| (s, "")).collect();
    let mut k = 0usize;
    for s in specs.iter() {
        let plain = match s {
            Spec::Base { wrap, use_first, .. } => *wrap == 0 && !*use_first,
            Spec::Import { wrap, import_last, .. } => *wrap == 0 && !*import_last,
        };
        if !plain {
            continue;
        }
        k += 1;
        if ctx.tier.is_thorough() {
            for (_, pre) in PREFIXES.iter().skip(1) {
                work.push((s, pre));
            }
        } else if k % 5 == 0 {
            work.push((s, PREFIXES[1 + (k / 5) % 3].1));
        }
    }
    ctx.set("programs_with_a_line_prefix", json!(work.len() - specs.len()));
    work.par_iter().for_each(|(spec, prefix)| run_program(&run, spec, prefix, c15));
    crate::lspdrv::cleanup_root();
    ctx.set(
        "bound",
        json!({
            "levels": 3, "definition_kinds": ["none", "label", "const"], "path_forms": FORMS,
            "wrappers": if ctx.tier.is_thorough() || !c15 { WRAPS.to_vec() } else { vec!["none", "if0-else-untaken", "untaken-def-nearer", "expr-repeat", "macro-named-a", "macro-arg-same-name"] },
            "orders": if c15 && !ctx.tier.is_thorough() { json!(["definitions-first"]) } else { json!(["definitions-first (all wrappers)", "uses-first (unwrapped use only)"]) },
            "imports": IMPORTS,
            "positions": if c15 { json!(["start", "middle", "end"]) } else { json!(["first char", "last char"]) },
            "new_names": if c15 { json!(["zz", "q (defined only in sibling scope `sib`)"]) } else { json!(null) },
        }),
    );
    if c15 {
        ctx.finish(
            "exploration",
            "a rename was offered at the position, a workspace edit was returned and applied (distinct program x position x new name)",
            true,
            &[
                "programs are in scope only if a fresh server publishes no diagnostics for them; the rest is counted",
                "'assembles' is judged by an in-process mos_core build with the options of `mos build`",
                "offered-but-no-edit is counted, not judged; identical duplicate edits are dropped before applying (counted)",
                "identifiers are ASCII; the non-ASCII text is a comment in front of each line (2-, 3- and 4-byte characters), columns are UTF-16 columns",
                "each rename runs on a fresh server; prepareRename (read-only) shares one server per program",
            ],
        )
    } else {
        ctx.finish(
            "exploration",
            "definition request whose expected target is identified by the assembled bytes, or references request with a non-empty answer",
            true,
            &[
                "programs are in scope only if a fresh server publishes no diagnostics for them; the rest is counted",
                "the definition a use binds to is read off the bytes of an in-process mos_core build with the options of `mos build`",
                "occurrences for which nothing is assembled (uninvoked macro, untaken branch) and `super` tokens: symmetry between definition and references only",
                "answers are compared as sets of (uri, range); the whole `x as y` import argument counts as one occurrence",
                "references is queried on definitions, documentHighlight on every occurrence",
            ],
        )
    }
}
