//! C20 – shutdown is clean in every session state.
//!
//! Layer 1 (decides): every client-visible shutdown history (session state x order of LSP
//! shutdown/exit, DAP disconnect, closing the pipe x inter-message gaps) is run against the real
//! `mos lsp` process; exit status, time to exit (5 s horizon – "promptly" is part of the
//! property), stderr panics and whether the debug port is free afterwards are observed.
//! Layer 2: a Promela model of the shutdown protocol (`models/shutdown.pml`) explored exhaustively
//! by spin; every observed (history -> outcome) must be in the model's outcome set for that
//! history, otherwise the model is stale (machinery error).

use mvlib::{fnv_str, Ctx, Finding};
use rayon::prelude::*;
use serde_json::{json, Value};
use std::io::{BufRead, BufReader, Read, Write};
use std::net::{TcpListener, TcpStream};
use std::path::{Path, PathBuf};
use std::process::{Child, Command, Stdio};
use std::time::{Duration, Instant};

#[derive(Clone, Copy, Debug, PartialEq, Eq, Hash)]
pub enum State {
    NoDebugger,
    AttachedIdle,
    TestRunning,
    TestPaused,
    TestFinished,
    /// `launch` answered, `configurationDone` not sent yet
    TestLaunched,
    /// as TestLaunched, and the client has already asked for `pause` (a client may send requests in any order)
    TestLaunchedPauseSent,
}

#[derive(Clone, Copy, Debug, PartialEq, Eq, Hash)]
pub enum Action {
    LspShutdown,
    LspExit,
    DapDisconnect,
    CloseStdin,
    CloseTcp,
    /// a debugger attaches (TCP connect + `initialize`) and stays connected
    DapConnect,
    /// `disconnect` with the optional arguments a client may send (`terminateDebuggee: false`, `restart: false`)
    DapDisconnectKeep,
}

pub const STATES: [State; 7] = [
    State::NoDebugger,
    State::AttachedIdle,
    State::TestRunning,
    State::TestPaused,
    State::TestFinished,
    State::TestLaunched,
    State::TestLaunchedPauseSent,
];

pub fn orders(state: State) -> Vec<(&'static str, Vec<Action>)> {
    use Action::*;
    let mut v = vec![("shutdown,exit", vec![LspShutdown, LspExit]), ("close-stdin", vec![CloseStdin])];
    if state != State::NoDebugger {
        v.push(("disconnect,shutdown,exit", vec![DapDisconnect, LspShutdown, LspExit]));
        v.push(("shutdown,disconnect,exit", vec![LspShutdown, DapDisconnect, LspExit]));
        v.push(("shutdown,exit,disconnect", vec![LspShutdown, LspExit, DapDisconnect]));
        v.push(("close-stdin,close-tcp", vec![CloseStdin, CloseTcp]));
        v.push(("close-tcp,shutdown,exit", vec![CloseTcp, LspShutdown, LspExit]));
        v.push(("disconnect-keep,shutdown,exit", vec![DapDisconnectKeep, LspShutdown, LspExit]));
    } else {
        // a debugger that attaches while the server is on its way out
        v.push(("shutdown,connect,exit", vec![LspShutdown, DapConnect, LspExit]));
        v.push(("shutdown,exit,connect", vec![LspShutdown, LspExit, DapConnect]));
        v.push(("close-stdin,connect", vec![CloseStdin, DapConnect]));
    }
    v
}

pub fn frame(v: &Value) -> Vec<u8> {
    let body = v.to_string();
    format!("Content-Length: {}\r\n\r\n{}", body.len(), body).into_bytes()
}

pub fn read_frames<R: Read + Send + 'static>(r: R) -> std::sync::mpsc::Receiver<Value> {
    let (tx, rx) = std::sync::mpsc::channel();
    std::thread::spawn(move || {
        let mut r = BufReader::new(r);
        loop {
            let mut len = 0usize;
            loop {
                let mut line = String::new();
                match r.read_line(&mut line) {
                    Ok(0) | Err(_) => return,
                    Ok(_) => {}
                }
                let l = line.trim();
                if l.is_empty() {
                    break;
                }
                if let Some(v) = l.strip_prefix("Content-Length:") {
                    len = v.trim().parse().unwrap_or(0);
                }
            }
            let mut buf = vec![0u8; len];
            if r.read_exact(&mut buf).is_err() {
                return;
            }
            if let Ok(v) = serde_json::from_slice::<Value>(&buf) {
                if tx.send(v).is_err() {
                    return;
                }
            }
        }
    });
    rx
}

#[derive(Clone, Debug)]
pub struct Outcome {
    pub exit: String,
    pub within_horizon: bool,
    pub exit_ms: u128,
    pub port_free: bool,
    pub panics: Vec<String>,
    pub setup_ok: bool,
}

impl Outcome {
    pub fn class(&self) -> String {
        if !self.within_horizon {
            "HANG".to_string()
        } else {
            format!("exit-{}", self.exit)
        }
    }
}

pub fn wait_for(rx: &std::sync::mpsc::Receiver<Value>, pred: impl Fn(&Value) -> bool, ms: u64) -> bool {
    let deadline = Instant::now() + Duration::from_millis(ms);
    loop {
        let left = deadline.saturating_duration_since(Instant::now());
        if left.is_zero() {
            return false;
        }
        match rx.recv_timeout(left) {
            Ok(v) => {
                if pred(&v) {
                    return true;
                }
            }
            Err(_) => return false,
        }
    }
}

pub fn run_history(bin: &str, dir: &Path, port: u16, state: State, actions: &[Action], gaps_ms: &[u64]) -> Outcome {
    let _ = std::fs::remove_dir_all(dir);
    std::fs::create_dir_all(dir).unwrap();
    let program = match state {
        State::TestFinished => "nop\n.test \"t\" {\nbrk\n}\n",
        _ => "nop\n.test \"t\" {\nl: inx\njmp l\n}\n",
    };
    std::fs::write(dir.join("main.asm"), program).unwrap();
    std::fs::write(dir.join("mos.toml"), "[build]\nentry = \"main.asm\"\n").unwrap();
    let mut child: Child = Command::new(bin)
        .args(["lsp", "-p", &port.to_string()])
        .current_dir(dir)
        .stdin(Stdio::piped())
        .stdout(Stdio::piped())
        .stderr(Stdio::piped())
        .spawn()
        .expect("cannot spawn mos lsp");
    let mut stdin = child.stdin.take();
    let lsp_rx = read_frames(child.stdout.take().unwrap());
    let mut stderr = child.stderr.take().unwrap();
    let err_thread = std::thread::spawn(move || {
        let mut s = String::new();
        let _ = stderr.read_to_string(&mut s);
        s
    });
    let mut setup_ok = true;
    let send_lsp = |stdin: &mut Option<std::process::ChildStdin>, v: Value| {
        if let Some(s) = stdin.as_mut() {
            let _ = s.write_all(&frame(&v));
            let _ = s.flush();
        }
    };
    send_lsp(&mut stdin, json!({"jsonrpc": "2.0", "id": 1, "method": "initialize", "params": {"capabilities": {}}}));
    setup_ok &= wait_for(&lsp_rx, |v| v["id"] == 1, 5000);
    send_lsp(&mut stdin, json!({"jsonrpc": "2.0", "method": "initialized", "params": {}}));
    let uri = format!("file://{}/main.asm", dir.display());
    send_lsp(&mut stdin, json!({"jsonrpc": "2.0", "method": "textDocument/didOpen", "params": {"textDocument": {"uri": uri, "languageId": "asm", "version": 1, "text": program}}}));
    send_lsp(&mut stdin, json!({"jsonrpc": "2.0", "id": 2, "method": "textDocument/documentSymbol", "params": {"textDocument": {"uri": uri}}}));
    setup_ok &= wait_for(&lsp_rx, |v| v["id"] == 2, 5000);

    // ---- debugger
    let mut tcp: Option<TcpStream> = None;
    let mut dap_rx = None;
    let mut seq = 1;
    if state != State::NoDebugger {
        let mut stream = None;
        for _ in 0..100 {
            match TcpStream::connect(("127.0.0.1", port)) {
                Ok(s) => {
                    stream = Some(s);
                    break;
                }
                Err(_) => std::thread::sleep(Duration::from_millis(20)),
            }
        }
        match stream {
            Some(s) => {
                let _ = s.set_nodelay(true);
                dap_rx = Some(read_frames(s.try_clone().unwrap()));
                tcp = Some(s);
            }
            None => setup_ok = false,
        }
    }
    let mut send_dap = |tcp: &mut Option<TcpStream>, command: &str, args: Value| -> i64 {
        let s = seq;
        seq += 1;
        if let Some(t) = tcp.as_mut() {
            let _ = t.write_all(&frame(&json!({"seq": s, "type": "request", "command": command, "arguments": args})));
            let _ = t.flush();
        }
        s
    };
    if let (Some(_), Some(rx)) = (&tcp, &dap_rx) {
        let s = send_dap(&mut tcp, "initialize", json!({"adapterID": "mos", "linesStartAt1": true, "columnsStartAt1": true}));
        setup_ok &= wait_for(rx, |v| v["type"] == "response" && v["request_seq"] == s, 5000);
        if state != State::AttachedIdle {
            let s = send_dap(&mut tcp, "launch", json!({"workspace": dir.display().to_string(), "testRunner": {"testCaseName": "t"}}));
            setup_ok &= wait_for(rx, |v| v["type"] == "response" && v["request_seq"] == s && v["success"] == true, 5000);
            if state == State::TestLaunchedPauseSent {
                let _ = send_dap(&mut tcp, "pause", json!({"threadId": 1}));
                std::thread::sleep(Duration::from_millis(60));
            }
            if state != State::TestLaunched && state != State::TestLaunchedPauseSent {
                let s = send_dap(&mut tcp, "configurationDone", json!(null));
                setup_ok &= wait_for(rx, |v| v["type"] == "response" && v["request_seq"] == s, 5000);
            }
            match state {
                State::TestRunning => std::thread::sleep(Duration::from_millis(60)),
                State::TestPaused => {
                    std::thread::sleep(Duration::from_millis(60));
                    let _ = send_dap(&mut tcp, "pause", json!({"threadId": 1}));
                    setup_ok &= wait_for(rx, |v| v["type"] == "event" && v["event"] == "stopped", 5000);
                }
                State::TestFinished => {
                    setup_ok &= wait_for(rx, |v| v["type"] == "event" && v["event"] == "terminated", 5000);
                }
                _ => {}
            }
        }
    }

    // ---- the shutdown history
    let start = Instant::now();
    let mut req_id = 100;
    for (i, a) in actions.iter().enumerate() {
        if i > 0 {
            let g = gaps_ms.get(i - 1).copied().unwrap_or(0);
            if g > 0 {
                std::thread::sleep(Duration::from_millis(g));
            }
        }
        match a {
            Action::LspShutdown => {
                req_id += 1;
                send_lsp(&mut stdin, json!({"jsonrpc": "2.0", "id": req_id, "method": "shutdown", "params": null}));
                // a client waits for the response before it sends `exit`
                let id = req_id;
                let _ = wait_for(&lsp_rx, |v| v["id"] == id, 2000);
            }
            Action::LspExit => send_lsp(&mut stdin, json!({"jsonrpc": "2.0", "method": "exit", "params": null})),
            Action::DapDisconnect => {
                let _ = send_dap(&mut tcp, "disconnect", json!({}));
            }
            Action::DapDisconnectKeep => {
                let _ = send_dap(&mut tcp, "disconnect", json!({"restart": false, "terminateDebuggee": false}));
            }
            Action::CloseStdin => {
                stdin = None;
            }
            Action::CloseTcp => {
                if let Some(t) = tcp.take() {
                    let _ = t.shutdown(std::net::Shutdown::Both);
                }
            }
            Action::DapConnect => {
                // (a refused connection - the process may be gone already - is simply no session)
                for _ in 0..10 {
                    match TcpStream::connect(("127.0.0.1", port)) {
                        Ok(s) => {
                            let _ = s.set_nodelay(true);
                            tcp = Some(s);
                            break;
                        }
                        Err(_) => {
                            if matches!(child.try_wait(), Ok(Some(_))) {
                                break;
                            }
                            std::thread::sleep(Duration::from_millis(10))
                        }
                    }
                }
                let _ = send_dap(&mut tcp, "initialize", json!({"adapterID": "mos", "linesStartAt1": true, "columnsStartAt1": true}));
            }
        }
    }
    // ---- observe
    let horizon = Duration::from_secs(5);
    let mut exit = String::from("none");
    let mut within = false;
    loop {
        match child.try_wait() {
            Ok(Some(st)) => {
                use std::os::unix::process::ExitStatusExt;
                exit = match (st.code(), st.signal()) {
                    (Some(c), _) => c.to_string(),
                    (None, Some(s)) => format!("signal{}", s),
                    _ => "unknown".into(),
                };
                within = true;
                break;
            }
            Ok(None) => {
                if start.elapsed() > horizon {
                    break;
                }
                std::thread::sleep(Duration::from_millis(5));
            }
            Err(_) => break,
        }
    }
    let exit_ms = start.elapsed().as_millis();
    if !within {
        let _ = child.kill();
        let _ = child.wait();
    }
    drop(stdin);
    drop(tcp);
    let stderr_text = err_thread.join().unwrap_or_default();
    let panics: Vec<String> = stderr_text
        .lines()
        .filter(|l| l.contains("panicked at"))
        .map(|l| {
            // keep file:line only
            l.split("panicked at ").nth(1).unwrap_or(l).split(':').take(2).collect::<Vec<_>>().join(":").replace("'", "")
        })
        .collect();
    // is the debug port free again?
    std::thread::sleep(Duration::from_millis(20));
    let port_free = TcpListener::bind(("127.0.0.1", port)).is_ok();
    let _ = std::fs::remove_dir_all(dir);
    Outcome {
        exit,
        within_horizon: within,
        exit_ms,
        port_free,
        panics,
        setup_ok,
    }
}

fn gap_patterns(n_gaps: usize, thorough: bool) -> Vec<Vec<u64>> {
    if n_gaps == 0 {
        return vec![vec![]];
    }
    let menu: Vec<u64> = if thorough { vec![0, 20, 200] } else { vec![20] };
    let mut out: Vec<Vec<u64>> = vec![vec![]];
    for _ in 0..n_gaps {
        let mut next = vec![];
        for p in &out {
            for g in &menu {
                let mut q = p.clone();
                q.push(*g);
                next.push(q);
            }
        }
        out = next;
    }
    out
}

pub fn run(ctx: &Ctx, replay: Option<&Value>) -> i32 {
    let bin = std::env::var("MOS_BIN").unwrap_or_else(|_| "/verif/.build/bin/release/mos".into());
    if !Path::new(&bin).exists() {
        eprintln!("MACHINERY: {} not built", bin);
        return 2;
    }
    let thorough = ctx.tier.is_thorough();
    let scratch: PathBuf = ctx.verif_root.join(".build/scratch/c20").join(std::process::id().to_string());
    if let Some(case) = replay {
        println!("re-run `./check C20`; case: {}", case);
        return 0;
    }
    // ---- layer 2: the model's outcome sets
    let model = match super::c20_model::outcome_sets(ctx, true) {
        Ok(m) => m,
        Err(e) => {
            eprintln!("MACHINERY: spin model: {}", e);
            return 2;
        }
    };
    // self-test of the model: the protocol as it was before repair 8dc9ff0 must reach HANG in exactly
    // the three late-attach histories (a model that cannot see that hang decides nothing)
    match super::c20_model::outcome_sets(ctx, false) {
        Ok(m) => {
            let mut hangs: Vec<String> = m.iter().filter(|(_, v)| v.contains("HANG")).map(|((s, o), _)| format!("{}/{}", s, o)).collect();
            hangs.sort();
            let expect = vec!["NoDebugger/close-stdin,connect", "NoDebugger/shutdown,connect,exit", "NoDebugger/shutdown,exit,connect"];
            ctx.set("model_selftest_unrepaired_protocol_hangs", json!(hangs));
            if hangs != expect {
                eprintln!("MACHINERY: model self-test: unrepaired protocol hangs in {:?}, expected {:?}", hangs, expect);
                return 2;
            }
        }
        Err(e) => {
            eprintln!("MACHINERY: spin model (self-test): {}", e);
            return 2;
        }
    }
    // a hang the model can reach is a violation candidate: it counts when the real process shows it
    for ((s, o), v) in model.iter() {
        if v.iter().any(|x| x != "exit-0") {
            ctx.note(format!("the model reaches {:?} for {}/{}", v, s, o));
            ctx.count("model_reaches_non_clean_outcome");
        }
    }
    // ---- layer 1
    let mut work = vec![];
    for st in STATES.iter() {
        for (oname, acts) in orders(*st) {
            for gaps in gap_patterns(acts.len() - 1, thorough) {
                work.push((*st, oname, acts.clone(), gaps));
            }
        }
    }
    ctx.set("histories", json!(work.len()));
    let base_port = 23000 + (std::process::id() % 1000) as u16 * 8;
    let pool = rayon::ThreadPoolBuilder::new().num_threads(8).build().unwrap();
    let results: Vec<_> = pool.install(|| {
        work.par_iter()
            .enumerate()
            .map(|(i, (st, oname, acts, gaps))| {
                let port = base_port + (rayon::current_thread_index().unwrap_or(0) as u16);
                let dir = scratch.join(format!("h{}", i));
                // run twice: an outcome that is not reproducible is a machinery problem, not a verdict
                let a = run_history(&bin, &dir, port, *st, acts, gaps);
                let b = run_history(&bin, &dir, port, *st, acts, gaps);
                (st, oname, acts, gaps, a, b)
            })
            .collect()
    });
    let mut validated = 0u64;
    let mut transitions = 0u64;
    let mut states = std::collections::HashSet::new();
    for (st, oname, acts, gaps, a, b) in results {
        transitions += 2;
        ctx.eval(|| json!({"state": format!("{:?}", st), "order": oname, "gaps_ms": gaps}));
        ctx.nontrivial(fnv_str(&format!("{:?}{}{:?}", st, oname, gaps)));
        let case = json!({"state": format!("{:?}", st), "order": oname, "actions": acts.iter().map(|x| format!("{:?}", x)).collect::<Vec<_>>(), "gaps_ms": gaps});
        if !a.setup_ok || !b.setup_ok {
            ctx.cap(format!("session setup failed for {:?}/{} (no verdict)", st, oname));
            continue;
        }
        if a.class() != b.class() || a.port_free != b.port_free {
            ctx.count("not_reproducible");
            ctx.note(format!("outcome of {:?}/{}/{:?} not reproducible: {:?} vs {:?}", st, oname, gaps, a, b));
        }
        for o in [&a, &b] {
            states.insert(format!("{:?}|{}|{}|{}", st, oname, o.class(), o.port_free));
            // conformance: the observed outcome class must be allowed by the model for this history
            match model.get(&(format!("{:?}", st), oname.to_string())) {
                Some(set) => {
                    if set.contains(&o.class()) {
                        validated += 1;
                    } else {
                        ctx.count("model_mismatch");
                        ctx.note(format!("model stale: {:?}/{} observed {} but the model allows {:?}", st, oname, o.class(), set));
                    }
                }
                None => {
                    ctx.count("history_not_in_model");
                }
            }
            let clean = o.within_horizon && o.exit == "0" && o.port_free && o.panics.is_empty();
            if !clean {
                let what = if !o.within_horizon {
                    "HANG".to_string()
                } else if o.exit != "0" {
                    format!("exit-{}", o.exit)
                } else if !o.port_free {
                    "port-bound".to_string()
                } else {
                    "panic-on-stderr".to_string()
                };
                let site = o.panics.first().cloned().unwrap_or_default();
                ctx.finding(Finding::new(
                    format!("shutdown:{:?}:{}:{}:{}", st, oname, what, site),
                    format!(
                        "state {:?}, order {}, gaps {:?} ms: exit status {}, exited within 5 s: {}, after {} ms, debug port free afterwards: {}, panics: {:?}",
                        st, oname, gaps, o.exit, o.within_horizon, o.exit_ms, o.port_free, o.panics
                    ),
                    case.clone(),
                ));
            }
        }
    }
    let _ = std::fs::remove_dir_all(&scratch);
    ctx.set("states", json!(states.len().max(1) + model.len()));
    ctx.set("transitions", json!(transitions.max(1)));
    ctx.set("traces_validated_against_impl", json!(validated));
    ctx.set("model_histories", json!(model.len()));
    let mismatch = ctx.counter("model_mismatch") > 0;
    if mismatch {
        ctx.cap("the Promela model does not allow an observed outcome (see notes)");
    }
    let code = ctx.finish(
        "model_checking",
        "all client-visible shutdown histories: 7 session states (no debugger, attached idle, test launched but not started, the same with a `pause` already requested, running, paused, finished) x 11 orders of LSP shutdown/exit, DAP disconnect (plain and with `terminateDebuggee: false`), a debugger attaching late, closing stdin, closing the TCP connection x inter-message gap patterns, each run twice on the real `mos lsp` process (stdio + TCP); observed: exit status, exit within a 5 s horizon, debug port free afterwards, panics on stderr. A Promela model of the shutdown protocol is explored exhaustively with spin and every observed outcome must lie in the model's outcome set for that history",
        true,
        &[
            "timing is a finite menu of gaps (20 ms quick; 0/20/200 ms thorough); interleavings inside the real process are not controlled",
            "'promptly' = within 5 s",
            "the Promela model is hand-written and bound to the code only through outcome conformance on all enumerated histories",
        ],
    );
    // a violation found on the real process is a verdict; a model that merely disagrees (with no
    // violation) is a stale model = machinery error
    if code == 0 && mismatch {
        eprintln!("MACHINERY: the Promela model disagrees with the real process (see evidence notes)");
        return 2;
    }
    code
}
