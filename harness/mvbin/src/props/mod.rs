use mvlib::Ctx;
use serde_json::Value;

pub mod c14;
pub mod c14_real;
pub mod c15;
pub mod c17;
pub mod c18;
pub mod c19;
pub mod c19_dap;
pub mod c20;
pub mod c20_model;

pub fn dispatch(ctx: &Ctx, replay: Option<&Value>, rest: &[String]) -> i32 {
    match ctx.id.as_str() {
        "C14" => c14::run(ctx, replay),
        // C15 and C16 share one program catalogue; ctx.id decides which oracle is reported
        "C15" | "C16" => c15::run(ctx, replay),
        "C17" => c17::run(ctx, replay),
        "C18" => c18::run(ctx, replay),
        "C19" => c19::run(ctx, replay, rest),
        "C20" => c20::run(ctx, replay),
        other => {
            eprintln!("mvbin: unknown property {}", other);
            2
        }
    }
}
