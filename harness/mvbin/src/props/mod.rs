use mvlib::Ctx;
use serde_json::Value;

pub mod c14;
pub mod c14_real;

pub fn dispatch(ctx: &Ctx, replay: Option<&Value>, _rest: &[String]) -> i32 {
    match ctx.id.as_str() {
        "C14" => c14::run(ctx, replay),
        other => {
            eprintln!("mvbin: unknown property {}", other);
            2
        }
    }
}
