//! Controlled scheduler for the real debugger threads (hook H3): baton passing – exactly one
//! registered thread runs between two scheduling points; every choice is recorded; a schedule is a
//! list of choice indices (missing entries = choice 0 = "keep running the current thread if it is
//! enabled, else the lowest enabled id").

use crate::debugger::adapters::MachineRunningState;
use crate::verif_hooks::{Probe, Scheduler};
use std::cell::Cell;
use std::sync::{Arc, Condvar, Mutex};
use std::time::{Duration, Instant};

#[derive(Clone, Debug, PartialEq, Eq)]
enum Status {
    Running,
    Parked,
    /// polling: enabled again once another thread has taken a step after `since`
    Yielding { since: u64 },
    Finished,
}

struct Th {
    name: &'static str,
    status: Status,
    label: &'static str,
    probe: Option<Probe>,
}

#[derive(Clone, Debug, PartialEq, Eq)]
pub struct Decision {
    pub enabled: usize,
    pub current_enabled: bool,
    pub chosen: usize,
    /// (thread name, label) of the chosen thread – for readable schedules
    pub who: (&'static str, &'static str),
    /// per alternative: is that thread merely polling (re-checking a condition in a loop)?
    pub yielder: Vec<bool>,
    /// the default choice is a thread whose awaited condition just became true (not the running thread)
    pub default_is_waiter: bool,
}

impl Decision {
    /// Cost of taking alternative `alt`: switching away from a runnable thread is a preemption; so is
    /// waking a poller while a thread with real work is enabled (otherwise pollers could be
    /// scheduled forever for free).
    pub fn cost(&self, alt: usize) -> usize {
        if alt == 0 {
            0
        } else if self.current_enabled || self.default_is_waiter {
            1
        } else if self.yielder[alt] && !self.yielder[0] {
            1
        } else {
            0
        }
    }
}

#[derive(Clone, Debug, PartialEq, Eq)]
pub struct Tap {
    pub step: u64,
    pub pc: u16,
    pub state: Option<MachineRunningState>,
}

#[derive(Default)]
struct St {
    threads: Vec<Th>,
    current: Option<usize>,
    expected_spawns: usize,
    step: u64,
    schedule: Vec<usize>,
    decisions: Vec<Decision>,
    taps: Vec<Tap>,
    state_log: Vec<(u64, MachineRunningState)>,
    deadlock: Option<String>,
    decision_cap: usize,
    capped: bool,
    active: bool,
    /// thread that waits for a condition with priority: as soon as the condition holds it is the default choice
    waiter: Option<usize>,
}

pub struct Sched {
    st: Mutex<St>,
    cv: Condvar,
    watched_state: Mutex<Option<Arc<Mutex<MachineRunningState>>>>,
    exec_count: std::sync::atomic::AtomicUsize,
    machine_idle: std::sync::atomic::AtomicBool,
    machine_finished: std::sync::atomic::AtomicBool,
    dead: std::sync::atomic::AtomicBool,
}

thread_local! {
    static MY_ID: Cell<usize> = Cell::new(usize::MAX);
}

fn my_id() -> usize {
    MY_ID.with(|m| m.get())
}

#[derive(Clone, Debug, Default)]
pub struct Trace {
    pub decisions: Vec<Decision>,
    pub taps: Vec<Tap>,
    pub state_log: Vec<(u64, MachineRunningState)>,
    pub deadlock: Option<String>,
    pub capped: bool,
}

impl Sched {
    pub fn new() -> Arc<Sched> {
        Arc::new(Sched {
            st: Mutex::new(St::default()),
            cv: Condvar::new(),
            watched_state: Mutex::new(None),
            exec_count: Default::default(),
            machine_idle: Default::default(),
            machine_finished: Default::default(),
            dead: Default::default(),
        })
    }

    pub fn deadlocked(&self) -> bool {
        self.dead.load(std::sync::atomic::Ordering::SeqCst)
    }

    /// The machine was told to run: forget that it was last seen idle.
    pub fn clear_idle(&self) {
        self.machine_idle.store(false, std::sync::atomic::Ordering::SeqCst);
    }

    pub fn exec_count_atomic(&self) -> usize {
        self.exec_count.load(std::sync::atomic::Ordering::SeqCst)
    }

    /// The machine thread is idling (polling for a state change) or has ended.
    pub fn machine_quiet(&self) -> bool {
        self.machine_idle.load(std::sync::atomic::Ordering::SeqCst)
            || self.machine_finished.load(std::sync::atomic::Ordering::SeqCst)
    }

    /// Called by the harness thread: it becomes thread 0 of a new execution.
    pub fn begin(&self, schedule: &[usize], decision_cap: usize) {
        let mut st = self.st.lock().unwrap();
        *st = St::default();
        st.schedule = schedule.to_vec();
        st.decision_cap = decision_cap;
        st.active = true;
        st.threads.push(Th {
            name: "session",
            status: Status::Running,
            label: "start",
            probe: None,
        });
        st.current = Some(0);
        MY_ID.with(|m| m.set(0));
        *self.watched_state.lock().unwrap() = None;
        self.exec_count.store(0, std::sync::atomic::Ordering::SeqCst);
        self.machine_idle.store(false, std::sync::atomic::Ordering::SeqCst);
        self.machine_finished.store(false, std::sync::atomic::Ordering::SeqCst);
        self.dead.store(false, std::sync::atomic::Ordering::SeqCst);
    }

    pub fn watch_state(&self, s: Arc<Mutex<MachineRunningState>>) {
        *self.watched_state.lock().unwrap() = Some(s);
    }

    pub fn step(&self) -> u64 {
        self.st.lock().unwrap().step
    }

    pub fn executed_count(&self) -> usize {
        self.st.lock().unwrap().taps.len()
    }

    /// status of a thread by name: (exists, finished, yielding at label)
    pub fn thread_info(&self, name: &str) -> (bool, bool, Option<&'static str>) {
        let st = self.st.lock().unwrap();
        for t in &st.threads {
            if t.name == name {
                return (
                    true,
                    t.status == Status::Finished,
                    match t.status {
                        Status::Yielding { .. } => Some(t.label),
                        _ => None,
                    },
                );
            }
        }
        (false, false, None)
    }

    fn sample_state(&self, st: &mut St) {
        if let Some(ws) = self.watched_state.lock().unwrap().as_ref() {
            if let Ok(s) = ws.try_lock() {
                if st.state_log.last().map(|(_, x)| *x) != Some(*s) {
                    let step = st.step;
                    st.state_log.push((step, *s));
                }
            }
        }
    }

    fn pick(&self, st: &mut St, me: Option<usize>) {
        self.sample_state(st);
        if std::env::var("C19_TRACE").is_ok() {
            eprintln!(
                "[sched] step {} pick (me={:?}): {}",
                st.step,
                me,
                st.threads.iter().map(|t| format!("{}:{:?}@{}", t.name, t.status, t.label)).collect::<Vec<_>>().join(" | ")
            );
        }
        let step = st.step;
        let enabled_of = |t: &Th| -> bool {
            match &t.status {
                Status::Parked => t.probe.as_ref().map_or(true, |p| p()),
                Status::Yielding { since } => *since < step,
                _ => false,
            }
        };
        let mut order: Vec<usize> = vec![];
        let current_enabled = me.map_or(false, |m| enabled_of(&st.threads[m]));
        let mut default_is_waiter = false;
        if let Some(w) = st.waiter {
            if Some(w) != me && enabled_of(&st.threads[w]) {
                order.push(w);
                default_is_waiter = true;
            }
        }
        if let Some(m) = me {
            if current_enabled {
                order.push(m);
            }
        }
        // canonical order of the other threads: by role, not by (racy) registration order
        let rank = |name: &str| match name {
            "session" => 0,
            "machine" => 1,
            "poller" => 2,
            _ => 3,
        };
        let mut others: Vec<usize> = st
            .threads
            .iter()
            .enumerate()
            .filter(|(i, t)| Some(*i) != me && !(default_is_waiter && Some(*i) == st.waiter) && enabled_of(t))
            .map(|(i, _)| i)
            .collect();
        others.sort_by_key(|i| (rank(st.threads[*i].name), st.threads[*i].name));
        order.extend(others);
        if order.is_empty() {
            // nobody can take a step: let pollers spin once more (they are waiting for progress)
            let mut yielders: Vec<usize> = st
                .threads
                .iter()
                .enumerate()
                .filter(|(_, t)| matches!(t.status, Status::Yielding { .. }))
                .map(|(i, _)| i)
                .collect();
            yielders.sort_by_key(|i| (rank(st.threads[*i].name), st.threads[*i].name));
            let blocked: Vec<String> = st
                .threads
                .iter()
                .filter(|t| t.status == Status::Parked)
                .map(|t| format!("{}@{}", t.name, t.label))
                .collect();
            if st.threads.iter().all(|t| t.status == Status::Finished) {
                st.current = None;
                return;
            }
            if !blocked.is_empty() && yielders.is_empty() {
                st.deadlock = Some(format!("no thread enabled, blocked: {:?}", blocked));
                self.dead.store(true, std::sync::atomic::Ordering::SeqCst);
                st.current = None;
                return;
            }
            if !blocked.is_empty() {
                // parked threads that only pollers could unblock: count as livelock when the
                // pollers cannot change anything (they only re-read state); report
                st.deadlock = Some(format!("only pollers enabled forever, blocked: {:?}", blocked));
                self.dead.store(true, std::sync::atomic::Ordering::SeqCst);
                st.current = None;
                return;
            }
            // only yielders and finished threads: grant the lowest yielder (free choice, not recorded)
            let y = yielders[0];
            st.step += 1;
            st.threads[y].status = Status::Running;
            st.current = Some(y);
            return;
        }
        if std::env::var("C19_TRACE").is_ok() {
            eprintln!("[sched]    order {:?} (decision #{}, schedule len {})", order, st.decisions.len(), st.schedule.len());
        }
        let idx = if order.len() > 1 && st.decisions.len() < st.schedule.len() {
            let c = st.schedule[st.decisions.len()];
            if c >= order.len() {
                eprintln!(
                    "[sched] replay divergence: choice {} of {} enabled at decision {}",
                    c,
                    order.len(),
                    st.decisions.len()
                );
                std::process::exit(2);
            }
            c
        } else {
            0
        };
        let chosen = order[idx];
        if order.len() > 1 {
            if st.decisions.len() >= st.decision_cap {
                st.capped = true;
            }
            let who = (st.threads[chosen].name, st.threads[chosen].label);
            let yielder = order
                .iter()
                .map(|i| matches!(st.threads[*i].status, Status::Yielding { .. }))
                .collect();
            st.decisions.push(Decision {
                enabled: order.len(),
                current_enabled,
                chosen: idx,
                who,
                yielder,
                default_is_waiter,
            });
        }
        st.step += 1;
        st.threads[chosen].status = Status::Running;
        st.threads[chosen].probe = None;
        if st.waiter == Some(chosen) {
            st.waiter = None;
        }
        st.current = Some(chosen);
    }

    fn wait_for_grant(&self, mut st: std::sync::MutexGuard<St>, me: usize) {
        let start = Instant::now();
        while st.current != Some(me) {
            if st.deadlock.is_some() {
                // execution is being torn down: let the thread run freely to its end
                break;
            }
            let (g, _) = self
                .cv
                .wait_timeout(st, Duration::from_millis(200))
                .unwrap_or_else(|e| e.into_inner());
            st = g;
            if start.elapsed() > Duration::from_secs(20) {
                eprintln!("[sched] watchdog: thread {} waited 20 s for the baton; threads:", me);
                for t in &st.threads {
                    eprintln!("   {} {:?} @{}", t.name, t.status, t.label);
                }
                std::process::exit(2);
            }
        }
    }

    fn park(&self, label: &'static str, probe: Option<Probe>, yielding: bool) {
        let me = my_id();
        if me == usize::MAX {
            // a thread the harness does not know (scheduler installed but thread not registered)
            return;
        }
        let mut st = self.st.lock().unwrap();
        if !st.active {
            return;
        }
        while st.expected_spawns > 0 {
            let (g, _) = self.cv.wait_timeout(st, Duration::from_millis(50)).unwrap_or_else(|e| e.into_inner());
            st = g;
        }
        let step = st.step;
        st.threads[me].label = label;
        st.threads[me].probe = probe;
        st.threads[me].status = if yielding {
            Status::Yielding { since: step }
        } else {
            Status::Parked
        };
        if st.threads[me].name == "machine" {
            self.machine_idle
                .store(yielding && label == "m:idle", std::sync::atomic::Ordering::SeqCst);
        }
        self.pick(&mut st, Some(me));
        self.cv.notify_all();
        self.wait_for_grant(st, me);
    }

    /// Harness: wait (as thread 0) until `cond` holds; other threads run meanwhile.
    pub fn wait_until(&self, label: &'static str, cond: Probe) {
        {
            let mut st = self.st.lock().unwrap();
            st.waiter = Some(my_id());
        }
        self.park(label, Some(cond), false);
    }

    /// Harness: the script is over; keep granting until every other thread has finished.
    pub fn finish(&self) -> Trace {
        let me = 0usize;
        {
            let mut st = self.st.lock().unwrap();
            st.threads[me].status = Status::Finished;
            st.threads[me].label = "finished";
            self.pick(&mut st, None);
            self.cv.notify_all();
        }
        let start = Instant::now();
        loop {
            let mut st = self.st.lock().unwrap();
            if st.threads.iter().all(|t| t.status == Status::Finished) || st.deadlock.is_some() {
                // deadlock: remaining threads are released (wait_for_grant breaks) – give them a moment
                if st.deadlock.is_some() {
                    st.active = false;
                    self.cv.notify_all();
                }
                let t = Trace {
                    decisions: st.decisions.clone(),
                    taps: st.taps.clone(),
                    state_log: st.state_log.clone(),
                    deadlock: st.deadlock.clone(),
                    capped: st.capped,
                };
                st.active = false;
                return t;
            }
            let (g, _) = self.cv.wait_timeout(st, Duration::from_millis(50)).unwrap_or_else(|e| e.into_inner());
            drop(g);
            if start.elapsed() > Duration::from_secs(20) {
                eprintln!("[sched] watchdog: threads did not finish");
                std::process::exit(2);
            }
        }
    }
}

impl Scheduler for Sched {
    fn point(&self, label: &'static str, probe: Option<Probe>) {
        self.park(label, probe, false);
    }

    fn yield_point(&self, label: &'static str) -> bool {
        if my_id() == usize::MAX {
            return false;
        }
        {
            let st = self.st.lock().unwrap();
            if !st.active {
                return false;
            }
        }
        self.park(label, None, true);
        true
    }

    fn pre_spawn(&self) {
        let mut st = self.st.lock().unwrap();
        if st.active {
            st.expected_spawns += 1;
        }
    }

    fn thread_start(&self, name: &'static str) {
        let mut st = self.st.lock().unwrap();
        if !st.active {
            return;
        }
        let id = st.threads.len();
        st.threads.push(Th {
            name,
            status: Status::Parked,
            label: "thread_start",
            probe: None,
        });
        st.expected_spawns = st.expected_spawns.saturating_sub(1);
        MY_ID.with(|m| m.set(id));
        self.cv.notify_all();
        self.wait_for_grant(st, id);
    }

    fn thread_end(&self) {
        let me = my_id();
        if me == usize::MAX {
            return;
        }
        let mut st = self.st.lock().unwrap();
        if !st.active {
            return;
        }
        st.threads[me].status = Status::Finished;
        st.threads[me].label = "thread_end";
        if st.threads[me].name == "machine" {
            self.machine_finished
                .store(true, std::sync::atomic::Ordering::SeqCst);
        }
        if st.current == Some(me) {
            self.pick(&mut st, None);
        }
        MY_ID.with(|m| m.set(usize::MAX));
        self.cv.notify_all();
    }

    fn executed(&self, pc: u16) {
        let mut st = self.st.lock().unwrap();
        if !st.active {
            return;
        }
        let state = self
            .watched_state
            .lock()
            .unwrap()
            .as_ref()
            .and_then(|s| s.try_lock().ok().map(|g| *g));
        let step = st.step;
        st.taps.push(Tap { step, pc, state });
        self.exec_count
            .fetch_add(1, std::sync::atomic::Ordering::SeqCst);
    }
}
