//! In-process probe: runs the real `mos-core` parser / code generator / formatter on in-memory
//! sources and returns plain data. Every call is guarded (panic capture, pass observer, fuel).

use mos_core::codegen::{codegen, CodegenContext, CodegenOptions, SymbolData, SymbolType};
use mos_core::errors::Diagnostics;
use mos_core::parser::source::InMemoryParsingSource;
use mos_core::parser::{parse, ParseTree};
use mos_core::verif_hooks;
use mvlib::panics::{guard, PanicInfo};
use std::cell::RefCell;
use std::collections::BTreeMap;
use std::path::Path;
use std::rc::Rc;
use std::sync::Arc;

#[derive(Clone, Debug, PartialEq, Eq, Hash, PartialOrd, Ord)]
pub struct Diag {
    pub message: String,
    /// file name, 0-based begin line/col, end line/col (byte columns)
    pub loc: Option<(String, usize, usize, usize, usize)>,
}

impl Diag {
    pub fn short(&self) -> String {
        match &self.loc {
            Some((f, l, c, _, _)) => format!("{}:{}:{}: {}", f, l + 1, c + 1, self.message),
            None => self.message.clone(),
        }
    }
}

#[derive(Clone, Debug, PartialEq, Eq)]
pub struct Seg {
    pub name: String,
    pub start: usize,
    pub end: usize,
    pub bytes: Vec<u8>,
    pub target_offset: i64,
    pub bank: Option<String>,
    pub write: bool,
}

#[derive(Clone, Debug, PartialEq, Eq)]
pub enum Sym {
    Num(i64),
    Str(String),
    Macro,
    Placeholder,
}

#[derive(Clone, Copy, Debug, PartialEq, Eq)]
pub enum Stop {
    /// pass loop ended by itself
    None,
    /// same pass digest seen twice: deterministic proof of non-termination
    Cycle { first: usize, again: usize },
    /// pass budget exhausted without a repeated digest (cap, not a verdict)
    PassBudget(usize),
    /// emitted-token budget exhausted
    Fuel,
}

pub struct Built {
    pub parse_diags: Vec<Diag>,
    pub diags: Vec<Diag>,
    pub segs: Vec<Seg>,
    /// path -> (value, type name)
    pub symbols: BTreeMap<String, (Sym, &'static str)>,
    pub passes: usize,
    pub stop: Stop,
    /// numeric symbol values after the first pass (for "size changed between passes" statistics)
    pub first_pass_symbols: Vec<(String, i64)>,
    pub tree: Option<Arc<ParseTree>>,
    pub ctx: Option<CodegenContext>,
}

impl Built {
    pub fn ok(&self) -> bool {
        self.parse_diags.is_empty() && self.diags.is_empty() && self.stop == Stop::None
    }
    pub fn all_diags(&self) -> Vec<Diag> {
        let mut v = self.parse_diags.clone();
        v.extend(self.diags.clone());
        v
    }
    pub fn seg(&self, name: &str) -> Option<&Seg> {
        self.segs.iter().find(|s| s.name == name)
    }
    /// bytes of the only / "default" segment
    pub fn bytes(&self) -> Vec<u8> {
        match self.seg("default") {
            Some(s) => s.bytes.clone(),
            None => self.segs.first().map(|s| s.bytes.clone()).unwrap_or_default(),
        }
    }
    pub fn num(&self, path: &str) -> Option<i64> {
        match self.symbols.get(path) {
            Some((Sym::Num(n), _)) => Some(*n),
            _ => None,
        }
    }
    pub fn messages(&self) -> Vec<String> {
        let mut m: Vec<String> = self.all_diags().into_iter().map(|d| d.message).collect();
        m.sort();
        m
    }
}

pub fn diags_of(d: &Diagnostics) -> Vec<Diag> {
    let cm = d.code_map();
    d.iter()
        .map(|diag| {
            let loc = match (cm, diag.labels.first()) {
                (Some(cm), Some(label)) => {
                    let sl = cm.look_up_span(label.file_id);
                    Some((
                        sl.file.name().to_string(),
                        sl.begin.line,
                        sl.begin.column,
                        sl.end.line,
                        sl.end.column,
                    ))
                }
                _ => None,
            };
            Diag {
                message: diag.message.clone(),
                loc,
            }
        })
        .collect()
}

#[derive(Clone)]
pub struct Opts {
    pub pc: usize,
    pub greedy: bool,
    pub move_macro: bool,
    pub active_test: Option<String>,
    pub max_passes: usize,
    pub fuel: i64,
    pub keep_ctx: bool,
}

impl Default for Opts {
    fn default() -> Self {
        Opts {
            pc: 0x2000,
            greedy: false,
            move_macro: false,
            active_test: None,
            max_passes: 64,
            fuel: 300_000,
            keep_ctx: false,
        }
    }
}

pub fn source(files: &[(&str, &str)]) -> InMemoryParsingSource {
    let mut src = InMemoryParsingSource::new();
    for (name, text) in files {
        src = src.add(*name, text);
    }
    src
}

/// Parse only (main file = first file).
pub fn parse_files(files: &[(&str, &str)]) -> Result<(Option<Arc<ParseTree>>, Vec<Diag>), PanicInfo> {
    let main = files[0].0.to_string();
    let src = source(files);
    guard(move || {
        let (tree, errs) = parse(Path::new(&main), src.into());
        let d = diags_of(&errs);
        (tree, d)
    })
}

pub fn symbols_of(ctx: &CodegenContext) -> BTreeMap<String, (Sym, &'static str)> {
    let mut out = BTreeMap::new();
    for (path, (_, s)) in ctx.symbols().all() {
        let v = match &s.data {
            SymbolData::Number(n) => Sym::Num(*n),
            SymbolData::String(s) => Sym::Str(s.clone()),
            SymbolData::MacroDefinition(_) => Sym::Macro,
            SymbolData::Placeholder => Sym::Placeholder,
        };
        let ty = match s.ty {
            SymbolType::Label => "label",
            SymbolType::TestCase => "test",
            SymbolType::MacroArgument => "macroarg",
            SymbolType::Constant => "const",
            SymbolType::Variable => "var",
        };
        out.insert(path.to_string(), (v, ty));
    }
    out
}

pub fn segs_of(ctx: &CodegenContext) -> Vec<Seg> {
    ctx.segments()
        .iter()
        .map(|(name, s)| Seg {
            name: name.to_string(),
            start: s.range().start,
            end: s.range().end,
            bytes: s.range_data().to_vec(),
            target_offset: s.target_offset(),
            bank: s.options().bank.as_ref().map(|b| b.to_string()),
            write: s.options().write,
        })
        .collect()
}

/// Parse + codegen the way `mos build` configures it (unless `opts` says otherwise).
pub fn assemble(files: &[(&str, &str)], opts: &Opts) -> Result<Built, PanicInfo> {
    let (tree, parse_diags) = parse_files(files)?;
    let mut built = Built {
        parse_diags,
        diags: vec![],
        segs: vec![],
        symbols: BTreeMap::new(),
        passes: 0,
        stop: Stop::None,
        first_pass_symbols: vec![],
        tree: tree.clone(),
        ctx: None,
    };
    if !built.parse_diags.is_empty() || tree.is_none() {
        return Ok(built);
    }
    let tree = tree.unwrap();
    let r = codegen_tree(tree, opts)?;
    built.diags = r.diags;
    built.segs = r.segs;
    built.symbols = r.symbols;
    built.passes = r.passes;
    built.stop = r.stop;
    built.first_pass_symbols = r.first_pass_symbols;
    built.ctx = r.ctx;
    Ok(built)
}

pub struct Gen {
    pub diags: Vec<Diag>,
    pub segs: Vec<Seg>,
    pub symbols: BTreeMap<String, (Sym, &'static str)>,
    pub passes: usize,
    pub stop: Stop,
    pub first_pass_symbols: Vec<(String, i64)>,
    pub ctx: Option<CodegenContext>,
}

pub fn codegen_tree(tree: Arc<ParseTree>, opts: &Opts) -> Result<Gen, PanicInfo> {
    let state: Rc<RefCell<(Vec<u64>, Stop, usize, Vec<(String, i64)>)>> =
        Rc::new(RefCell::new((vec![], Stop::None, 0, vec![])));
    let st = state.clone();
    let max_passes = opts.max_passes;
    let fuel = opts.fuel;
    verif_hooks::set_fuel(opts.fuel);
    verif_hooks::set_pass_observer(Box::new(move |info| {
        let mut s = st.borrow_mut();
        s.2 = info.pass_idx + 1;
        // the fuel budget is per pass
        if !verif_hooks::fuel_exhausted() {
            verif_hooks::set_fuel(fuel);
        }
        // pass 0 runs without a segment (no labels yet): the first pass that places code is pass 1
        if info.pass_idx == 1 {
            s.3 = info.symbols.clone();
        }
        s.0.push(info.digest);
        // A repeat of the immediately preceding digest is the loop's own exit condition (same
        // errors / same undefined set twice in a row): leave that to the loop. A cycle is reported
        // only when a whole block of p >= 2 consecutive pass states has recurred.
        let n = s.0.len();
        for p in 2..=n / 2 {
            if s.0[n - p..] == s.0[n - 2 * p..n - p] {
                s.1 = Stop::Cycle {
                    first: n - 2 * p,
                    again: n - p,
                };
                return true;
            }
        }
        if s.0.len() >= max_passes {
            s.1 = Stop::PassBudget(max_passes);
            return true;
        }
        false
    }));
    let options = CodegenOptions {
        pc: opts.pc.into(),
        active_test: opts.active_test.as_ref().map(|t| t.as_str().into()),
        move_macro_source_map_to_invocation: opts.move_macro,
        enable_greedy_analysis: opts.greedy,
        ..Default::default()
    };
    let res = guard(move || codegen(tree, options));
    verif_hooks::clear_pass_observer();
    let fuel_out = verif_hooks::fuel_exhausted();
    verif_hooks::set_fuel(i64::MAX);
    let (ctx, errs) = res?;
    let s = state.borrow();
    let mut stop = s.1;
    if fuel_out {
        stop = Stop::Fuel;
    }
    let diags = diags_of(&errs);
    let (segs, symbols) = match &ctx {
        Some(c) => (segs_of(c), symbols_of(c)),
        None => (vec![], BTreeMap::new()),
    };
    Ok(Gen {
        diags,
        segs,
        symbols,
        passes: s.2,
        stop,
        first_pass_symbols: s.3.clone(),
        ctx: if opts.keep_ctx { ctx } else { None },
    })
}

/// Shorthand: single file `main.asm`, default options.
pub fn asm(text: &str) -> Result<Built, PanicInfo> {
    assemble(&[("main.asm", text)], &Opts::default())
}
