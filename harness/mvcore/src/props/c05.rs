//! C05 – nothing in a source file is silently ignored (lossless parse).
//!
//! Oracle: if `parse` returns no diagnostics, the concatenated `Display` of the main file's
//! tokens equals the input (CRLF -> LF, ASCII case-insensitive).

use crate::textspace::{self, Item};
use mos_core::parser::parse;
use mvlib::panics::guard;
use mvlib::{fnv_str, Ctx, Finding};
use serde_json::{json, Value};
use std::path::Path;

fn char_class(c: Option<char>) -> String {
    match c {
        None => "eof".into(),
        Some(')') => "')'".into(),
        Some('}') => "'}'".into(),
        Some('\r') => "CR".into(),
        Some('\n') => "LF".into(),
        Some(c) if c.is_ascii_control() => "control".into(),
        Some(c) if !c.is_ascii() => "non-ascii".into(),
        Some(c) if c.is_ascii_alphanumeric() => "alnum".into(),
        Some(c) if c.is_ascii_whitespace() => "space".into(),
        Some(c) => format!("'{}'", c),
    }
}

pub enum Verdict {
    Diagnosed,
    Lossless,
    Lossy { at: usize, rendered: String },
    Panic(mvlib::panics::PanicInfo),
}

pub fn check_text(text: &str, side: &[(String, String)]) -> Verdict {
    let mut files = vec![("main.asm".to_string(), text.to_string())];
    files.extend(side.iter().cloned());
    let src = textspace::by_name(&files);
    let r = guard(move || {
        let (tree, errs) = parse(Path::new("main.asm"), src);
        if !errs.is_empty() {
            return None;
        }
        let tree = tree.unwrap();
        let rendered: String = tree
            .main_file()
            .tokens
            .iter()
            .map(|t| format!("{}", t))
            .collect::<Vec<_>>()
            .join("");
        Some(rendered)
    });
    match r {
        Err(p) => Verdict::Panic(p),
        Ok(None) => Verdict::Diagnosed,
        Ok(Some(rendered)) => {
            // comments keep their raw text (including CRLF inside block comments), and Display
            // upper-cases a keyword together with the trivia in front of it: compare modulo
            // CRLF and (Unicode) letter case on both sides
            let norm = text.replace("\r\n", "\n");
            let rendered = rendered.replace("\r\n", "\n");
            if norm.eq_ignore_ascii_case(&rendered) || norm.to_lowercase() == rendered.to_lowercase() {
                // the letter case of mnemonics and keywords is free, that of comments is not: their texts have to come
                // back as they were
                let (a, b) = (comment_texts(&norm), comment_texts(&rendered));
                match a.iter().zip(b.iter()).position(|(x, y)| x != y) {
                    Some(k) => {
                        let at = norm.find(a[k].as_str()).unwrap_or(0);
                        Verdict::Lossy { at, rendered }
                    }
                    None => Verdict::Lossless,
                }
            } else {
                // first difference
                let a = norm.as_bytes();
                let b = rendered.as_bytes();
                let mut i = 0;
                while i < a.len() && i < b.len() && a[i].eq_ignore_ascii_case(&b[i]) {
                    i += 1;
                }
                while !norm.is_char_boundary(i) {
                    i -= 1;
                }
                Verdict::Lossy { at: i, rendered }
            }
        }
    }
}

/// The comments of a text (`// …` to the end of the line, nesting `/* … */`), strings skipped.
fn comment_texts(text: &str) -> Vec<String> {
    let b: Vec<char> = text.chars().collect();
    let n = b.len();
    let at = |i: usize| if i < n { b[i] } else { '\0' };
    let mut out = vec![];
    let mut i = 0;
    while i < n {
        if b[i] == '/' && at(i + 1) == '/' {
            let mut j = i;
            while j < n && b[j] != '\n' && b[j] != '\r' {
                j += 1;
            }
            out.push(b[i..j].iter().collect());
            i = j;
        } else if b[i] == '/' && at(i + 1) == '*' {
            let mut depth = 1;
            let mut j = i + 2;
            while j < n && depth > 0 {
                if b[j] == '/' && at(j + 1) == '*' {
                    depth += 1;
                    j += 2;
                } else if b[j] == '*' && at(j + 1) == '/' {
                    depth -= 1;
                    j += 2;
                } else {
                    j += 1;
                }
            }
            let j = j.min(n);
            out.push(b[i..j].iter().collect());
            i = j;
        } else if b[i] == '"' {
            let mut j = i + 1;
            while j < n && b[j] != '"' && b[j] != '\n' {
                j += 1;
            }
            i = (j + 1).min(n);
        } else {
            i += 1;
        }
    }
    out
}

fn report(ctx: &Ctx, item: &Item, v: Verdict) {
    match v {
        Verdict::Diagnosed => ctx.count("diagnosed"),
        Verdict::Lossless => {
            ctx.count("accepted_lossless");
            ctx.nontrivial(fnv_str(item.text));
        }
        Verdict::Panic(p) => {
            // crashes are C06's business; counted here, no C05 verdict
            ctx.count("panicked");
            let _ = p;
        }
        Verdict::Lossy { at, rendered } => {
            ctx.nontrivial(fnv_str(item.text));
            let norm = item.text.replace("\r\n", "\n");
            let c = norm[at..].chars().next();
            let depth = norm[..at].matches('{').count() as i64 - norm[..at].matches('}').count() as i64;
            let line_start = norm[..at].rfind('\n').map(|p| p + 1).unwrap_or(0);
            let in_string = norm[line_start..at].matches('"').count() % 2 == 1;
            let level = if in_string {
                "string"
            } else if depth > 0 {
                "block"
            } else {
                "statement"
            };
            ctx.finding(Finding::new(
                format!("swallowed:{}@{}", char_class(c), level),
                format!(
                    "parse reports no diagnostic but the tokens re-render to {:?} instead of {:?} (first difference at byte {})",
                    rendered, norm, at
                ),
                json!({"kind": "text", "origin": item.origin, "files": {"main.asm": item.text}, "side": item.side}),
            ));
        }
    }
}

pub fn run(ctx: &Ctx, replay: Option<&Value>) -> i32 {
    if let Some(case) = replay {
        let text = case["files"]["main.asm"].as_str().unwrap_or("");
        let side: Vec<(String, String)> = case["side"]
            .as_array()
            .map(|a| {
                a.iter()
                    .filter_map(|p| Some((p[0].as_str()?.to_string(), p[1].as_str()?.to_string())))
                    .collect()
            })
            .unwrap_or_default();
        println!("input: {:?}", text);
        match check_text(text, &side) {
            Verdict::Diagnosed => println!("parse reports diagnostics (fine)"),
            Verdict::Lossless => println!("accepted, lossless (fine)"),
            Verdict::Lossy { at, rendered } => {
                println!("accepted WITHOUT diagnostics but re-renders to {:?} (diff at {})", rendered, at)
            }
            Verdict::Panic(p) => println!("PANIC {} at {}", p.message, p.site),
        }
        return 0;
    }
    let thorough = ctx.tier.is_thorough();
    let syn = textspace::synthetic_corpus();
    let ex = textspace::example_corpus();
    ctx.set("corpus_snippets", json!(syn.len()));
    ctx.set("corpus_bytes", json!(syn.iter().map(|e| e.text.len()).sum::<usize>()));
    ctx.set("example_files", json!(ex.len()));
    let f = |item: Item| {
        ctx.eval(|| json!(item.text));
        let v = check_text(item.text, item.side);
        report(ctx, &item, v);
    };
    // (a)
    textspace::single_edits(&syn, &textspace::edit_chars(true), &f);
    ctx.set("edits_after_synthetic", json!(ctx.evals()));
    ctx.set("t_synthetic_s", json!(ctx.wall()));
    if thorough {
        textspace::single_edits(&ex, &textspace::edit_chars(false), &f);
    } else {
        // quick: the smallest example only
        let small: Vec<_> = ex.iter().filter(|e| e.name == "ex-unit-testing").cloned().collect();
        textspace::single_edits(&small, &textspace::edit_chars(false), &f);
    }
    ctx.set("edits_after_examples", json!(ctx.evals()));
    ctx.set("t_examples_s", json!(ctx.wall()));
    // (b)
    let n = if thorough { 5 } else { 4 };
    textspace::token_strings(n, &f);
    ctx.set("token_string_max_len", json!(n));
    // (b') operand shapes
    textspace::operand_strings(if thorough { 6 } else { 5 }, &f);
    ctx.set("t_tokens_s", json!(ctx.wall()));
    // (c)
    textspace::splices(&ex, if thorough { 2 } else { 12 }, &f);
    ctx.finish(
        "exploration",
        "every single-character edit (delete; insert/replace with 104 characters on the synthetic corpus, with 26 characters on the example files; quick: smallest example only) of a corpus with one rendering of every grammar production and of the repository's example sources; all token strings of length <= n over 26 tokens; `lda` followed by every string of up to 5 (thorough 6) operand tokens (parentheses, index suffixes, values, comma, blank, comment); all prefix+suffix splices of the examples at line boundaries. Each text is parsed by the real parser; non-trivial = distinct text accepted without diagnostics (the only texts on which the oracle can fail)",
        true,
        &[
            "texts are single edits of a fixed corpus and short token strings, not all byte strings",
            "comparison ignores ASCII case (Display upper-cases keywords) and CRLF vs LF, as the property allows",
            "only the main file's tokens are compared; imported files are fixed",
        ],
    )
}
