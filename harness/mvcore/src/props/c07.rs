//! C07 – loops, conditionals, macros, constants, scopes and imports mean their expansion.
//!
//! Space: construct nests of depth <= d (quick 2, thorough 3). A nest is a sequence of *levels*
//! (outermost first) and a *leaf*; `build` turns it into the program P (main.asm plus one
//! imported file per import level), `Expander` turns the AST of P into expand(P) by hand:
//!
//! * `.loop n { B }`      -> n copies `{ B[index := i] }`
//! * `.if c { A } else { B }` -> the statements of the selected branch, spliced in place
//! * `m(a, b)`            -> `.const argN_p = (a) .const argN_q = (b) { .const p = argN_p .const q = argN_q body }`
//!   (definition removed; the arguments are evaluated where the invocation stands)
//! * use of a user `.const` -> `(value)`
//! * `{ }`, `l: { }`      -> unchanged
//! * `.import … from "f" { block }` -> `impN: { block, statements of f }` followed by
//!   `.const alias = impN.name` for every imported name (`*`: every top-level label / constant
//!   of the scope; `* as ns`: uses `ns.x` are rewritten to `impN.x`)
//!
//! Oracle: both assemble => identical segments; P rejected while expand(P) assembles =>
//! violation; expand(P) rejected alone => counted (the hand expansion may be stricter); differing
//! bytes are excused only when both results are valid fixed points (certificate checker).
//! Failing nests are reduced against the table of all failing nests (drop a level, simpler
//! variant of a level, simpler leaf) and the signature is taken from the reduced nest.

use crate::cert::certify;
use crate::probe::{self, Built, Opts};
use crate::util::hex_bytes;
use mvlib::grammar::*;
use mvlib::isa::{Form, Isa};
use mvlib::{fnv_str, Ctx, Finding};
use rayon::prelude::*;
use serde_json::{json, Value};
use std::collections::{BTreeMap, HashMap, HashSet};
use std::sync::{Arc, Mutex};

// ------------------------------------------------------------------------------------------
// nests
// ------------------------------------------------------------------------------------------

#[derive(Clone, Copy, PartialEq, Eq, Hash, Debug, PartialOrd, Ord)]
enum Cond {
    Lit1,
    Lit0,
    DefX,
    DefU,
    C1Eq2,
    /// a constant that is defined at the end of main.asm (unknown in the first pass), 1 / 0
    Late1,
    Late0,
    /// non-zero values other than 1 select the first branch too: `1 - 2` (negative) and `2`
    Neg,
    Two,
}

#[derive(Clone, Copy, PartialEq, Eq, Hash, Debug, PartialOrd, Ord)]
enum IfShape {
    /// `.if c { child }`
    Then,
    /// `.if c { child } else { filler }`
    ThenElse,
    /// `.if c { filler } else { child }`
    InElse,
    /// as ThenElse / InElse, the filler branch also *defining* the names the rest of the program
    /// uses (`fwd:`, `outer:`, the nest's constants with another value)
    ThenElseDefs,
    InElseDefs,
}

#[derive(Clone, Copy, PartialEq, Eq, Hash, Debug, PartialOrd, Ord)]
enum Place {
    /// definition at the top of main.asm, before the nest
    Top,
    /// definition directly before the (first) invocation, in the same statement list
    Local,
    /// definition at the end of main.asm (invocation precedes definition)
    After,
}

#[derive(Clone, Copy, PartialEq, Eq, Hash, Debug, PartialOrd, Ord)]
enum CVal {
    Two,
    OnePlusOne,
}

#[derive(Clone, Copy, PartialEq, Eq, Hash, Debug, PartialOrd, Ord)]
enum Imp {
    Star,
    Name,
    Alias,
    Ns,
    Multi,
    Twice,
    TwiceNs,
    /// by name, the name being a block label (`fs: { … }`) of the imported file
    Scope,
}

#[derive(Clone, Copy, PartialEq, Eq, Hash, Debug, PartialOrd, Ord)]
enum Level {
    Loop(u8),
    If(Cond, IfShape),
    Macro { place: Place, calls: u8, params: u8 },
    Const { after: bool, val: CVal },
    Braces { labelled: bool },
    Import { imp: Imp, block: bool },
    /// the nested construct followed, in the same statement list, by the invocation of another macro (defined at the
    /// top of main.asm) whose body defines names of its own that are called like the outer ones (`c1`, `outer`, `fwd`,
    /// the nest's constants): every invocation has a fresh scope, whatever was invoked before or after it
    SiblingMacro,
}

#[derive(Clone, Copy, PartialEq, Eq, Hash, Debug, PartialOrd, Ord)]
enum VK {
    Index,
    Param,
    Const,
}

#[derive(Clone, Copy, PartialEq, Eq, Hash, Debug, PartialOrd, Ord)]
enum Leaf {
    Nop,
    JmpOuter,
    JmpFwd,
    InnerLabel,
    InnerMinus,
    Lda(VK),
    Byte(VK),
    /// `lda #c1`: the constant defined at the top of main.asm
    LdaTop,
    /// `dex` + `bne -` directly in the enclosing body: `-` is the start of the enclosing block
    /// (the loop iteration, the macro expansion, the import scope, ...)
    BneMinus,
    /// `beq +` + `nop`: `+` is the end of the enclosing block
    BeqPlus,
    /// 50 `lda fwd` (a label further down) in front of a short forward branch: in the pass in which the loads take
    /// their size for the first time the branch target still has its address of the pass before, so that one
    /// pass sees the branch too far; the program is valid
    TransientError,
}

#[derive(Clone, PartialEq, Eq, Hash, Debug)]
struct Nest {
    levels: Vec<Level>,
    leaf: Leaf,
}

impl Level {
    fn kind(&self) -> u8 {
        match self {
            Level::Loop(_) => 0,
            Level::If(..) => 1,
            Level::Macro { .. } => 2,
            Level::Const { .. } => 3,
            Level::Braces { .. } => 4,
            Level::Import { .. } => 5,
            Level::SiblingMacro => 6,
        }
    }

    fn kind_name(&self) -> &'static str {
        match self {
            Level::Loop(_) => "loop",
            Level::If(..) => "if",
            Level::Macro { .. } => "macro",
            Level::Const { .. } => "const",
            Level::Braces { .. } => "braces",
            Level::Import { .. } => "import",
            Level::SiblingMacro => "sibling-macro",
        }
    }

    fn name(&self) -> String {
        match self {
            Level::Loop(n) => format!("loop{}", n),
            Level::If(c, s) => {
                let c = match c {
                    Cond::Lit1 => "1",
                    Cond::Lit0 => "0",
                    Cond::DefX => "defined-x",
                    Cond::DefU => "defined-u",
                    Cond::C1Eq2 => "c1==2",
                    Cond::Late1 => "late-1",
                    Cond::Late0 => "late-0",
                    Cond::Neg => "1-2",
                    Cond::Two => "2",
                };
                match s {
                    IfShape::Then => format!("if({})", c),
                    IfShape::ThenElse => format!("if({},else)", c),
                    IfShape::InElse => format!("if({},in-else)", c),
                    IfShape::ThenElseDefs => format!("if({},else-defs)", c),
                    IfShape::InElseDefs => format!("if({},in-else-defs)", c),
                }
            }
            Level::Macro { place, calls, params } => format!(
                "macro({}p,{}x,{})",
                params,
                calls,
                match place {
                    Place::Top => "top",
                    Place::Local => "local",
                    Place::After => "defined-after",
                }
            ),
            Level::Const { after, val } => format!(
                "const({},{})",
                match val {
                    CVal::Two => "2",
                    CVal::OnePlusOne => "1+1",
                },
                if *after { "after-use" } else { "before-use" }
            ),
            Level::Braces { labelled } => if *labelled { "lbraces" } else { "braces" }.to_string(),
            Level::Import { imp, block } => format!(
                "import({}{})",
                match imp {
                    Imp::Star => "*",
                    Imp::Name => "name",
                    Imp::Alias => "name-as",
                    Imp::Ns => "*as",
                    Imp::Multi => "name,name-as",
                    Imp::Twice => "twice-name-as",
                    Imp::TwiceNs => "twice-*as",
                    Imp::Scope => "block-label-name",
                },
                if *block { ",block" } else { "" }
            ),
            Level::SiblingMacro => "sibling-macro".to_string(),
        }
    }
}

impl Leaf {
    fn name(&self) -> &'static str {
        match self {
            Leaf::Nop => "nop",
            Leaf::LdaTop => "lda#top-const",
            Leaf::BneMinus => "bne-minus",
            Leaf::BeqPlus => "beq-plus",
            Leaf::TransientError => "transient-error",
            Leaf::JmpOuter => "jmp-outer",
            Leaf::JmpFwd => "jmp-fwd",
            Leaf::InnerLabel => "inner-label",
            Leaf::InnerMinus => "inner-minus",
            Leaf::Lda(VK::Index) => "lda#index",
            Leaf::Lda(VK::Param) => "lda#param",
            Leaf::Lda(VK::Const) => "lda#const",
            Leaf::Byte(VK::Index) => "byte-index+1",
            Leaf::Byte(VK::Param) => "byte-param+1",
            Leaf::Byte(VK::Const) => "byte-const+1",
        }
    }
}

/// All level variants; within a kind the simpler variant comes first (used by the reduction).
fn all_levels() -> Vec<Level> {
    let mut v = vec![];
    for n in 0..=3u8 {
        v.push(Level::Loop(n));
    }
    for c in [Cond::Lit1, Cond::Lit0, Cond::DefX, Cond::DefU, Cond::C1Eq2, Cond::Late1, Cond::Late0, Cond::Neg, Cond::Two] {
        for s in [IfShape::Then, IfShape::ThenElse, IfShape::InElse, IfShape::ThenElseDefs, IfShape::InElseDefs] {
            v.push(Level::If(c, s));
        }
    }
    for place in [Place::Top, Place::Local, Place::After] {
        for calls in 1..=2u8 {
            for params in 0..=2u8 {
                v.push(Level::Macro { place, calls, params });
            }
        }
    }
    for after in [false, true] {
        for val in [CVal::Two, CVal::OnePlusOne] {
            v.push(Level::Const { after, val });
        }
    }
    v.push(Level::Braces { labelled: false });
    v.push(Level::Braces { labelled: true });
    for imp in [
        Imp::Star,
        Imp::Name,
        Imp::Alias,
        Imp::Ns,
        Imp::Multi,
        Imp::Twice,
        Imp::TwiceNs,
        Imp::Scope,
    ] {
        for block in [false, true] {
            v.push(Level::Import { imp, block });
        }
    }
    v.push(Level::SiblingMacro);
    v
}

/// One representative per construct kind; at depth 3 (thorough tier) at least one of the three
/// levels is a representative, the other two range over all variants.
fn is_base(l: &Level) -> bool {
    matches!(
        l,
        Level::Loop(2)
            | Level::If(Cond::Lit1, IfShape::Then)
            | Level::Macro { place: Place::Top, calls: 1, params: 1 }
            | Level::Const { after: false, val: CVal::Two }
            | Level::Braces { labelled: false }
            | Level::Import { imp: Imp::Star, block: false }
    )
}

const LEAVES: [Leaf; 15] = [
    Leaf::Nop,
    Leaf::TransientError,
    Leaf::LdaTop,
    Leaf::BneMinus,
    Leaf::BeqPlus,
    Leaf::JmpOuter,
    Leaf::JmpFwd,
    Leaf::InnerLabel,
    Leaf::InnerMinus,
    Leaf::Lda(VK::Index),
    Leaf::Byte(VK::Index),
    Leaf::Lda(VK::Param),
    Leaf::Byte(VK::Param),
    Leaf::Lda(VK::Const),
    Leaf::Byte(VK::Const),
];

/// Constructs whose by-hand meaning the property statement does not fix are kept out.
fn levels_valid(levels: &[Level]) -> bool {
    for (i, l) in levels.iter().enumerate() {
        match l {
            // a macro defined inside a macro body
            Level::Macro { place: Place::Local, .. } => {
                if levels[..i].iter().any(|x| matches!(x, Level::Macro { .. })) {
                    return false;
                }
            }
            // a condition on `c1` whose own branch redefines `c1` in the same scope is a paradox
            // (the selected branch changes the condition), not a construct with a hand expansion
            Level::If(Cond::C1Eq2, IfShape::ThenElseDefs | IfShape::InElseDefs) => return false,
            // the same paradox one or two levels down: the selected branch of a conditional that stands in the same
            // scope (only `.if`, `.const` and a sibling invocation in between, none of which opens a scope) defines `c1`
            Level::If(Cond::C1Eq2, _) => {
                for inner in &levels[i + 1..] {
                    match inner {
                        Level::If(c, shape) => {
                            let truth = matches!(c, Cond::Lit1 | Cond::DefX | Cond::Late1 | Cond::Neg | Cond::Two);
                            let defs_selected = match shape {
                                IfShape::ThenElseDefs => !truth,
                                IfShape::InElseDefs => truth,
                                _ => false,
                            };
                            if defs_selected {
                                return false;
                            }
                        }
                        Level::Const { .. } | Level::SiblingMacro => {}
                        _ => break,
                    }
                }
            }
            // a label directly in a loop body (`.if` and `.const` do not open a scope)
            Level::Braces { labelled: true } => {
                let mut j = i;
                while j > 0 {
                    j -= 1;
                    match levels[j] {
                        Level::If(..) | Level::Const { .. } | Level::SiblingMacro => continue,
                        Level::Loop(_) => return false,
                        _ => break,
                    }
                }
            }
            _ => {}
        }
    }
    true
}

fn leaf_valid(levels: &[Level], leaf: Leaf) -> bool {
    if matches!(leaf, Leaf::BneMinus | Leaf::BeqPlus) {
        // `-` / `+` are documented as the start / end of a *block*. The statement gives macro
        // expansions and imported files "a scope", not a block (the implementation defines no
        // `-`/`+` for them), so their by-hand meaning is fixed only directly inside a loop body or a
        // brace block; `.if` and `.const` are transparent.
        let nearest = levels.iter().rev().find(|l| !matches!(l, Level::If(..) | Level::Const { .. } | Level::SiblingMacro));
        return matches!(nearest, Some(Level::Loop(_)) | Some(Level::Braces { .. }));
    }
    let vk = match leaf {
        Leaf::Lda(v) | Leaf::Byte(v) => v,
        _ => return true,
    };
    match vk {
        VK::Index => levels.iter().any(|l| matches!(l, Level::Loop(_))),
        VK::Param => levels.iter().any(|l| matches!(l, Level::Macro { params, .. } if *params >= 1)),
        VK::Const => levels.iter().any(|l| matches!(l, Level::Const { .. })),
    }
}

impl Nest {
    fn valid(&self) -> bool {
        levels_valid(&self.levels) && leaf_valid(&self.levels, self.leaf)
    }

    fn describe(&self) -> String {
        let mut s = self.levels.iter().map(|l| l.name()).collect::<Vec<_>>().join("/");
        s.push(':');
        s.push_str(self.leaf.name());
        s
    }

    fn sig_path(&self) -> String {
        match self.levels.len() {
            0 => "-/-".to_string(),
            1 => format!("{}/-", self.levels[0].name()),
            _ => self.levels.iter().map(|l| l.name()).collect::<Vec<_>>().join("/"),
        }
    }
}

// ------------------------------------------------------------------------------------------
// nest -> program P
// ------------------------------------------------------------------------------------------

struct Prog {
    main: Vec<Stmt>,
    /// imported files, name -> statements
    files: BTreeMap<String, Vec<Stmt>>,
}

struct Builder<'n> {
    nest: &'n Nest,
    top: Vec<Stmt>,
    after: Vec<Stmt>,
    files: BTreeMap<String, Vec<Stmt>>,
}

impl<'n> Builder<'n> {
    fn value_name(&self, vk: VK) -> String {
        match vk {
            VK::Index => "index".to_string(),
            VK::Param => {
                let j = self
                    .nest
                    .levels
                    .iter()
                    .rposition(|l| matches!(l, Level::Macro { params, .. } if *params >= 1))
                    .unwrap_or(0);
                format!("p{}", j)
            }
            VK::Const => {
                let j = self
                    .nest
                    .levels
                    .iter()
                    .rposition(|l| matches!(l, Level::Const { .. }))
                    .unwrap_or(0);
                format!("k{}", j)
            }
        }
    }

    fn leaf(&self) -> Vec<Stmt> {
        match self.nest.leaf {
            Leaf::Nop => vec![imp("nop")],
            Leaf::LdaTop => vec![ins("lda", Form::Imm, id("c1"))],
            Leaf::BneMinus => vec![imp("dex"), ins("bne", Form::Plain, id("-"))],
            Leaf::BeqPlus => vec![ins("beq", Form::Plain, id("+")), imp("nop")],
            Leaf::TransientError => {
                let mut b = vec![];
                for _ in 0..50 {
                    b.push(ins("lda", Form::Plain, id("fwd")));
                }
                b.push(ins("bne", Form::Plain, id("tskip")));
                b.push(imp("nop"));
                b.push(label("tskip"));
                b.push(imp("inx"));
                vec![Stmt::Braces(b)]
            }
            Leaf::JmpOuter => vec![ins("jmp", Form::Plain, id("outer"))],
            Leaf::JmpFwd => vec![ins("jmp", Form::Plain, id("fwd"))],
            Leaf::InnerLabel => vec![Stmt::Braces(vec![
                label("il"),
                imp("dex"),
                ins("bne", Form::Plain, id("il")),
            ])],
            Leaf::InnerMinus => vec![Stmt::Braces(vec![imp("dex"), ins("bne", Form::Plain, id("-"))])],
            Leaf::Lda(vk) => vec![ins("lda", Form::Imm, id(&self.value_name(vk)))],
            Leaf::Byte(vk) => vec![byte(vec![bin(id(&self.value_name(vk)), "+", num(1))])],
        }
    }

    fn level(&mut self, i: usize) -> Vec<Stmt> {
        if i == self.nest.levels.len() {
            return self.leaf();
        }
        let child = self.level(i + 1);
        let filler = byte(vec![hex(0xe0 + i as i64)]);
        match self.nest.levels[i] {
            Level::Loop(n) => vec![Stmt::Loop {
                count: num(n as i64),
                // (the loop's own `index` is used once more behind whatever is nested in the body)
                body: {
                    let mut b = child;
                    b.push(byte(vec![bin(id("index"), "+", hex(0x40 + i as i64))]));
                    b
                },
            }],
            Level::If(c, shape) => {
                let cond = match c {
                    Cond::Lit1 => num(1),
                    Cond::Lit0 => num(0),
                    Cond::DefX => Expr::Call("defined".into(), vec![id("x")]),
                    Cond::DefU => Expr::Call("defined".into(), vec![id("u")]),
                    Cond::C1Eq2 => bin(id("c1"), "==", num(2)),
                    Cond::Late1 => id("late1"),
                    Cond::Late0 => id("late0"),
                    Cond::Neg => bin(num(1), "-", num(2)),
                    Cond::Two => num(2),
                };
                let mut defs = vec![filler.clone(), label("fwd"), label("outer"), konst("c1", num(9))];
                for (j, l) in self.nest.levels.iter().enumerate() {
                    if matches!(l, Level::Const { .. }) {
                        defs.push(konst(&format!("k{}", j), num(9)));
                    }
                }
                let (then, els) = match shape {
                    IfShape::Then => (child, None),
                    IfShape::ThenElse => (child, Some(vec![filler])),
                    IfShape::InElse => (vec![filler], Some(child)),
                    IfShape::ThenElseDefs => (child, Some(defs)),
                    IfShape::InElseDefs => (defs, Some(child)),
                };
                vec![Stmt::If { cond, then, els }]
            }
            Level::Macro { place, calls, params } => {
                let name = format!("m{}", i);
                let pnames: Vec<String> = [format!("p{}", i), format!("q{}", i)][..params as usize].to_vec();
                let mut body = child;
                if params == 2 {
                    body.push(byte(vec![id(&pnames[1])]));
                }
                let def = Stmt::MacroDef {
                    name: name.clone(),
                    params: pnames,
                    body,
                };
                let args1 = [num(7), lit("$55")];
                let args2 = [bin(num(2), "+", num(4)), lo("fwd")];
                let mut out = vec![];
                match place {
                    Place::Top => self.top.push(def),
                    Place::After => self.after.push(def),
                    Place::Local => out.push(def),
                }
                out.push(Stmt::MacroCall {
                    name: name.clone(),
                    args: args1[..params as usize].to_vec(),
                });
                if calls == 2 {
                    out.push(Stmt::MacroCall {
                        name,
                        args: args2[..params as usize].to_vec(),
                    });
                }
                out
            }
            Level::Const { after, val } => {
                let def = konst(
                    &format!("k{}", i),
                    match val {
                        CVal::Two => num(2),
                        CVal::OnePlusOne => bin(num(1), "+", num(1)),
                    },
                );
                let mut out = vec![];
                if !after {
                    out.push(def.clone());
                }
                out.extend(child);
                if after {
                    out.push(def);
                }
                out
            }
            Level::SiblingMacro => {
                let name = format!("by{}", i);
                let mut body = vec![konst("c1", num(5)), label("outer"), label("fwd")];
                for (j, l) in self.nest.levels.iter().enumerate() {
                    if matches!(l, Level::Const { .. }) {
                        body.push(konst(&format!("k{}", j), num(6)));
                    }
                }
                body.push(ins("lda", Form::Imm, id("c1")));
                body.push(ins("jmp", Form::Plain, id("fwd")));
                self.top.push(Stmt::MacroDef {
                    name: name.clone(),
                    params: vec![],
                    body,
                });
                let mut out = child;
                out.push(Stmt::MacroCall { name, args: vec![] });
                out
            }
            Level::Braces { labelled } => {
                // a label that is called like a macro which is defined outside the block and invoked inside it:
                // the invocation still means the macro (a label is nothing that can be invoked)
                let mut body = vec![];
                for (j, l) in self.nest.levels.iter().enumerate().skip(i + 1) {
                    if let Level::Macro { place: Place::Top | Place::After, .. } = l {
                        body.push(label(&format!("m{}", j)));
                    }
                }
                body.extend(child);
                if labelled {
                    vec![label_block(&format!("lb{}", i), body)]
                } else {
                    vec![Stmt::Braces(body)]
                }
            }
            Level::Import { imp: kind, block } => {
                let file = format!("f{}.asm", i);
                let fl = format!("fl{}", i);
                let fc = format!("fc{}", i);
                let fe = format!("fe{}", i);
                let fs = format!("fs{}", i);
                let ad = format!("ad{}", i);
                // the imported file
                let mut fstmts = vec![
                    label(&fl),
                    ins("lda", Form::Imm, id(&fc)),
                    konst(&fc, num(5)),
                    Stmt::If {
                        cond: Expr::Call("defined".into(), vec![id(&ad)]),
                        then: vec![byte(vec![id(&ad)])],
                        els: Some(vec![byte(vec![lit("$ee")])]),
                    },
                ];
                // a block label whose body refers to a constant of its own file
                fstmts.push(label_block(&fs, vec![ins("lda", Form::Imm, id(&fc))]));
                fstmts.extend(child);
                fstmts.push(label(&fe));
                fstmts.push(imp("rts"));
                self.files.insert(file.clone(), fstmts);
                let blk = |v: i64| -> Option<Vec<Stmt>> {
                    if block {
                        Some(vec![konst(&ad, num(v))])
                    } else {
                        None
                    }
                };
                let import = |args: ImportArgs, v: i64| Stmt::Import {
                    args,
                    file: file.clone(),
                    block: blk(v),
                };
                let a = format!("a{}", i);
                let b = format!("b{}", i);
                let c = format!("cc{}", i);
                let ns = format!("ns{}", i);
                let ms = format!("ms{}", i);
                // (import statements, names under which `fl` is visible, name under which `fc` is visible)
                let (imports, fl_names, fc_name): (Vec<Stmt>, Vec<String>, Option<String>) = match kind {
                    Imp::Star => (vec![import(ImportArgs::All(None), 3)], vec![fl.clone()], Some(fc.clone())),
                    Imp::Name => (
                        vec![import(ImportArgs::Specific(vec![(fl.clone(), None)]), 3)],
                        vec![fl.clone()],
                        None,
                    ),
                    Imp::Alias => (
                        vec![import(ImportArgs::Specific(vec![(fl.clone(), Some(a.clone()))]), 3)],
                        vec![a.clone()],
                        None,
                    ),
                    Imp::Ns => (
                        vec![import(ImportArgs::All(Some(ns.clone())), 3)],
                        vec![format!("{}.{}", ns, fl)],
                        Some(format!("{}.{}", ns, fc)),
                    ),
                    Imp::Multi => (
                        vec![import(
                            ImportArgs::Specific(vec![(fl.clone(), None), (fc.clone(), Some(c.clone()))]),
                            3,
                        )],
                        vec![fl.clone()],
                        Some(c.clone()),
                    ),
                    Imp::Twice => (
                        vec![
                            import(ImportArgs::Specific(vec![(fl.clone(), Some(a.clone()))]), 3),
                            import(ImportArgs::Specific(vec![(fl.clone(), Some(b.clone()))]), 4),
                        ],
                        vec![a.clone(), b.clone()],
                        None,
                    ),
                    Imp::Scope => (
                        vec![import(ImportArgs::Specific(vec![(fs.clone(), None)]), 3)],
                        vec![fs.clone()],
                        None,
                    ),
                    Imp::TwiceNs => (
                        vec![
                            import(ImportArgs::All(Some(ns.clone())), 3),
                            import(ImportArgs::All(Some(ms.clone())), 4),
                        ],
                        vec![format!("{}.{}", ns, fl), format!("{}.{}", ms, fl)],
                        Some(format!("{}.{}", ms, fc)),
                    ),
                };
                let mut out = vec![ins("jsr", Form::Plain, id(&fl_names[0]))];
                out.extend(imports);
                for n in &fl_names {
                    out.push(ins("jsr", Form::Plain, id(n)));
                }
                if let Some(cn) = fc_name {
                    out.push(ins("lda", Form::Imm, id(&cn)));
                }
                // imports compose: a name that the imported file has itself imported (the next level is an import whose
                // label is visible at that file's top level) comes along with `*`
                if let Some(Level::Import { imp: inner, .. }) = self.nest.levels.get(i + 1) {
                    let inner_visible = matches!(inner, Imp::Star | Imp::Name | Imp::Multi);
                    let prefix = match kind {
                        Imp::Star => Some(String::new()),
                        Imp::Ns => Some(format!("{}.", ns)),
                        _ => None,
                    };
                    if let (true, Some(prefix)) = (inner_visible, prefix) {
                        out.push(ins("jsr", Form::Plain, id(&format!("{}fl{}", prefix, i + 1))));
                    }
                }
                out
            }
        }
    }
}

fn build(nest: &Nest) -> Prog {
    let mut b = Builder {
        nest,
        top: vec![],
        after: vec![],
        files: BTreeMap::new(),
    };
    let body = b.level(0);
    let mut main = vec![label("outer"), imp("nop"), konst("c1", num(2)), konst("x", num(1))];
    main.extend(b.top);
    main.extend(body);
    main.push(label("fwd"));
    main.push(imp("rts"));
    main.extend(b.after);
    main.push(konst("late1", num(1)));
    main.push(konst("late0", num(0)));
    main.push(konst("late_zp", lit("$10")));
    Prog { main, files: b.files }
}

// ------------------------------------------------------------------------------------------
// expand(P): AST -> AST, by hand
// ------------------------------------------------------------------------------------------

#[derive(Default)]
struct Frame<'a> {
    index: Option<i64>,
    /// macro parameters bound in this scope (kept as names, bound by a generated `.const`)
    params: HashSet<String>,
    /// user constants: name -> expanded value
    consts: HashMap<String, Expr>,
    macros: HashMap<String, (&'a [String], &'a [Stmt])>,
    /// labels and generated import aliases
    names: HashSet<String>,
    /// `* as ns`: ns -> generated import scope label
    ns: HashMap<String, String>,
    import_ids: HashMap<*const Stmt, usize>,
    if_choice: HashMap<*const Stmt, bool>,
}

enum Found {
    Index(i64),
    Param,
    Const(Expr),
    Name,
    Nothing,
}

struct Expander<'a> {
    files: &'a BTreeMap<String, Vec<Stmt>>,
    frames: Vec<Frame<'a>>,
    imp_counter: usize,
    depth: usize,
}

fn parse_num(t: &str) -> Option<i64> {
    let l = t.to_ascii_lowercase();
    if l == "true" {
        return Some(1);
    }
    if l == "false" {
        return Some(0);
    }
    if let Some(h) = t.strip_prefix('$') {
        return i64::from_str_radix(h, 16).ok();
    }
    if let Some(b) = t.strip_prefix('%') {
        return i64::from_str_radix(b, 2).ok();
    }
    t.parse::<i64>().ok()
}

/// Static evaluation of an (already expanded) expression; identifiers are not static.
fn static_eval(e: &Expr) -> Result<i64, String> {
    Ok(match e {
        Expr::Num(t) => parse_num(t).ok_or_else(|| format!("literal {}", t))?,
        Expr::Paren(i) => static_eval(i)?,
        Expr::Not(i) => (static_eval(i)? == 0) as i64,
        Expr::Neg(i) => static_eval(i)?.wrapping_neg(),
        Expr::Bin(l, op, r) => {
            let (a, b) = (static_eval(l)?, static_eval(r)?);
            match *op {
                "+" => a.wrapping_add(b),
                "-" => a.wrapping_sub(b),
                "*" => a.wrapping_mul(b),
                "==" => (a == b) as i64,
                "!=" => (a != b) as i64,
                ">" => (a > b) as i64,
                ">=" => (a >= b) as i64,
                "<" => (a < b) as i64,
                "<=" => (a <= b) as i64,
                "&&" => (a != 0 && b != 0) as i64,
                "||" => (a != 0 || b != 0) as i64,
                other => return Err(format!("operator {} not evaluated by hand", other)),
            }
        }
        other => return Err(format!("not static: {:?}", other)),
    })
}

fn idents_of(e: &Expr, out: &mut Vec<String>) {
    match e {
        Expr::Ident { path, .. } => out.extend(path.split('.').map(|s| s.to_string())),
        Expr::Paren(i) | Expr::Not(i) | Expr::Neg(i) => idents_of(i, out),
        Expr::Bin(l, _, r) => {
            idents_of(l, out);
            idents_of(r, out);
        }
        Expr::Call(_, args) => args.iter().for_each(|a| idents_of(a, out)),
        _ => {}
    }
}

impl<'a> Expander<'a> {
    fn lookup(&self, name: &str) -> Found {
        for f in self.frames.iter().rev() {
            if name == "index" {
                if let Some(i) = f.index {
                    return Found::Index(i);
                }
            }
            if f.params.contains(name) {
                return Found::Param;
            }
            if let Some(v) = f.consts.get(name) {
                return Found::Const(v.clone());
            }
            if f.names.contains(name) {
                return Found::Name;
            }
        }
        Found::Nothing
    }

    fn xexpr(&self, e: &Expr) -> Result<Expr, String> {
        Ok(match e {
            Expr::Num(_) | Expr::Pc => e.clone(),
            Expr::Str(s) => {
                if s.contains('{') {
                    return Err("string interpolation".into());
                }
                e.clone()
            }
            Expr::Ident { modifier, path } => {
                if path == "-" || path == "+" {
                    return Ok(e.clone());
                }
                let parts: Vec<&str> = path.split('.').collect();
                if parts.iter().any(|p| *p == "super") {
                    return Err("super".into());
                }
                if parts.len() == 1 {
                    match self.lookup(path) {
                        Found::Index(i) => {
                            if modifier.is_some() {
                                return Err("modifier on index".into());
                            }
                            num(i)
                        }
                        Found::Const(v) => {
                            if modifier.is_some() {
                                return Err("modifier on constant".into());
                            }
                            // (a literal needs no parentheses - and as a whole operand they would turn `lda c` into
                            // the indirect form `lda (…)`)
                            match v {
                                Expr::Num(_) => v,
                                _ => paren(v),
                            }
                        }
                        _ => e.clone(),
                    }
                } else {
                    for f in self.frames.iter().rev() {
                        if let Some(scope) = f.ns.get(parts[0]) {
                            let mut p = vec![scope.as_str()];
                            p.extend(&parts[1..]);
                            return Ok(Expr::Ident {
                                modifier: *modifier,
                                path: p.join("."),
                            });
                        }
                        if f.names.contains(parts[0]) || f.consts.contains_key(parts[0]) {
                            break;
                        }
                    }
                    e.clone()
                }
            }
            Expr::Paren(i) => paren(self.xexpr(i)?),
            Expr::Not(i) => Expr::Not(Box::new(self.xexpr(i)?)),
            Expr::Neg(i) => Expr::Neg(Box::new(self.xexpr(i)?)),
            Expr::Bin(l, op, r) => bin(self.xexpr(l)?, op, self.xexpr(r)?),
            Expr::Call(name, args) => {
                if name == "defined" && args.len() == 1 {
                    match &args[0] {
                        Expr::Ident { path, .. } if !path.contains('.') => {
                            num(!matches!(self.lookup(path), Found::Nothing) as i64)
                        }
                        _ => return Err("defined() of a non-trivial expression".into()),
                    }
                } else {
                    return Err(format!("call of {}", name));
                }
            }
        })
    }

    fn top(&mut self) -> &mut Frame<'a> {
        self.frames.last_mut().unwrap()
    }

    /// Visible names an import statement introduces at the import site.
    fn import_visible(&mut self, args: &'a ImportArgs, file: &str, block: Option<&'a Vec<Stmt>>) -> Result<Vec<String>, String> {
        Ok(match args {
            ImportArgs::All(Some(_)) => vec![],
            ImportArgs::All(None) => {
                let stmts = self.files.get(file).ok_or_else(|| format!("file {} missing", file))?;
                self.depth += 1;
                if self.depth > 12 {
                    return Err("import recursion".into());
                }
                self.frames.push(Frame::default());
                let mut r = Ok(());
                if let Some(b) = block {
                    r = self.hoist(b);
                }
                if r.is_ok() {
                    r = self.hoist(stmts);
                }
                let f = self.frames.pop().unwrap();
                self.depth -= 1;
                r?;
                let mut v: Vec<String> = f.consts.keys().cloned().collect();
                v.extend(f.names.iter().cloned());
                v
            }
            ImportArgs::Specific(list) => list
                .iter()
                .map(|(n, a)| a.clone().unwrap_or_else(|| n.clone()))
                .collect(),
        })
    }

    /// Registers the definitions a statement list contributes to the current scope. Conditionals
    /// come last: their condition may refer to a constant that is defined further down.
    fn hoist(&mut self, list: &'a [Stmt]) -> Result<(), String> {
        for s in list {
            match s {
                Stmt::Const { name, value } => {
                    let v = self.xexpr(value)?;
                    self.top().consts.insert(name.clone(), v);
                }
                Stmt::MacroDef { name, params, body } => {
                    self.top().macros.insert(name.clone(), (params.as_slice(), body.as_slice()));
                }
                Stmt::Label { name, .. } => {
                    self.top().names.insert(name.clone());
                }
                Stmt::Import { args, file, block } => {
                    self.imp_counter += 1;
                    let n = self.imp_counter;
                    self.top().import_ids.insert(s as *const Stmt, n);
                    if let ImportArgs::All(Some(ns)) = args {
                        self.top().ns.insert(ns.clone(), format!("imp{}", n));
                    }
                    let vis = self.import_visible(args, file, block.as_ref())?;
                    self.top().names.extend(vis);
                }
                _ => {}
            }
        }
        for s in list {
            if let Stmt::If { cond, then, els } = s {
                let c = static_eval(&self.xexpr(cond)?)? != 0;
                self.top().if_choice.insert(s as *const Stmt, c);
                if c {
                    self.hoist(then)?;
                } else if let Some(e) = els {
                    self.hoist(e)?;
                }
            }
        }
        Ok(())
    }

    fn scope(&mut self, frame: Frame<'a>, lists: &[&'a [Stmt]]) -> Result<Vec<Stmt>, String> {
        self.depth += 1;
        if self.depth > 12 {
            return Err("nesting too deep (recursion?)".into());
        }
        self.frames.push(frame);
        let mut r: Result<Vec<Stmt>, String> = Ok(vec![]);
        for l in lists {
            if let Err(e) = self.hoist(l) {
                r = Err(e);
                break;
            }
        }
        if r.is_ok() {
            let mut out = vec![];
            for l in lists {
                match self.seq(l) {
                    Ok(v) => out.extend(v),
                    Err(e) => {
                        r = Err(e);
                        break;
                    }
                }
            }
            if r.is_ok() {
                r = Ok(out);
            }
        }
        self.frames.pop();
        self.depth -= 1;
        r
    }

    fn find_macro(&self, name: &str) -> Option<(&'a [String], &'a [Stmt])> {
        for f in self.frames.iter().rev() {
            if let Some(m) = f.macros.get(name) {
                return Some(*m);
            }
        }
        None
    }

    fn seq(&mut self, list: &'a [Stmt]) -> Result<Vec<Stmt>, String> {
        let mut out = vec![];
        for s in list {
            match s {
                Stmt::Instr { mnemonic, form, operand } => out.push(Stmt::Instr {
                    mnemonic: mnemonic.clone(),
                    form: *form,
                    operand: match operand {
                        Some(e) => Some(self.xexpr(e)?),
                        None => None,
                    },
                }),
                Stmt::Data { size, values } => out.push(Stmt::Data {
                    size,
                    values: values.iter().map(|v| self.xexpr(v)).collect::<Result<_, _>>()?,
                }),
                Stmt::Text { encoding, value } => out.push(Stmt::Text {
                    encoding: *encoding,
                    value: self.xexpr(value)?,
                }),
                Stmt::PcSet(e) => out.push(Stmt::PcSet(self.xexpr(e)?)),
                Stmt::Align(e) => out.push(Stmt::Align(self.xexpr(e)?)),
                Stmt::Label { name, block } => out.push(Stmt::Label {
                    name: name.clone(),
                    block: match block {
                        Some(b) => Some(self.scope(Frame::default(), &[b.as_slice()])?),
                        None => None,
                    },
                }),
                Stmt::Braces(b) => out.push(Stmt::Braces(self.scope(Frame::default(), &[b.as_slice()])?)),
                Stmt::Const { name, value } => out.push(Stmt::Const {
                    name: name.clone(),
                    value: self.xexpr(value)?,
                }),
                Stmt::Loop { count, body } => {
                    let n = static_eval(&self.xexpr(count)?)?;
                    if !(0..=64).contains(&n) {
                        return Err("loop count out of the by-hand range".into());
                    }
                    for i in 0..n {
                        let f = Frame {
                            index: Some(i),
                            ..Default::default()
                        };
                        out.push(Stmt::Braces(self.scope(f, &[body.as_slice()])?));
                    }
                }
                Stmt::If { then, els, .. } => {
                    let c = self
                        .frames
                        .iter()
                        .rev()
                        .find_map(|f| f.if_choice.get(&(s as *const Stmt)).copied())
                        .ok_or("conditional not seen while collecting definitions")?;
                    if c {
                        out.extend(self.seq(then)?);
                    } else if let Some(e) = els {
                        out.extend(self.seq(e)?);
                    }
                }
                Stmt::MacroDef { .. } => {}
                Stmt::MacroCall { name, args } => {
                    let (params, body) = self.find_macro(name).ok_or_else(|| format!("macro {} not found", name))?;
                    if params.len() != args.len() {
                        return Err("macro argument count".into());
                    }
                    let args: Vec<Expr> = args.iter().map(|a| self.xexpr(a)).collect::<Result<_, _>>()?;
                    // the arguments are evaluated where the invocation stands (names the body defines, or a
                    // parameter of the same name, do not capture them): bound to constants with unique
                    // names in front of the scope, which the parameters are then defined from
                    self.imp_counter += 1;
                    let n = self.imp_counter;
                    for (p, a) in params.iter().zip(args.into_iter()) {
                        out.push(Stmt::Const {
                            name: format!("arg{}_{}", n, p),
                            value: paren(a),
                        });
                    }
                    let mut f = Frame::default();
                    f.params.extend(params.iter().cloned());
                    let mut inner: Vec<Stmt> = params
                        .iter()
                        .map(|p| Stmt::Const {
                            name: p.clone(),
                            value: id(&format!("arg{}_{}", n, p)),
                        })
                        .collect();
                    inner.extend(self.scope(f, &[body])?);
                    out.push(Stmt::Braces(inner));
                }
                Stmt::Import { args, file, block } => {
                    let n = self
                        .frames
                        .iter()
                        .rev()
                        .find_map(|f| f.import_ids.get(&(s as *const Stmt)).copied())
                        .ok_or("import not seen while collecting definitions")?;
                    let scope_name = format!("imp{}", n);
                    let stmts = self.files.get(file).ok_or_else(|| format!("file {} missing", file))?;
                    let mut lists: Vec<&'a [Stmt]> = vec![];
                    if let Some(b) = block {
                        lists.push(b.as_slice());
                    }
                    lists.push(stmts.as_slice());
                    let body = self.scope(Frame::default(), &lists)?;
                    let mut aliases: Vec<(String, String)> = vec![];
                    match args {
                        ImportArgs::All(Some(_)) => {}
                        ImportArgs::All(None) => {
                            let mut seen = HashSet::new();
                            for st in &body {
                                if let Stmt::Label { name, .. } | Stmt::Const { name, .. } = st {
                                    if seen.insert(name.clone()) {
                                        aliases.push((name.clone(), name.clone()));
                                    }
                                }
                            }
                        }
                        ImportArgs::Specific(list) => {
                            for (name, alias) in list {
                                aliases.push((alias.clone().unwrap_or_else(|| name.clone()), name.clone()));
                            }
                        }
                    }
                    out.push(Stmt::Label {
                        name: scope_name.clone(),
                        block: Some(body),
                    });
                    for (alias, name) in aliases {
                        out.push(Stmt::Const {
                            name: alias,
                            value: id(&format!("{}.{}", scope_name, name)),
                        });
                    }
                }
                other => return Err(format!("statement outside the by-hand alphabet: {}", stmt_text(other).lines().next().unwrap_or(""))),
            }
        }
        Ok(out)
    }
}

fn expand(prog: &Prog) -> Result<Vec<Stmt>, String> {
    let mut x = Expander {
        files: &prog.files,
        frames: vec![],
        imp_counter: 0,
        depth: 0,
    };
    x.scope(Frame::default(), &[prog.main.as_slice()])
}

// ------------------------------------------------------------------------------------------
// oracle
// ------------------------------------------------------------------------------------------

#[derive(Clone, Copy, PartialEq, Eq, Hash, Debug, PartialOrd, Ord)]
enum FailKind {
    BytesDiffer,
    PRejected,
    Panic,
}

impl FailKind {
    fn name(&self) -> &'static str {
        match self {
            FailKind::BytesDiffer => "bytes-differ",
            FailKind::PRejected => "P-rejected",
            FailKind::Panic => "panic",
        }
    }
}

/// Failure class used while reducing: the kind plus the class of the first diagnostic.
type Class = (FailKind, String);

fn msg_class(m: &str) -> String {
    let head = m.split(':').next().unwrap_or(m);
    head.split_whitespace().take(6).collect::<Vec<_>>().join("-")
}

fn segs_of(b: &Built) -> Vec<(String, usize, Vec<u8>)> {
    b.segs.iter().map(|s| (s.name.clone(), s.start, s.bytes.clone())).collect()
}

fn segs_text(segs: &[(String, usize, Vec<u8>)]) -> String {
    segs.iter()
        .map(|s| format!("{}@${:04x}: {}", s.0, s.1, hex_bytes(&s.2)))
        .collect::<Vec<_>>()
        .join("; ")
}

struct Texts {
    main: String,
    files: Vec<(String, String)>,
    expanded: Result<String, String>,
}

fn texts_of(prog: &Prog, expanded: &Result<Vec<Stmt>, String>) -> Texts {
    Texts {
        main: program_text(&prog.main),
        files: prog.files.iter().map(|(n, s)| (n.clone(), program_text(s))).collect(),
        expanded: expanded.as_ref().map(|e| program_text(e)).map_err(|e| e.clone()),
    }
}

fn files_json(t: &Texts) -> Value {
    let mut m = serde_json::Map::new();
    m.insert("main.asm".into(), json!(t.main));
    for (n, s) in &t.files {
        m.insert(n.clone(), json!(s));
    }
    Value::Object(m)
}

fn assemble_p(t: &Texts) -> Result<Built, mvlib::panics::PanicInfo> {
    let mut files: Vec<(&str, &str)> = vec![("main.asm", t.main.as_str())];
    for (n, s) in &t.files {
        files.push((n.as_str(), s.as_str()));
    }
    probe::assemble(&files, &Opts::default())
}

/// Result of assembling a hand expansion (many nests share one expansion text: cached).
struct ERes {
    ok: bool,
    panicked: bool,
    segs: Vec<(String, usize, Vec<u8>)>,
    diags: Vec<String>,
    cause: String,
}

const SHARDS: usize = 64;

struct Shared {
    ecache: Vec<Mutex<HashMap<(u64, u64), Arc<ERes>>>>,
    failing: Mutex<HashMap<Nest, Class>>,
    images: Mutex<HashSet<u64>>,
    exp_rejected_examples: Mutex<BTreeMap<String, Vec<Value>>>,
    both_rejected_examples: Mutex<BTreeMap<String, Vec<Value>>>,
    ambiguous_examples: Mutex<Vec<Value>>,
}

impl Shared {
    fn expansion(&self, etext: &str, ctx: Option<&Ctx>) -> Arc<ERes> {
        use std::hash::{Hash, Hasher};
        let mut h = std::collections::hash_map::DefaultHasher::new();
        etext.hash(&mut h);
        let key = (fnv_str(etext), h.finish());
        let shard = &self.ecache[(key.0 % SHARDS as u64) as usize];
        if let Some(r) = shard.lock().unwrap().get(&key) {
            if let Some(c) = ctx {
                c.count("expansion_assembly_cache_hits");
            }
            return r.clone();
        }
        if let Some(c) = ctx {
            c.count("distinct_expansions_assembled");
        }
        let r = match probe::asm(etext) {
            Ok(b) => ERes {
                ok: b.ok(),
                panicked: false,
                segs: segs_of(&b),
                diags: b.all_diags().iter().map(|d| d.short()).collect(),
                cause: msg_class(&b.all_diags().first().map(|d| d.message.clone()).unwrap_or_else(|| format!("{:?}", b.stop))),
            },
            Err(p) => ERes {
                ok: false,
                panicked: true,
                segs: vec![],
                diags: vec![format!("panic {} at {}", p.message, p.site)],
                cause: "panic".into(),
            },
        };
        let r = Arc::new(r);
        shard.lock().unwrap().insert(key, r.clone());
        r
    }
}

/// Verdict of one pair; `detail` = (what, case) for failing pairs when `want_detail`.
struct Verdict {
    fail: Option<Class>,
    detail: Option<(String, Value)>,
}

fn run_pair(ctx: &Ctx, isa: &Isa, shared: &Shared, nest: &Nest, counting: bool, want_detail: bool) -> Verdict {
    let t0 = std::time::Instant::now();
    let prog = build(nest);
    let expanded = expand(&prog);
    let t = texts_of(&prog, &expanded);
    let depth = nest.levels.len();
    if counting {
        ctx.count_n("cpu_us_build_expand_render", t0.elapsed().as_micros() as u64);
    }
    let count = |k: &str| {
        if counting {
            ctx.count(k);
        }
    };
    if counting {
        ctx.eval(|| json!({"nest": nest.describe(), "files": files_json(&t), "expanded": t.expanded.clone().unwrap_or_else(|e| format!("<{}>", e))}));
    }
    let case = |class: &str| {
        json!({"kind": "c07", "nest": nest.describe(), "class": class, "files": files_json(&t),
               "expanded": t.expanded.clone().unwrap_or_else(|e| format!("<{}>", e))})
    };
    let none = Verdict { fail: None, detail: None };
    let etext = match &t.expanded {
        Ok(e) => e.clone(),
        Err(why) => {
            count(&format!("unexpandable:{}", msg_class(why)));
            return none;
        }
    };
    let t1 = std::time::Instant::now();
    let p = assemble_p(&t);
    if counting {
        ctx.count_n("cpu_us_assemble_P", t1.elapsed().as_micros() as u64);
    }
    let p = match p {
        Ok(b) => b,
        Err(pi) => {
            count("P_panicked");
            let class = (FailKind::Panic, pi.site.clone());
            let detail = if want_detail {
                Some((
                    format!("assembling P panics: {} at {} ; P = {:?}", pi.message, pi.site, t.main),
                    case("panic"),
                ))
            } else {
                None
            };
            return Verdict { fail: Some(class), detail };
        }
    };
    let t2 = std::time::Instant::now();
    let e = shared.expansion(&etext, counting.then_some(ctx));
    if counting {
        ctx.count_n("cpu_us_assemble_expansion", t2.elapsed().as_micros() as u64);
    }
    if e.panicked {
        count("expansion_panicked");
        return none;
    }
    match (p.ok(), e.ok) {
        (false, false) => {
            count("trivial_both_rejected");
            if counting {
                let cause = msg_class(&p.all_diags().first().map(|d| d.message.clone()).unwrap_or_else(|| format!("{:?}", p.stop)));
                ctx.count(&format!("both_rejected:{}", cause));
                let mut ex = shared.both_rejected_examples.lock().unwrap();
                let v = ex.entry(cause).or_default();
                if v.len() < 2 {
                    v.push(json!({"nest": nest.describe(), "files": files_json(&t), "expanded": etext,
                                  "diagnostics_P": p.all_diags().iter().map(|d| d.short()).collect::<Vec<_>>(),
                                  "diagnostics_expansion": e.diags}));
                }
            }
            none
        }
        (true, false) => {
            let cause = e.cause.clone();
            count("expansion_rejected_P_assembles");
            count(&format!("expansion_rejected:{}", cause));
            if counting {
                let mut ex = shared.exp_rejected_examples.lock().unwrap();
                let v = ex.entry(cause).or_default();
                if v.len() < 2 {
                    v.push(json!({"nest": nest.describe(), "files": files_json(&t), "expanded": etext,
                                  "diagnostics": e.diags}));
                }
            }
            none
        }
        (false, true) => {
            count("P_rejected_expansion_assembles");
            let first = p.all_diags().first().map(|d| d.message.clone()).unwrap_or_else(|| format!("{:?}", p.stop));
            let class = (FailKind::PRejected, msg_class(&first));
            let detail = if want_detail {
                Some((
                    format!(
                        "P is rejected ({}; stop={:?}) but its hand expansion assembles to [{}]; P = {:?}{} ; expand(P) = {:?}",
                        p.all_diags().iter().map(|d| d.short()).collect::<Vec<_>>().join(" | "),
                        p.stop,
                        segs_text(&e.segs),
                        t.main,
                        t.files.iter().map(|(n, s)| format!(" ; {} = {:?}", n, s)).collect::<String>(),
                        etext
                    ),
                    case("P-rejected"),
                ))
            } else {
                None
            };
            Verdict { fail: Some(class), detail }
        }
        (true, true) => {
            count("both_assembled");
            count(&format!("both_assembled_depth{}", depth));
            if counting {
                ctx.nontrivial(fnv_str(&format!("{}\u{0}{:?}", t.main, t.files)));
                shared.images.lock().unwrap().insert(mvlib::fnv(&p.bytes()));
                for l in &nest.levels {
                    ctx.count(&format!("nontrivial_with_{}", l.kind_name()));
                }
                ctx.count(&format!("nontrivial_leaf_{}", nest.leaf.name()));
                if p.passes > 3 {
                    ctx.count("P_needed_more_than_3_passes");
                }
            }
            if segs_of(&p) == e.segs {
                count("equal_bytes");
                return none;
            }
            // refinement: two different *valid* fixed points are "ambiguous", not a violation. Several fixed points
            // come from the size of an instruction depending on a forward reference, i.e. the two images differ in
            // their layout; with the same layout every address is the same in both and so is everything computed
            // from addresses - what differs then is a constant or a binding, which the certificate (it reads the
            // implementation's own symbol table) cannot judge
            let has_import = !prog.files.is_empty();
            let same_layout = {
                let ps = segs_of(&p);
                ps.len() == e.segs.len() && ps.iter().zip(e.segs.iter()).all(|(a, b)| a.0 == b.0 && a.1 == b.1 && a.2.len() == b.2.len())
            };
            if !has_import && !same_layout {
                let cp = certify(isa, &p, &prog.main);
                let exp_prog = expanded.as_ref().unwrap();
                let valid = |c: &crate::cert::Cert| c.problems.is_empty() && c.unsupported.is_empty();
                let e_valid = match probe::asm(&etext) {
                    Ok(eb) => valid(&certify(isa, &eb, exp_prog)),
                    Err(_) => false,
                };
                if valid(&cp) && e_valid {
                    count("ambiguous_two_valid_fixed_points");
                    if counting {
                        let mut a = shared.ambiguous_examples.lock().unwrap();
                        if a.len() < 3 {
                            a.push(case("ambiguous"));
                        }
                    }
                    return none;
                }
                count("bytes_differ_certificate_checked");
            } else {
                count("bytes_differ_certificate_skipped_import");
            }
            count("bytes_differ");
            let class = (FailKind::BytesDiffer, String::new());
            let detail = if want_detail {
                Some((
                    format!(
                        "P assembles to [{}] but its hand expansion to [{}]; P = {:?}{} ; expand(P) = {:?}",
                        segs_text(&segs_of(&p)),
                        segs_text(&e.segs),
                        t.main,
                        t.files.iter().map(|(n, s)| format!(" ; {} = {:?}", n, s)).collect::<String>(),
                        etext
                    ),
                    case("bytes-differ"),
                ))
            } else {
                None
            };
            Verdict { fail: Some(class), detail }
        }
    }
}

// ------------------------------------------------------------------------------------------
// reduction of failing nests against the table of failing nests
// ------------------------------------------------------------------------------------------

fn reduce(start: &Nest, class: &Class, table: &HashMap<Nest, Class>, levels: &[Level]) -> Nest {
    let mut n = start.clone();
    let same = |c: &Nest| c.valid() && table.get(c) == Some(class);
    'outer: loop {
        // drop a level
        for i in 0..n.levels.len() {
            let mut c = n.clone();
            c.levels.remove(i);
            if !c.levels.is_empty() && same(&c) {
                n = c;
                continue 'outer;
            }
        }
        // simpler leaf
        for l in LEAVES.iter() {
            if *l == n.leaf {
                break;
            }
            let mut c = n.clone();
            c.leaf = *l;
            if same(&c) {
                n = c;
                continue 'outer;
            }
        }
        // simpler variant of a level
        for i in 0..n.levels.len() {
            for v in levels.iter().filter(|v| v.kind() == n.levels[i].kind()) {
                if *v == n.levels[i] {
                    break;
                }
                let mut c = n.clone();
                c.levels[i] = *v;
                if same(&c) {
                    n = c;
                    continue 'outer;
                }
            }
        }
        return n;
    }
}

// ------------------------------------------------------------------------------------------
// enumeration
// ------------------------------------------------------------------------------------------

fn nests_with_prefix(levels: &[Level], prefix: &[Level], remaining: usize, out: &mut Vec<Nest>) {
    if remaining == 0 {
        if !levels_valid(prefix) {
            return;
        }
        for leaf in LEAVES.iter() {
            if leaf_valid(prefix, *leaf) {
                out.push(Nest {
                    levels: prefix.to_vec(),
                    leaf: *leaf,
                });
            }
        }
        return;
    }
    for l in levels {
        let mut p = prefix.to_vec();
        p.push(*l);
        if !levels_valid(&p) {
            continue;
        }
        nests_with_prefix(levels, &p, remaining - 1, out);
    }
}

fn print_built(title: &str, b: &Result<Built, mvlib::panics::PanicInfo>) {
    match b {
        Ok(b) => {
            println!(
                "{}: ok={} passes={} stop={:?} diagnostics={:?}",
                title,
                b.ok(),
                b.passes,
                b.stop,
                b.all_diags().iter().map(|d| d.short()).collect::<Vec<_>>()
            );
            for s in &b.segs {
                println!("  segment {} ${:04x}..${:04x}: {}", s.name, s.start, s.end, hex_bytes(&s.bytes));
            }
        }
        Err(p) => println!("{}: PANIC {} at {}", title, p.message, p.site),
    }
}

pub fn run(ctx: &Ctx, replay: Option<&Value>) -> i32 {
    let isa = Isa::new();
    if let Some(case) = replay {
        let mut files: Vec<(String, String)> = vec![];
        if let Some(m) = case["files"].as_object() {
            if let Some(main) = m.get("main.asm").and_then(|v| v.as_str()) {
                files.push(("main.asm".into(), main.to_string()));
            }
            for (k, v) in m {
                if k != "main.asm" {
                    files.push((k.clone(), v.as_str().unwrap_or("").to_string()));
                }
            }
        }
        let expanded = case["expanded"].as_str().unwrap_or("").to_string();
        println!("replaying nest {}", case["nest"].as_str().unwrap_or("?"));
        for (n, t) in &files {
            println!("--- {}\n{}", n, t);
        }
        println!("--- hand expansion\n{}\n---", expanded);
        let refs: Vec<(&str, &str)> = files.iter().map(|(n, t)| (n.as_str(), t.as_str())).collect();
        let p = probe::assemble(&refs, &Opts::default());
        let e = probe::asm(&expanded);
        print_built("P", &p);
        print_built("expand(P)", &e);
        let verdict = match (&p, &e) {
            (Err(_), _) => "P panics",
            (Ok(p), Ok(e)) if p.ok() && e.ok() && segs_of(p) == segs_of(e) => "equal: property holds on this case",
            (Ok(p), Ok(e)) if p.ok() && e.ok() => "BYTES DIFFER",
            (Ok(p), Ok(e)) if !p.ok() && e.ok() => "P REJECTED although its expansion assembles",
            (Ok(p), Ok(e)) if p.ok() && !e.ok() => "only the expansion is rejected (no verdict)",
            _ => "both rejected (trivial)",
        };
        println!("verdict: {}", verdict);
        return 0;
    }

    let max_depth = if ctx.tier.is_thorough() { 3 } else { 2 };
    let levels = all_levels();
    ctx.set("level_variants", json!(levels.len()));
    ctx.set("level_variant_names", json!(levels.iter().map(|l| l.name()).collect::<Vec<_>>()));
    ctx.set("leaf_kinds", json!(LEAVES.iter().map(|l| l.name()).collect::<Vec<_>>()));
    ctx.set("max_depth", json!(max_depth));
    let shared = Shared {
        ecache: (0..SHARDS).map(|_| Mutex::new(HashMap::new())).collect(),
        failing: Mutex::new(HashMap::new()),
        images: Mutex::new(HashSet::new()),
        exp_rejected_examples: Mutex::new(BTreeMap::new()),
        both_rejected_examples: Mutex::new(BTreeMap::new()),
        ambiguous_examples: Mutex::new(vec![]),
    };
    let mut per_depth = vec![];
    let full_depth3 = std::env::var("VERIF_C07_FULL").is_ok();
    let cut = std::sync::atomic::AtomicU64::new(0);
    for depth in 1..=max_depth {
        // parallel over the outermost level; nests below it are generated per task
        let before = ctx.evals();
        let firsts: Vec<Vec<Level>> = if depth == 1 {
            levels.iter().map(|l| vec![*l]).collect()
        } else {
            let mut v = vec![];
            for a in &levels {
                for b in &levels {
                    if levels_valid(&[*a, *b]) {
                        v.push(vec![*a, *b]);
                    }
                }
            }
            v
        };
        firsts.par_iter().for_each(|prefix| {
            let mut nests = vec![];
            nests_with_prefix(&levels, prefix, depth - prefix.len(), &mut nests);
            for n in nests {
                if depth >= 3 && !full_depth3 && !n.levels.iter().any(is_base) {
                    cut.fetch_add(1, std::sync::atomic::Ordering::Relaxed);
                    continue;
                }
                let v = run_pair(ctx, &isa, &shared, &n, true, false);
                if let Some(class) = v.fail {
                    shared.failing.lock().unwrap().insert(n, class);
                }
            }
        });
        per_depth.push(json!({"depth": depth, "pairs": ctx.evals() - before}));
    }
    ctx.set("pairs_per_depth", json!(per_depth));
    let cut = cut.load(std::sync::atomic::Ordering::Relaxed);
    if cut > 0 {
        ctx.cap(format!(
            "depth 3: only nests in which at least one of the three levels is the representative variant of its kind (loop2, if(1), macro(1p,1x,top), const(2,before-use), braces, import(*)) were run; {} depth-3 nests made of three non-representative variants were cut (set VERIF_C07_FULL=1 to run them, about 4x the time)",
            cut
        ));
        ctx.set("depth3_nests_cut", json!(cut));
    }
    ctx.set("distinct_images_of_P", json!(shared.images.lock().unwrap().len()));
    ctx.set(
        "expansion_rejected_examples",
        json!(shared.exp_rejected_examples.lock().unwrap().clone()),
    );
    ctx.set(
        "both_rejected_examples",
        json!(shared.both_rejected_examples.lock().unwrap().clone()),
    );
    ctx.set(
        "ambiguous_pairs",
        json!(ctx.counter("ambiguous_two_valid_fixed_points")),
    );
    ctx.set(
        "expansion_rejected_while_P_assembles",
        json!(ctx.counter("expansion_rejected_P_assembles")),
    );
    if ctx.counter("ambiguous_two_valid_fixed_points") > 0 {
        ctx.note("pairs with different bytes in which both results pass the fixed-point certificate were counted as ambiguous, not judged: either the program has several fixed points or the hand expansion disagrees with the checker's model - inspect ambiguous_examples");
    }
    ctx.set("ambiguous_examples", json!(shared.ambiguous_examples.lock().unwrap().clone()));

    // reduce every failing nest, group by the signature of the reduced nest
    let table = shared.failing.lock().unwrap().clone();
    ctx.set("failing_pairs", json!(table.len()));
    let reduced: Vec<(Nest, Class, Nest)> = table
        .par_iter()
        .map(|(n, c)| (n.clone(), c.clone(), reduce(n, c, &table, &levels)))
        .collect();
    let mut groups: BTreeMap<String, (Nest, u64)> = BTreeMap::new();
    for (_, class, r) in &reduced {
        let sig = format!("expand:{}:{}:{}", r.sig_path(), r.leaf.name(), class.0.name());
        groups.entry(sig).or_insert_with(|| (r.clone(), 0)).1 += 1;
    }
    for (sig, (rep, n)) in &groups {
        let v = run_pair(ctx, &isa, &shared, rep, false, true);
        let (what, case) = match v.detail {
            Some(d) => d,
            None => (
                format!("representative {} did not fail when re-run (non-determinism?)", rep.describe()),
                json!({"kind": "c07", "nest": rep.describe()}),
            ),
        };
        let f = Finding::new(sig.clone(), what, case);
        for _ in 0..*n {
            ctx.finding(f.clone());
        }
    }

    ctx.finish(
        "exploration",
        "every construct nest of depth <= d (quick 2, thorough 3) over 90 level variants (.loop 0..3; .if with 9 statically decidable conditions - literal 1 / 0, defined(), a comparison, a late constant 1 / 0, a negative value `1 - 2`, a value above one `2` - x then / then+else / child in else; macro with 0-2 parameters x 1-2 invocations x defined at top / locally / after use; .const literal or expression x before / after use; {} and l: {}; .import * / name / name as / * as ns / two names / same file twice (aliases, namespaces) / name of a block label x with and without parameter block, the nested construct living in the imported file) x leaf body (nop, lda #V, .byte V + 1 for V in index / macro parameter / constant where one is in scope, jmp outer, jmp fwd, inner label + branch in own braces, bne - in own braces). P and its by-hand expansion (AST -> AST, written here) are both assembled by the real code and their segments compared. non-trivial = distinct P containing at least one construct where both P and expand(P) assemble",
        true,
        &[
            "depth bound d (2 quick / 3 thorough); one nest per program, one leaf per nest",
            "kept out because the statement does not fix their by-hand meaning: labels (also labelled braces) and -/+ references directly in a loop body, macros defined inside macro bodies, recursion, leaves whose value identifier has no binder in the nest",
            "macro expansion follows the statement (fresh scope, parameters bound by .const); parameter names never occur in arguments",
            "import expansion: labelled scope at the import site + .const alias = scope.name; `* as ns` is expanded by rewriting ns.x to scope.x",
            "expand(P) rejected while P assembles is counted, not judged (the hand expansion may be stricter)",
            "differing bytes are excused only if both results pass the fixed-point certificate check (not available for programs with imports)",
        ],
    )
}
