//! C09 – output files lay out banks and segments exactly as configured.
//!
//! Every configuration is written to a fresh scratch project (`main.asm` + `mos.toml`) and built by
//! the REAL `mos` executable (`mos -e Short --no-color build`); the exit status and every file in
//! `target/` are compared with a layout model written from the property statement (not from
//! `binary_writer.rs`).
//!
//! A configuration is a vector of factor values over a shape (B banks, S segments):
//!   per bank    : size {none, exact, +4, -1} (relative to the span the model computes),
//!                 fill {none, 0, $ff}, filename {none, a.bin, b.bin},
//!                 create-segment {none, true+used, true+unused}
//!   per segment : start {$1000, $1004, $1002, $0ffe, $2000, segments.<prev>.end,
//!                 segments.<prev>.start, $fffc, $fffe, segments.<next>.end}, pc {none, $8000},
//!                 write {none, false}, bank {each bank, none, "nope"}; content = 4 bytes i*16+j
//!   global      : output-format {unset, prg, bin}, output-filename {unset, out.x},
//!                 order of the `.segment` blocks {definition order, reversed},
//!                 order of definitions {banks first, segments first}
//! The full product is far too large for one process per element, therefore the space is the union
//! of Hamming balls (all configurations that differ in at most r factors) around a set of bases:
//! the canonical base of every shape and the full product of the placement core (start options x
//! assignment to the defined banks, plain and with a sized+filled first bank). Radii per tier are
//! written to the evidence.
//!
//! No verdict (counted under `noverdict_*` / `partial_*`) where the statement is silent:
//! `segments.x.end` of a segment with `pc`, a single segment without bank while banks are defined
//! (auto-assigned by design), `prg` while the only bank has its own filename (where does the header
//! go), banks without any written byte and without a size, a `create-segment` segment whose address matters (its start
//! is not documented), output-format unset with several banks (file extension / may fail).
//!
//! A failing configuration is reduced greedily (drop a segment / an unreferenced bank / reset one
//! factor to its base value; single steps, then pairs of steps; every candidate is re-run on the
//! real executable and must fail in the same way) and the signature names what is left:
//! `layout:<what differs>:<S1|S>1>:<remaining non-base factors, placement relation>`.
//! Debugging aids: `C09_COUNT_ONLY=1` prints the plan, `C09_SHOW=<counter>` prints the first
//! configurations counted under that counter together with what mos did.

use mvlib::{fnv, Ctx, Finding};
use rayon::prelude::*;
use serde_json::{json, Value};
use std::collections::{BTreeMap, BTreeSet, HashSet};
use std::path::{Path, PathBuf};
use std::process::Command;
use std::sync::atomic::{AtomicBool, AtomicU64, Ordering};
use std::sync::Mutex;

// ------------------------------------------------------------------------------------------------
// configuration space

#[derive(Clone, Copy, Debug, PartialEq, Eq, Hash, PartialOrd, Ord)]
struct Shape {
    b: usize,
    s: usize,
}

type Vector = Vec<u8>;

// bank factors
const F_SIZE: usize = 0;
const F_FILL: usize = 1;
const F_FILE: usize = 2;
const F_CREATE: usize = 3;
// segment factors
const F_START: usize = 0;
const F_PC: usize = 1;
const F_WRITE: usize = 2;
const F_BANK: usize = 3;
// global factors
const G_FORMAT: usize = 0;
const G_OUTNAME: usize = 1;
const G_USEORDER: usize = 2;
const G_DEFORDER: usize = 3;

const SIZE_NAMES: [&str; 4] = ["none", "exact", "+4", "-1"];
const FILL_NAMES: [&str; 3] = ["none", "0", "$ff"];
const FILE_NAMES: [&str; 3] = ["none", "a.bin", "b.bin"];
const CREATE_NAMES: [&str; 3] = ["none", "used", "unused"];
const START_NAMES: [&str; 10] = [
    "$1000",
    "$1004",
    "$1002",
    "$0ffe",
    "$2000",
    "prev.end",
    "prev.start",
    "$fffc",
    "$fffe",
    "next.end",
];
const START_ABS: [i64; 10] = [0x1000, 0x1004, 0x1002, 0x0ffe, 0x2000, -1, -1, 0xfffc, 0xfffe, -1];
const ST_PREV_END: u8 = 5;
const ST_PREV_START: u8 = 6;
const ST_NEXT_END: u8 = 9;
const FORMAT_NAMES: [&str; 3] = ["unset", "prg", "bin"];

impl Shape {
    fn len(&self) -> usize {
        4 * self.b + 4 * self.s + 4
    }
    fn bank(&self, k: usize, f: usize) -> usize {
        4 * k + f
    }
    fn seg(&self, i: usize, f: usize) -> usize {
        4 * self.b + 4 * i + f
    }
    fn glob(&self, f: usize) -> usize {
        4 * self.b + 4 * self.s + f
    }
    /// (what, index of bank/segment, factor)
    fn locate(&self, idx: usize) -> (u8, usize, usize) {
        if idx < 4 * self.b {
            (0, idx / 4, idx % 4)
        } else if idx < 4 * self.b + 4 * self.s {
            let r = idx - 4 * self.b;
            (1, r / 4, r % 4)
        } else {
            (2, 0, idx - 4 * self.b - 4 * self.s)
        }
    }
    /// value of the "none" bank reference
    fn bank_none(&self) -> u8 {
        self.b as u8
    }
    fn bank_nope(&self) -> u8 {
        self.b as u8 + 1
    }

    /// allowed values of a factor (depends on the shape and the position only)
    fn domain(&self, idx: usize, with_next: bool) -> Vec<u8> {
        match self.locate(idx) {
            (0, _, F_SIZE) => vec![0, 1, 2, 3],
            (0, _, _) => vec![0, 1, 2],
            (1, i, F_START) => {
                let mut d = vec![0, 1, 2, 3, 4];
                if i > 0 {
                    d.push(ST_PREV_END);
                    d.push(ST_PREV_START);
                }
                d.push(7);
                d.push(8);
                if with_next && i + 1 < self.s {
                    d.push(ST_NEXT_END);
                }
                d
            }
            (1, _, F_BANK) => (0..(self.b as u8 + 2)).collect(),
            (1, _, _) => vec![0, 1],
            (2, _, G_FORMAT) => vec![0, 1, 2],
            (2, _, G_DEFORDER) => {
                if self.b > 0 {
                    vec![0, 1]
                } else {
                    vec![0]
                }
            }
            _ => vec![0, 1],
        }
    }

    /// core start options used for the placement product
    fn core_starts(&self, i: usize) -> Vec<u8> {
        if i == 0 {
            vec![0, 1, 2, 3, 4]
        } else {
            vec![0, 1, 2, 3, 4, ST_PREV_END, ST_PREV_START]
        }
    }

    fn base(&self) -> Vector {
        let mut v = vec![0u8; self.len()];
        for i in 0..self.s {
            v[self.seg(i, F_START)] = match i {
                0 => 0,
                1 => 1,
                2 => 4,
                _ => ST_PREV_END,
            };
            v[self.seg(i, F_BANK)] = if self.b == 0 {
                0 // none: the default bank
            } else {
                i.min(self.b - 1) as u8
            };
        }
        v
    }

    fn factor_name(&self, idx: usize, val: u8) -> String {
        match self.locate(idx) {
            (0, _, F_SIZE) => "bank.size=set".to_string(),
            (0, _, F_FILL) => "bank.fill=set".to_string(),
            (0, _, F_FILE) => "bank.filename=set".to_string(),
            (0, _, _) => format!("bank.create-segment={}", CREATE_NAMES[val as usize]),
            (1, _, F_START) => format!("seg.start={}", START_NAMES[val as usize]),
            (1, _, F_PC) => format!("seg.pc={}", if val == 0 { "none" } else { "$8000" }),
            (1, _, F_WRITE) => format!("seg.write={}", if val == 0 { "none" } else { "false" }),
            (1, _, _) => {
                if val == self.bank_none() {
                    "seg.bank=none".to_string()
                } else if val == self.bank_nope() {
                    "seg.bank=nope".to_string()
                } else {
                    "seg.bank=other".to_string()
                }
            }
            (_, _, G_FORMAT) => format!("format={}", FORMAT_NAMES[val as usize]),
            (_, _, G_OUTNAME) => format!("output-filename={}", if val == 0 { "unset" } else { "out.x" }),
            (_, _, G_USEORDER) => format!("use-order={}", if val == 0 { "definition" } else { "reversed" }),
            _ => format!("def-order={}", if val == 0 { "banks-first" } else { "segments-first" }),
        }
    }
}

/// all vectors that differ from `base` in at most `radius` factors
fn ball(shape: Shape, base: &Vector, radius: usize, with_next: bool, out: &mut HashSet<(Shape, Vector)>) {
    fn rec(
        shape: Shape,
        cur: &mut Vector,
        base: &Vector,
        from: usize,
        left: usize,
        with_next: bool,
        out: &mut HashSet<(Shape, Vector)>,
    ) {
        out.insert((shape, cur.clone()));
        if left == 0 {
            return;
        }
        for idx in from..shape.len() {
            for val in shape.domain(idx, with_next) {
                if val == base[idx] {
                    continue;
                }
                cur[idx] = val;
                rec(shape, cur, base, idx + 1, left - 1, with_next, out);
            }
            cur[idx] = base[idx];
        }
    }
    let mut cur = base.clone();
    rec(shape, &mut cur, base, 0, radius, with_next, out);
}

/// placement core: product of the core start options x assignment of every segment to a defined bank
fn placement_bases(shape: Shape, with_assign: bool, sized: bool) -> Vec<Vector> {
    let mut out = vec![shape.base()];
    for i in 0..shape.s {
        let mut next = vec![];
        for v in &out {
            for st in shape.core_starts(i) {
                let banks: Vec<u8> = if with_assign && shape.b > 1 {
                    (0..shape.b as u8).collect()
                } else {
                    vec![v[shape.seg(i, F_BANK)]]
                };
                for bk in banks {
                    let mut w = v.clone();
                    w[shape.seg(i, F_START)] = st;
                    w[shape.seg(i, F_BANK)] = bk;
                    next.push(w);
                }
            }
        }
        out = next;
    }
    if sized && shape.b > 0 {
        for v in out.iter_mut() {
            v[shape.bank(0, F_SIZE)] = 2; // +4
            v[shape.bank(0, F_FILL)] = 2; // $ff
        }
    }
    out
}

// ------------------------------------------------------------------------------------------------
// reference model (from the property statement)

#[derive(Clone, Copy, Debug, PartialEq, Eq)]
enum Origin {
    Hdr,
    Seg(usize, usize),
    Created(usize, usize),
    Fill,
    Pad,
}

#[derive(Clone, Debug)]
struct FileM {
    name: String,
    /// other acceptable name (extension not determined by the statement)
    alt_name: Option<String>,
    bytes: Vec<u8>,
    origin: Vec<Origin>,
    /// false: contains a piece the statement does not determine -> not compared, may be absent
    known: bool,
}

#[derive(Clone, Debug, PartialEq, Eq)]
enum Verdict {
    /// nothing is demanded (counter name)
    NoVerdict(&'static str),
    /// must fail and leave no file; the classes of error present
    Error(String),
    /// must build; failure tolerated for the given reason (statement silent)
    Builds { tolerate_failure: Option<&'static str> },
}

#[derive(Clone, Debug)]
struct Model {
    verdict: Verdict,
    files: Vec<FileM>,
    /// numeric `size` per bank (None = not set)
    sizes: Vec<Option<usize>>,
    /// resolved start address per segment
    starts: Vec<i64>,
    /// reasons why only a partial comparison is possible
    partial: Vec<&'static str>,
}

fn seg_byte(i: usize, j: usize) -> u8 {
    ((i + 1) * 16 + j) as u8
}
fn created_byte(k: usize, j: usize) -> u8 {
    ((9 + k) * 16 + j) as u8
}

struct BankImage {
    /// None: not determined by the statement
    data: Option<(Vec<u8>, Vec<Origin>)>,
    /// lowest written address when known
    lo: Option<i64>,
    filename: Option<&'static str>,
}

/// None: the configuration is not well formed (cyclic start dependency) and is not enumerated
fn model(shape: Shape, v: &Vector) -> Option<Model> {
    let s = shape.s;
    let b = shape.b;
    let g = |f: usize| v[shape.glob(f)];
    // ---- 1. start addresses
    let mut starts: Vec<Option<i64>> = vec![None; s];
    for _ in 0..=s {
        for i in 0..s {
            if starts[i].is_some() {
                continue;
            }
            let st = v[shape.seg(i, F_START)];
            starts[i] = match st {
                ST_PREV_END => starts[i - 1].map(|x| x + 4),
                ST_PREV_START => starts[i - 1],
                ST_NEXT_END => starts[i + 1].map(|x| x + 4),
                _ => Some(START_ABS[st as usize]),
            };
        }
    }
    if starts.iter().any(|x| x.is_none()) {
        return None;
    }
    let starts: Vec<i64> = starts.into_iter().map(|x| x.unwrap()).collect();

    let mut total_ambiguity: Option<&'static str> = None;
    for i in 0..s {
        let st = v[shape.seg(i, F_START)];
        if (st == ST_PREV_END && v[shape.seg(i - 1, F_PC)] == 1)
            || (st == ST_NEXT_END && v[shape.seg(i + 1, F_PC)] == 1)
        {
            total_ambiguity = Some("noverdict_end_of_segment_with_pc");
        }
    }

    // ---- 2. banks and their members in definition order
    let nb = b.max(1);
    let opt = |k: usize, f: usize| if b == 0 { 0 } else { v[shape.bank(k, f)] };
    let n_created = (0..b).filter(|k| opt(*k, F_CREATE) != 0).count();
    let total_segments = s + n_created;

    let mut errors: BTreeSet<&'static str> = BTreeSet::new();
    #[derive(Clone, Copy)]
    enum Member {
        Seg(usize),
        CreatedUsed,
    }
    let mut members: Vec<Vec<Member>> = vec![vec![]; nb];
    let banks_first = g(G_DEFORDER) == 0;
    if banks_first {
        for k in 0..b {
            if opt(k, F_CREATE) == 1 {
                members[k].push(Member::CreatedUsed);
            }
        }
    }
    for i in 0..s {
        let bk = v[shape.seg(i, F_BANK)];
        if starts[i] < 0 || starts[i] + 4 > 0x10000 {
            errors.insert("out-of-range");
        }
        if b == 0 {
            if bk == 0 {
                members[0].push(Member::Seg(i));
            } else {
                errors.insert("unknown-bank");
            }
        } else if bk == shape.bank_none() {
            if total_segments == 1 {
                total_ambiguity = total_ambiguity.or(Some("noverdict_single_segment_without_bank"));
            } else {
                errors.insert("no-bank");
            }
        } else if bk == shape.bank_nope() {
            errors.insert("unknown-bank");
        } else {
            members[bk as usize].push(Member::Seg(i));
        }
    }
    if !banks_first {
        for k in 0..b {
            if opt(k, F_CREATE) == 1 {
                members[k].push(Member::CreatedUsed);
            }
        }
    }
    if g(G_FORMAT) == 1 && nb > 1 {
        errors.insert("prg-with-several-banks");
    }

    // ---- 3. bank images
    let mut partial: Vec<&'static str> = vec![];
    let mut images: Vec<BankImage> = vec![];
    let mut sizes: Vec<Option<usize>> = vec![];
    let mut undetermined_bank = false;
    for k in 0..nb {
        let fill_opt = opt(k, F_FILL);
        let fill: u8 = if fill_opt == 2 { 0xff } else { 0 };
        let filename = match opt(k, F_FILE) {
            1 => Some("a.bin"),
            2 => Some("b.bin"),
            _ => None,
        };
        let writable: Vec<Member> = members[k]
            .iter()
            .copied()
            .filter(|m| match m {
                Member::Seg(i) => v[shape.seg(*i, F_WRITE)] == 0,
                Member::CreatedUsed => true,
            })
            .collect();
        let has_created = writable.iter().any(|m| matches!(m, Member::CreatedUsed));
        // (data, origin, lo) when determined
        let mut img: Option<(Vec<u8>, Vec<Origin>)> = None;
        let mut lo: Option<i64> = None;
        let natural: usize;
        if writable.is_empty() && opt(k, F_SIZE) != 0 {
            // nothing written, but sized: "a sized bank is padded with its fill value to exactly `size` bytes",
            // "a short bank without fill is an error" - the image is `size` fill bytes or the build fails
            img = Some((vec![], vec![]));
            natural = 4;
        } else if writable.is_empty() {
            partial.push("partial_bank_without_written_bytes");
            undetermined_bank = true;
            natural = 4;
        } else if has_created && writable.len() > 1 {
            partial.push("partial_created_segment_address_matters");
            undetermined_bank = true;
            natural = 8;
        } else if has_created {
            // only the created segment: image = its bytes, start address not documented
            let data: Vec<u8> = (0..4).map(|j| created_byte(k, j)).collect();
            let origin: Vec<Origin> = (0..4).map(|j| Origin::Created(k, j)).collect();
            img = Some((data, origin));
            natural = 4;
        } else {
            let idx: Vec<usize> = writable
                .iter()
                .map(|m| match m {
                    Member::Seg(i) => *i,
                    _ => unreachable!(),
                })
                .collect();
            let l = idx.iter().map(|i| starts[*i]).min().unwrap();
            let h = idx.iter().map(|i| starts[*i] + 4).max().unwrap();
            let mut data = vec![fill; (h - l) as usize];
            let mut origin = vec![Origin::Fill; (h - l) as usize];
            for i in idx {
                for j in 0..4 {
                    let p = (starts[i] - l) as usize + j;
                    data[p] = seg_byte(i, j);
                    origin[p] = Origin::Seg(i, j);
                }
            }
            natural = data.len();
            img = Some((data, origin));
            lo = Some(l);
        }
        let size = match opt(k, F_SIZE) {
            1 => Some(natural),
            2 => Some(natural + 4),
            3 => Some(natural - 1),
            _ => None,
        };
        sizes.push(size);
        if let (Some(size), Some((data, origin))) = (size, img.as_mut()) {
            if size < data.len() {
                errors.insert("bank-larger-than-size");
            } else if size > data.len() {
                if fill_opt == 0 {
                    errors.insert("short-bank-without-fill");
                } else {
                    data.resize(size, fill);
                    origin.resize(size, Origin::Pad);
                }
            }
        }
        images.push(BankImage {
            data: img,
            lo,
            filename,
        });
    }

    // ---- 4. files
    let format = g(G_FORMAT);
    let prg = format == 1 || (format == 0 && nb == 1);
    let ext_open = format == 0 && nb > 1; // unset with several banks: extension not stated
    let default_name: String = if g(G_OUTNAME) == 1 {
        "out.x".into()
    } else if prg {
        "main.prg".into()
    } else {
        "main.bin".into()
    };
    let mut files: Vec<FileM> = vec![];
    for (k, im) in images.iter().enumerate() {
        let name = im.filename.map(|s| s.to_string()).unwrap_or_else(|| default_name.clone());
        let pos = match files.iter().position(|f| f.name == name) {
            Some(p) => p,
            None => {
                files.push(FileM {
                    name: name.clone(),
                    alt_name: if im.filename.is_none() && ext_open && g(G_OUTNAME) == 0 {
                        Some("main.prg".into())
                    } else {
                        None
                    },
                    bytes: vec![],
                    origin: vec![],
                    known: true,
                });
                files.len() - 1
            }
        };
        let f = &mut files[pos];
        if prg && k == 0 {
            match im.lo {
                Some(l) if im.data.is_some() => {
                    f.bytes.push((l & 255) as u8);
                    f.bytes.push(((l >> 8) & 255) as u8);
                    f.origin.push(Origin::Hdr);
                    f.origin.push(Origin::Hdr);
                }
                _ => {
                    f.known = false;
                    if im.data.is_some() {
                        partial.push("partial_prg_header_of_created_segment");
                    }
                }
            }
        }
        match &im.data {
            Some((d, o)) => {
                f.bytes.extend(d);
                f.origin.extend(o);
            }
            None => f.known = false,
        }
    }

    // ---- 5. verdict
    let verdict = if let Some(r) = total_ambiguity {
        Verdict::NoVerdict(r)
    } else if !errors.is_empty() {
        Verdict::Error(errors.iter().copied().collect::<Vec<_>>().join("+"))
    } else if prg && images[0].filename.is_some() {
        Verdict::NoVerdict("noverdict_prg_header_with_named_bank")
    } else {
        let tol = if ext_open {
            Some("tolerated_failure_unset_format_with_several_banks")
        } else if undetermined_bank {
            Some("tolerated_failure_undetermined_bank")
        } else {
            None
        };
        Verdict::Builds {
            tolerate_failure: tol,
        }
    };
    partial.sort();
    partial.dedup();
    Some(Model {
        verdict,
        files,
        sizes,
        starts,
        partial,
    })
}

// ------------------------------------------------------------------------------------------------
// rendering

fn render(shape: Shape, v: &Vector, m: &Model) -> (String, String) {
    let mut bank_defs = String::new();
    for k in 0..shape.b {
        let mut l = format!(".define bank {{ name = \"b{}\"", k + 1);
        if let Some(sz) = m.sizes[k] {
            l.push_str(&format!(" size = {}", sz));
        }
        match v[shape.bank(k, F_FILL)] {
            1 => l.push_str(" fill = 0"),
            2 => l.push_str(" fill = $ff"),
            _ => {}
        }
        match v[shape.bank(k, F_FILE)] {
            1 => l.push_str(" filename = \"a.bin\""),
            2 => l.push_str(" filename = \"b.bin\""),
            _ => {}
        }
        if v[shape.bank(k, F_CREATE)] != 0 {
            l.push_str(" create-segment = true");
        }
        l.push_str(" }\n");
        bank_defs.push_str(&l);
    }
    let mut seg_defs = String::new();
    for i in 0..shape.s {
        let mut l = format!(".define segment {{ name = \"s{}\"", i + 1);
        let st = v[shape.seg(i, F_START)];
        let st_text = match st {
            ST_PREV_END => format!("segments.s{}.end", i),
            ST_PREV_START => format!("segments.s{}.start", i),
            ST_NEXT_END => format!("segments.s{}.end", i + 2),
            _ => format!("${:04x}", START_ABS[st as usize]),
        };
        l.push_str(&format!(" start = {}", st_text));
        if v[shape.seg(i, F_PC)] == 1 {
            l.push_str(" pc = $8000");
        }
        if v[shape.seg(i, F_WRITE)] == 1 {
            l.push_str(" write = false");
        }
        let bk = v[shape.seg(i, F_BANK)];
        if shape.b == 0 {
            if bk == 1 {
                l.push_str(" bank = \"nope\"");
            }
        } else if bk == shape.bank_nope() {
            l.push_str(" bank = \"nope\"");
        } else if bk != shape.bank_none() {
            l.push_str(&format!(" bank = \"b{}\"", bk + 1));
        }
        l.push_str(" }\n");
        seg_defs.push_str(&l);
    }
    let mut uses: Vec<String> = vec![];
    for k in 0..shape.b {
        if v[shape.bank(k, F_CREATE)] == 1 {
            let bytes: Vec<String> = (0..4).map(|j| format!("${:02x}", created_byte(k, j))).collect();
            uses.push(format!(".segment \"b{}\" {{ .byte {} }}\n", k + 1, bytes.join(", ")));
        }
    }
    for i in 0..shape.s {
        let bytes: Vec<String> = (0..4).map(|j| format!("${:02x}", seg_byte(i, j))).collect();
        uses.push(format!(".segment \"s{}\" {{ .byte {} }}\n", i + 1, bytes.join(", ")));
    }
    if v[shape.glob(G_USEORDER)] == 1 {
        uses.reverse();
    }
    let mut asm = String::new();
    if v[shape.glob(G_DEFORDER)] == 0 {
        asm.push_str(&bank_defs);
        asm.push_str(&seg_defs);
    } else {
        asm.push_str(&seg_defs);
        asm.push_str(&bank_defs);
    }
    for u in uses {
        asm.push_str(&u);
    }
    let mut toml = String::from("[build]\n");
    match v[shape.glob(G_FORMAT)] {
        1 => toml.push_str("output-format = \"prg\"\n"),
        2 => toml.push_str("output-format = \"bin\"\n"),
        _ => {}
    }
    if v[shape.glob(G_OUTNAME)] == 1 {
        toml.push_str("output-filename = \"out.x\"\n");
    }
    (asm, toml)
}

// ------------------------------------------------------------------------------------------------
// running the real executable

#[derive(Debug, Clone)]
struct Obs {
    /// None: killed by a signal
    exit: Option<i32>,
    stderr: String,
    files: BTreeMap<String, Vec<u8>>,
    /// the same project built again over longer, stale files of the same names: what differed (None: nothing, or not tried)
    rebuild_differs: Option<String>,
}

struct Runner {
    mos: PathBuf,
    scratch: PathBuf,
    n: AtomicU64,
    machinery_failed: AtomicBool,
    machinery_msg: Mutex<Option<String>>,
    rebuild_all: bool,
    rebuilds: AtomicU64,
}

impl Runner {
    fn new(ctx: &Ctx) -> Runner {
        let mos = std::env::var("MOS_BIN")
            .map(PathBuf::from)
            .unwrap_or_else(|_| ctx.verif_root.join(".build/bin/release/mos"));
        Runner {
            mos,
            scratch: ctx.verif_root.join(".build/scratch/c09"),
            n: AtomicU64::new(0),
            machinery_failed: AtomicBool::new(false),
            machinery_msg: Mutex::new(None),
            rebuild_all: ctx.tier.is_thorough(),
            rebuilds: AtomicU64::new(0),
        }
    }

    fn fail(&self, msg: String) {
        self.machinery_failed.store(true, Ordering::SeqCst);
        let mut m = self.machinery_msg.lock().unwrap();
        if m.is_none() {
            *m = Some(msg);
        }
    }

    fn run(&self, asm: &str, toml: &str) -> Option<Obs> {
        let n = self.n.fetch_add(1, Ordering::Relaxed);
        let dir = self.scratch.join(format!("{}-{}", std::process::id(), n));
        let r = self.run_in(&dir, asm, toml);
        let _ = std::fs::remove_dir_all(&dir);
        match r {
            Ok(o) => Some(o),
            Err(e) => {
                self.fail(e);
                None
            }
        }
    }

    fn run_in(&self, dir: &Path, asm: &str, toml: &str) -> Result<Obs, String> {
        let _ = std::fs::remove_dir_all(dir);
        std::fs::create_dir_all(dir).map_err(|e| format!("mkdir {}: {}", dir.display(), e))?;
        std::fs::write(dir.join("main.asm"), asm).map_err(|e| format!("write main.asm: {}", e))?;
        std::fs::write(dir.join("mos.toml"), toml).map_err(|e| format!("write mos.toml: {}", e))?;
        let out = Command::new(&self.mos)
            .args(["-e", "Short", "--no-color", "build"])
            .current_dir(dir)
            .env_remove("RUST_LOG")
            .env("RUST_BACKTRACE", "0")
            .stdin(std::process::Stdio::null())
            .output()
            .map_err(|e| format!("cannot run {}: {}", self.mos.display(), e))?;
        let mut files = BTreeMap::new();
        let target = dir.join("target");
        if let Ok(rd) = std::fs::read_dir(&target) {
            for e in rd.flatten() {
                let p = e.path();
                if p.is_file() {
                    let bytes = std::fs::read(&p).map_err(|e| format!("read {}: {}", p.display(), e))?;
                    files.insert(e.file_name().to_string_lossy().to_string(), bytes);
                }
            }
        }
        let mut stderr = String::from_utf8_lossy(&out.stderr).to_string();
        stderr.push_str(&String::from_utf8_lossy(&out.stdout));
        // A build writes its files whatever is in the target directory already: every output file gets a stale tail
        // (as a previous, longer build would have left it) and the project is built again (every configuration in the
        // thorough tier, every 4th in the quick tier).
        let mut rebuild_differs = None;
        let n = self.n.load(Ordering::Relaxed);
        if out.status.code() == Some(0) && !files.is_empty() && (self.rebuild_all || n % 4 == 0) {
            for (name, bytes) in &files {
                let mut longer = bytes.clone();
                longer.extend(std::iter::repeat(0x55u8).take(24));
                std::fs::write(target.join(name), longer).map_err(|e| format!("write {}: {}", name, e))?;
            }
            let out2 = Command::new(&self.mos)
                .args(["-e", "Short", "--no-color", "build"])
                .current_dir(dir)
                .env_remove("RUST_LOG")
                .env("RUST_BACKTRACE", "0")
                .stdin(std::process::Stdio::null())
                .output()
                .map_err(|e| format!("cannot run {}: {}", self.mos.display(), e))?;
            let mut files2 = BTreeMap::new();
            if let Ok(rd) = std::fs::read_dir(&target) {
                for e in rd.flatten() {
                    let p = e.path();
                    if p.is_file() {
                        files2.insert(e.file_name().to_string_lossy().to_string(), std::fs::read(&p).unwrap_or_default());
                    }
                }
            }
            if out2.status.code() != Some(0) {
                rebuild_differs = Some(format!("the second build exits {:?}", out2.status.code()));
            } else if files2 != files {
                let name = files.keys().find(|k| files2.get(*k) != files.get(*k)).cloned().unwrap_or_default();
                rebuild_differs = Some(format!(
                    "{} is {} bytes after the first build and {} bytes after the second (the file held a 24 byte longer, stale version in between)",
                    name,
                    files.get(&name).map(|b| b.len()).unwrap_or(0),
                    files2.get(&name).map(|b| b.len()).unwrap_or(0)
                ));
            }
            self.rebuilds.fetch_add(1, Ordering::Relaxed);
        }
        Ok(Obs {
            exit: out.status.code(),
            stderr,
            files,
            rebuild_differs,
        })
    }
}

// ------------------------------------------------------------------------------------------------
// oracle

#[derive(Debug, Clone)]
struct Outcome {
    /// Some(kind, description) when the configuration fails the oracle
    failure: Option<(String, String)>,
    /// counters to bump
    counts: Vec<&'static str>,
    compared_files: u64,
    compared_bytes: u64,
    took_verdict: bool,
    obs_hash: u64,
    exit_ok: bool,
    panicked: bool,
}

fn obs_label(bv: u8) -> &'static str {
    let hi = bv >> 4;
    let lo = bv & 15;
    if bv == 0 || bv == 0xff {
        "filler"
    } else if (1..=6).contains(&hi) && lo < 4 {
        "seg"
    } else if (9..=12).contains(&hi) && lo < 4 {
        "created-seg"
    } else {
        "other"
    }
}

fn diff_kind(f: &FileM, got: &[u8]) -> Option<(String, String)> {
    if f.bytes.len() != got.len() {
        let k = if got.len() > f.bytes.len() { "size-longer" } else { "size-shorter" };
        return Some((
            k.to_string(),
            format!(
                "file {} has {} bytes, the model gives {}: found {} expected {}",
                f.name,
                got.len(),
                f.bytes.len(),
                hex(got),
                hex(&f.bytes)
            ),
        ));
    }
    for p in 0..got.len() {
        if f.bytes[p] != got[p] {
            let exp = match f.origin[p] {
                Origin::Hdr => "prg-header".to_string(),
                Origin::Seg(..) => "seg".to_string(),
                Origin::Created(..) => "created-seg".to_string(),
                Origin::Fill => "fill".to_string(),
                Origin::Pad => "pad".to_string(),
            };
            let mut obs = obs_label(got[p]).to_string();
            if let (Origin::Seg(i, j), "seg") = (f.origin[p], obs.as_str()) {
                let oi = (got[p] >> 4) as usize - 1;
                let oj = (got[p] & 15) as usize;
                obs = if oi == i && oj != j {
                    "same-seg-shifted".into()
                } else if oi < i {
                    "earlier-seg".into()
                } else {
                    "later-seg".into()
                };
            }
            return Some((
                format!("byte-from-{}-expected-{}", obs, exp),
                format!(
                    "file {} offset {}: found ${:02x}, the model places ${:02x} ({:?}) there; file is {} expected {}",
                    f.name,
                    p,
                    got[p],
                    f.bytes[p],
                    f.origin[p],
                    hex(got),
                    hex(&f.bytes)
                ),
            ));
        }
    }
    None
}

fn hex(b: &[u8]) -> String {
    if b.len() > 48 {
        format!(
            "[{} … {} ({} bytes)]",
            crate::util::hex_bytes(&b[..24]),
            crate::util::hex_bytes(&b[b.len() - 16..]),
            b.len()
        )
    } else {
        format!("[{}]", crate::util::hex_bytes(b))
    }
}

fn judge(m: &Model, obs: &Obs) -> Outcome {
    let exit_ok = obs.exit == Some(0);
    let panicked = obs.exit == Some(101) || obs.exit.is_none() || obs.stderr.contains("panicked at");
    let mut h: Vec<u8> = vec![];
    h.extend(format!("{:?}", obs.exit).bytes());
    for (n, b) in &obs.files {
        h.extend(n.bytes());
        h.push(0);
        h.extend(b);
        h.push(1);
    }
    let mut o = Outcome {
        failure: None,
        counts: vec![],
        compared_files: 0,
        compared_bytes: 0,
        took_verdict: false,
        obs_hash: fnv(&h),
        exit_ok,
        panicked,
    };
    let first_line = obs.stderr.lines().next().unwrap_or("").to_string();
    match &m.verdict {
        Verdict::NoVerdict(r) => o.counts.push(r),
        Verdict::Error(class) => {
            o.took_verdict = true;
            o.counts.push("verdict_error_demanded");
            if exit_ok {
                o.failure = Some((
                    "exit0-on-error".to_string(),
                    format!(
                        "the configuration must be rejected ({}) but mos exits 0 and writes {}",
                        class,
                        obs.files
                            .iter()
                            .map(|(n, b)| format!("{}={}", n, hex(b)))
                            .collect::<Vec<_>>()
                            .join(" ")
                    ),
                ));
            } else if !obs.files.is_empty() {
                o.failure = Some((
                    "file-written-on-error".to_string(),
                    format!(
                        "mos fails ({}) but leaves files in target/: {}",
                        first_line,
                        obs.files.keys().cloned().collect::<Vec<_>>().join(",")
                    ),
                ));
            }
        }
        Verdict::Builds { tolerate_failure } => {
            if !exit_ok {
                match tolerate_failure {
                    Some(r) => o.counts.push(r),
                    None => {
                        o.took_verdict = true;
                        o.failure = Some((
                            "failed-on-valid".into(),
                            format!(
                                "the configuration is valid but mos exits {:?}: {}",
                                obs.exit, first_line
                            ),
                        ));
                    }
                }
                return o;
            }
            o.took_verdict = true;
            if let Some(d) = &obs.rebuild_differs {
                o.failure = Some(("stale-content-after-rebuild".into(), format!("building the same project a second time does not give the same files: {}", d)));
                return o;
            }
            if m.files.iter().all(|f| f.known) {
                o.counts.push("verdict_builds_full");
            } else {
                o.counts.push("verdict_builds_partial");
            }
            for p in &m.partial {
                o.counts.push(p);
            }
            // which observed file corresponds to each model file
            let mut claimed: BTreeSet<String> = BTreeSet::new();
            let mut failure: Option<(String, String)> = None;
            for f in &m.files {
                let found = if obs.files.contains_key(&f.name) {
                    Some(f.name.clone())
                } else {
                    match &f.alt_name {
                        Some(a) if obs.files.contains_key(a) => {
                            o.counts.push("default_file_named_prg_for_bin_layout");
                            Some(a.clone())
                        }
                        _ => None,
                    }
                };
                match found {
                    Some(n) => {
                        claimed.insert(n.clone());
                        if f.known {
                            o.compared_files += 1;
                            o.compared_bytes += f.bytes.len() as u64;
                            if failure.is_none() {
                                failure = diff_kind(f, &obs.files[&n]);
                            }
                        }
                    }
                    None => {
                        if f.known && failure.is_none() {
                            failure = Some((
                                "missing-file".into(),
                                format!(
                                    "file {} ({} bytes) is not in target/; files present: {}",
                                    f.name,
                                    f.bytes.len(),
                                    obs.files
                                        .iter()
                                        .map(|(n, b)| format!("{}={}", n, hex(b)))
                                        .collect::<Vec<_>>()
                                        .join(" ")
                                ),
                            ));
                        }
                    }
                }
            }
            // missing-file is reported before extra-file, extra-file before content
            let extra: Vec<&String> = obs.files.keys().filter(|n| !claimed.contains(*n)).collect();
            let is_missing = matches!(&failure, Some((k, _)) if k == "missing-file");
            if !extra.is_empty() && !is_missing {
                failure = Some((
                    "extra-file".into(),
                    format!(
                        "target/ contains {} which no bank is written to; model files: {}",
                        extra
                            .iter()
                            .map(|n| format!("{}={}", n, hex(&obs.files[*n])))
                            .collect::<Vec<_>>()
                            .join(" "),
                        m.files
                            .iter()
                            .map(|f| if f.known {
                                format!("{}={}", f.name, hex(&f.bytes))
                            } else {
                                format!("{}=<undetermined>", f.name)
                            })
                            .collect::<Vec<_>>()
                            .join(" ")
                    ),
                ));
            }
            o.failure = failure;
        }
    }
    o
}

// ------------------------------------------------------------------------------------------------
// driver

fn shape_class(shape: Shape) -> String {
    (if shape.s == 1 { "S1" } else { "S>1" }).to_string()
}

/// `exit0-on-error` -> `exit0-on-<classes of error the model sees in this configuration>`
fn final_kind(kind: &str, m: &Model) -> String {
    match (&m.verdict, kind.strip_suffix("-on-error")) {
        (Verdict::Error(c), Some(prefix)) => format!("{}-on-{}", prefix, c),
        _ => kind.to_string(),
    }
}

/// relative placement of the written segments that share a bank
fn placement(shape: Shape, v: &Vector) -> String {
    let m = match model(shape, v) {
        Some(m) => m,
        None => return "cyclic".into(),
    };
    let mut rel: BTreeSet<&'static str> = BTreeSet::new();
    for j in 0..shape.s {
        let st = v[shape.seg(j, F_START)];
        if st == ST_PREV_END || st == ST_PREV_START || st == ST_NEXT_END {
            rel.insert("symbolic");
        }
        if m.starts[j] >= 0xfffc {
            rel.insert("top-of-memory");
        }
        for i in 0..j {
            if v[shape.seg(i, F_BANK)] != v[shape.seg(j, F_BANK)]
                || v[shape.seg(i, F_WRITE)] == 1
                || v[shape.seg(j, F_WRITE)] == 1
            {
                continue;
            }
            let d = m.starts[j] - m.starts[i];
            rel.insert(match d.abs() {
                0 => "same-start",
                1..=3 => "overlap",
                4 => "adjacent",
                _ => "gap",
            });
            if d < 0 {
                rel.insert("later-below");
            }
        }
    }
    if rel.is_empty() {
        "no-pair".into()
    } else {
        rel.into_iter().collect::<Vec<_>>().join(",")
    }
}

fn config_class(shape: Shape, v: &Vector) -> String {
    let base = shape.base();
    let mut names: BTreeSet<String> = BTreeSet::new();
    let mut start_deviates = false;
    for idx in 0..shape.len() {
        if v[idx] != base[idx] {
            if matches!(shape.locate(idx), (1, _, F_START)) {
                start_deviates = true;
            } else {
                names.insert(shape.factor_name(idx, v[idx]));
            }
        }
    }
    if start_deviates {
        names.insert(format!("placement={}", placement(shape, v)));
    }
    let devs = if names.is_empty() {
        "base".to_string()
    } else {
        names.into_iter().collect::<Vec<_>>().join("+")
    };
    format!("{}:{}", shape_class(shape), devs)
}

fn describe(shape: Shape, v: &Vector) -> Value {
    let mut banks = vec![];
    for k in 0..shape.b {
        banks.push(json!({
            "name": format!("b{}", k + 1),
            "size": SIZE_NAMES[v[shape.bank(k, F_SIZE)] as usize],
            "fill": FILL_NAMES[v[shape.bank(k, F_FILL)] as usize],
            "filename": FILE_NAMES[v[shape.bank(k, F_FILE)] as usize],
            "create-segment": CREATE_NAMES[v[shape.bank(k, F_CREATE)] as usize],
        }));
    }
    let mut segs = vec![];
    for i in 0..shape.s {
        let bk = v[shape.seg(i, F_BANK)];
        let bank = if shape.b == 0 {
            if bk == 0 { "none".to_string() } else { "nope".to_string() }
        } else if bk == shape.bank_none() {
            "none".to_string()
        } else if bk == shape.bank_nope() {
            "nope".to_string()
        } else {
            format!("b{}", bk + 1)
        };
        segs.push(json!({
            "name": format!("s{}", i + 1),
            "start": START_NAMES[v[shape.seg(i, F_START)] as usize],
            "pc": v[shape.seg(i, F_PC)] == 1,
            "write": v[shape.seg(i, F_WRITE)] == 0,
            "bank": bank,
        }));
    }
    json!({
        "banks": banks, "segments": segs,
        "output-format": FORMAT_NAMES[v[shape.glob(G_FORMAT)] as usize],
        "output-filename": if v[shape.glob(G_OUTNAME)] == 1 { "out.x" } else { "unset" },
        "segment-blocks": if v[shape.glob(G_USEORDER)] == 1 { "reversed" } else { "definition-order" },
        "definitions": if v[shape.glob(G_DEFORDER)] == 1 { "segments-first" } else { "banks-first" },
    })
}

fn case_json(shape: Shape, v: &Vector, asm: &str, toml: &str) -> Value {
    json!({
        "kind": "layout",
        "shape": {"banks": shape.b, "segments": shape.s},
        "vector": v,
        "config": describe(shape, v),
        "files": {"main.asm": asm, "mos.toml": toml},
        "command": "mos -e Short --no-color build   (cwd = directory with the two files; outputs in target/)",
    })
}

/// one configuration through model, real executable and oracle
fn evaluate(rn: &Runner, shape: Shape, v: &Vector) -> Option<(Model, String, String, Obs, Outcome)> {
    let m = model(shape, v)?;
    let (asm, toml) = render(shape, v, &m);
    let obs = rn.run(&asm, &toml)?;
    let out = judge(&m, &obs);
    Some((m, asm, toml, obs, out))
}

#[derive(Clone, Copy, Debug)]
enum Op {
    DropSeg(usize),
    DropBank(usize),
    Reset(usize),
}

fn reduction_ops(shape: Shape, v: &Vector) -> Vec<Op> {
    let mut ops = vec![];
    if shape.s > 1 {
        for i in (0..shape.s).rev() {
            ops.push(Op::DropSeg(i));
        }
    }
    if shape.b > 1 {
        for k in (0..shape.b).rev() {
            ops.push(Op::DropBank(k));
        }
    }
    let base = shape.base();
    for idx in 0..shape.len() {
        if v[idx] != base[idx] {
            ops.push(Op::Reset(idx));
        }
    }
    ops
}

fn apply_op(shape: Shape, v: &Vector, op: Op) -> Option<(Shape, Vector)> {
    match op {
        Op::DropSeg(i) => {
            if shape.s <= 1 || i >= shape.s {
                return None;
            }
            // later segments are renumbered (their bytes change with their number)
            let ns = Shape { b: shape.b, s: shape.s - 1 };
            let mut c = v.clone();
            let at = shape.seg(i, 0);
            c.drain(at..at + 4);
            let first = c[ns.seg(0, F_START)];
            let last = c[ns.seg(ns.s - 1, F_START)];
            if first == ST_PREV_END || first == ST_PREV_START || last == ST_NEXT_END {
                return None;
            }
            Some((ns, c))
        }
        Op::DropBank(k) => {
            if shape.b <= 1 || k >= shape.b {
                return None;
            }
            if (0..shape.s).any(|i| v[shape.seg(i, F_BANK)] == k as u8) {
                return None;
            }
            let ns = Shape { b: shape.b - 1, s: shape.s };
            let mut c = v.clone();
            for i in 0..shape.s {
                let x = &mut c[shape.seg(i, F_BANK)];
                if *x > k as u8 {
                    *x -= 1;
                }
            }
            let at = shape.bank(k, 0);
            c.drain(at..at + 4);
            Some((ns, c))
        }
        Op::Reset(idx) => {
            let base = shape.base();
            if idx >= shape.len() || v[idx] == base[idx] {
                return None;
            }
            let mut c = v.clone();
            c[idx] = base[idx];
            Some((shape, c))
        }
    }
}

type EvalCache = Mutex<std::collections::HashMap<(Shape, Vector), Option<String>>>;

/// greedy reduction (single steps, then pairs of steps) towards the canonical base / a smaller
/// shape, keeping the failure kind; None when the run budget is used up
fn minimize(
    rn: &Runner,
    budget: &AtomicU64,
    cache: &EvalCache,
    shape: Shape,
    v: &Vector,
    kind: &str,
) -> Option<(Shape, Vector)> {
    let mut shape = shape;
    let mut v = v.clone();
    let same = |sh: Shape, cand: &Vector| -> Option<bool> {
        if let Some(k) = cache.lock().unwrap().get(&(sh, cand.clone())) {
            return Some(k.as_deref() == Some(kind));
        }
        if budget
            .fetch_update(Ordering::SeqCst, Ordering::SeqCst, |b| b.checked_sub(1))
            .is_err()
        {
            return None;
        }
        let k = match evaluate(rn, sh, cand) {
            Some((_, _, _, _, o)) => o.failure.map(|f| f.0),
            None => None,
        };
        let r = k.as_deref() == Some(kind);
        cache.lock().unwrap().insert((sh, cand.clone()), k);
        Some(r)
    };
    'outer: loop {
        let ops = reduction_ops(shape, &v);
        for op in &ops {
            if let Some((ns, c)) = apply_op(shape, &v, *op) {
                if same(ns, &c)? {
                    shape = ns;
                    v = c;
                    continue 'outer;
                }
            }
        }
        for op1 in &ops {
            if let Some((s1, c1)) = apply_op(shape, &v, *op1) {
                for op2 in reduction_ops(s1, &c1) {
                    if let Some((s2, c2)) = apply_op(s1, &c1, op2) {
                        if same(s2, &c2)? {
                            shape = s2;
                            v = c2;
                            continue 'outer;
                        }
                    }
                }
            }
        }
        break;
    }
    Some((shape, v))
}

fn print_obs(obs: &Obs) {
    println!("exit status: {:?}", obs.exit);
    for l in obs.stderr.lines().take(12) {
        println!("  | {}", l);
    }
    if obs.files.is_empty() {
        println!("target/: no regular file");
    }
    for (n, b) in &obs.files {
        println!("target/{} ({} bytes): {}", n, b.len(), hex(b));
    }
}

fn replay(ctx: &Ctx, case: &Value) -> i32 {
    let rn = Runner::new(ctx);
    if !rn.mos.is_file() {
        eprintln!("C09: mos executable not found at {} (set MOS_BIN)", rn.mos.display());
        return 2;
    }
    let asm = case["files"]["main.asm"].as_str().unwrap_or("").to_string();
    let toml = case["files"]["mos.toml"].as_str().unwrap_or("[build]\n").to_string();
    println!("replaying C09 case with {}:\n--- main.asm\n{}--- mos.toml\n{}---", rn.mos.display(), asm, toml);
    let obs = match rn.run(&asm, &toml) {
        Some(o) => o,
        None => {
            eprintln!("C09: {}", rn.machinery_msg.lock().unwrap().clone().unwrap_or_default());
            return 2;
        }
    };
    print_obs(&obs);
    // the model's view, when the case carries its vector
    let shape = Shape {
        b: case["shape"]["banks"].as_u64().unwrap_or(0) as usize,
        s: case["shape"]["segments"].as_u64().unwrap_or(0) as usize,
    };
    let v: Vector = case["vector"]
        .as_array()
        .map(|a| a.iter().map(|x| x.as_u64().unwrap_or(0) as u8).collect())
        .unwrap_or_default();
    if shape.s > 0 && v.len() == shape.len() {
        if let Some(m) = model(shape, &v) {
            println!("model: {:?}", m.verdict);
            if matches!(m.verdict, Verdict::Builds { .. }) {
                for f in &m.files {
                    if f.known {
                        println!("model file {} ({} bytes): {}", f.name, f.bytes.len(), hex(&f.bytes));
                    } else {
                        println!("model file {}: not determined by the statement", f.name);
                    }
                }
            }
            let (asm2, toml2) = render(shape, &v, &m);
            if asm2 == asm && toml2 == toml {
                let o = judge(&m, &obs);
                match o.failure {
                    Some((k, d)) => {
                        println!("oracle: FAILS ({}) {}", k, d);
                    }
                    None => println!("oracle: agrees (verdict taken: {})", o.took_verdict),
                }
            } else {
                println!("(files differ from the rendering of the vector: model not applied)");
            }
        }
    }
    0
}

/// the model on three hand-computed layouts (machinery check, not a verdict)
fn model_self_check() -> Result<(), String> {
    // one bank, s1 $1000, s2 $1004, s3 $2000, format unset -> prg
    let sh = Shape { b: 1, s: 3 };
    let m = model(sh, &sh.base()).ok_or("base not well formed")?;
    let mut want = vec![0x00, 0x10, 0x10, 0x11, 0x12, 0x13, 0x20, 0x21, 0x22, 0x23];
    want.extend(vec![0u8; 0x2000 - 0x1008]);
    want.extend([0x30, 0x31, 0x32, 0x33]);
    if m.verdict != (Verdict::Builds { tolerate_failure: None })
        || m.files.len() != 1
        || m.files[0].name != "main.prg"
        || m.files[0].bytes != want
    {
        return Err("canonical one-bank layout".into());
    }
    // overlap ($1002 after $1000), segment below ($0ffe), fill $ff, size +4, bin, out.x
    let sh = Shape { b: 1, s: 3 };
    let mut v = sh.base();
    v[sh.seg(1, F_START)] = 2;
    v[sh.seg(2, F_START)] = 3;
    v[sh.bank(0, F_FILL)] = 2;
    v[sh.bank(0, F_SIZE)] = 2;
    v[sh.glob(G_FORMAT)] = 2;
    v[sh.glob(G_OUTNAME)] = 1;
    let m = model(sh, &v).ok_or("not well formed")?;
    // $0ffe: 30 31 | $1000: 32 33 (s3 over s1) | $1002: 20 21 (s2 over s1) | $1004: 22 23 | pad
    let want = vec![0x30, 0x31, 0x32, 0x33, 0x20, 0x21, 0x22, 0x23, 0xff, 0xff, 0xff, 0xff];
    if m.files.len() != 1 || m.files[0].name != "out.x" || m.files[0].bytes != want || m.sizes[0] != Some(12) {
        return Err("overlap/below/pad layout".into());
    }
    // two banks, second with its own file; s1 -> b1, s2 -> b2 write=false s3 -> b2
    let sh = Shape { b: 2, s: 3 };
    let mut v = sh.base();
    v[sh.bank(1, F_FILE)] = 1;
    v[sh.seg(1, F_WRITE)] = 1;
    let m = model(sh, &v).ok_or("not well formed")?;
    if m.files.len() != 2
        || m.files[0].name != "main.bin"
        || m.files[0].bytes != vec![0x10, 0x11, 0x12, 0x13]
        || m.files[1].name != "a.bin"
        || m.files[1].bytes != vec![0x30, 0x31, 0x32, 0x33]
    {
        return Err("two-file layout".into());
    }
    // data beyond $ffff
    let sh = Shape { b: 0, s: 1 };
    let mut v = sh.base();
    v[sh.seg(0, F_START)] = 8;
    let m = model(sh, &v).ok_or("not well formed")?;
    if m.verdict != Verdict::Error("out-of-range".into()) {
        return Err("out-of-range".into());
    }
    Ok(())
}

struct PlanItem {
    shape: Shape,
    /// radius of the ball around the canonical base
    canon: usize,
    /// radius around every element of the product of core start options (None: product not taken)
    place: Option<usize>,
    /// product start options x assignment of every segment to a defined bank, radius 0
    assign: bool,
    /// like `place`, with the first bank sized (+4) and filled ($ff)
    sized: Option<usize>,
}

struct Plan {
    items: Vec<PlanItem>,
    with_next: bool,
}

fn plan(thorough: bool) -> Plan {
    let mut items = vec![];
    let line = |b: usize, s: usize, r: usize| PlanItem {
        shape: Shape { b, s },
        canon: r,
        place: None,
        assign: false,
        sized: None,
    };
    if !thorough {
        for b in 0..=2usize {
            for s in 1..=3usize {
                let canon = if s == 1 || (s == 2 && b < 2) { 3 } else { 2 };
                let place = Some(1);
                let sized = if b > 0 { Some(if s <= 2 { 1 } else { 0 }) } else { None };
                items.push(PlanItem {
                    shape: Shape { b, s },
                    canon,
                    place,
                    assign: true,
                    sized,
                });
            }
        }
        // lines beyond the bound: one factor at a time
        for s in 1..=5usize {
            items.push(line(4, s, 0));
        }
        for b in 0..=4usize {
            items.push(line(b, 6, 1));
        }
        items.push(line(3, 3, 1));
    } else {
        for b in 0..=3usize {
            for s in 1..=4usize {
                let canon = match (b, s) {
                    (0, 1..=2) | (1, 1) => 4,
                    (2..=3, 4) => 2,
                    _ => 3,
                };
                let r = match (b, s) {
                    (3, 2) => Some(1),
                    (2, 2) => Some(1),
                    (_, 1) | (_, 2) => Some(2),
                    (_, 3) => Some(1),
                    _ => Some(0),
                };
                items.push(PlanItem {
                    shape: Shape { b, s },
                    canon,
                    place: r,
                    assign: s <= 3 || b <= 2,
                    sized: if b > 0 { r } else { None },
                });
            }
        }
        for s in 1..=5usize {
            items.push(line(4, s, 1));
        }
        for b in 0..=3usize {
            items.push(line(b, 5, 1));
            items.push(line(b, 6, 2));
        }
        items.push(line(4, 6, 2));
    }
    Plan {
        items,
        with_next: true,
    }
}

pub fn run(ctx: &Ctx, replay_case: Option<&Value>) -> i32 {
    if let Some(c) = replay_case {
        return replay(ctx, c);
    }
    let rn = Runner::new(ctx);
    if !rn.mos.is_file() {
        eprintln!(
            "C09: MACHINERY: mos executable not found at {} (build it: cd /repo && CARGO_TARGET_DIR=/verif/.build/bin cargo build --release --offline -p mos; or set MOS_BIN)",
            rn.mos.display()
        );
        return 2;
    }
    let _ = std::fs::create_dir_all(&rn.scratch);
    if let Err(e) = model_self_check() {
        eprintln!("C09: MACHINERY: layout model self-check failed: {}", e);
        return 2;
    }
    let thorough = ctx.tier.is_thorough();
    let pl = plan(thorough);

    // ---- enumerate
    let mut space: HashSet<(Shape, Vector)> = HashSet::new();
    let mut plan_desc = vec![];
    for it in &pl.items {
        let sh = &it.shape;
        let before = space.len();
        ball(*sh, &sh.base(), it.canon, pl.with_next, &mut space);
        let mut nbases = 1usize;
        if let Some(r) = it.place {
            let bases = placement_bases(*sh, false, false);
            nbases += bases.len();
            for bv in &bases {
                ball(*sh, bv, r, pl.with_next, &mut space);
            }
        }
        if it.assign && sh.b > 1 {
            let bases = placement_bases(*sh, true, false);
            nbases += bases.len();
            for bv in bases {
                space.insert((*sh, bv));
            }
        }
        if let Some(r) = it.sized {
            let bases = placement_bases(*sh, false, true);
            nbases += bases.len();
            for bv in &bases {
                ball(*sh, bv, r, pl.with_next, &mut space);
            }
        }
        plan_desc.push(json!({
            "banks": sh.b, "segments": sh.s, "radius_around_canonical_base": it.canon,
            "radius_around_start_product": it.place,
            "start_x_bank_assignment_product_radius_0": it.assign && sh.b > 1,
            "radius_around_start_product_with_sized_filled_first_bank": it.sized,
            "bases": nbases, "configurations_added": space.len() - before,
        }));
    }
    let mut cases: Vec<(Shape, Vector)> = space.into_iter().collect();
    cases.sort();
    ctx.set("plan", json!(plan_desc));
    ctx.set("configurations_enumerated", json!(cases.len()));
    ctx.set("mos_bin", json!(rn.mos.display().to_string()));
    if std::env::var("C09_COUNT_ONLY").is_ok() {
        for p in &plan_desc {
            println!("{}", p);
        }
        println!("total {}", cases.len());
        return 0;
    }

    let outcomes: Mutex<HashSet<u64>> = Mutex::new(HashSet::new());
    let error_classes: Mutex<BTreeMap<String, u64>> = Mutex::new(BTreeMap::new());
    let first_panic: Mutex<Option<Value>> = Mutex::new(None);
    let budget = AtomicU64::new(if thorough { 150_000 } else { 15_000 });
    let budget_start = budget.load(Ordering::SeqCst);
    let eval_cache: EvalCache = Mutex::new(std::collections::HashMap::new());
    let files_compared = AtomicU64::new(0);
    let show = std::env::var("C09_SHOW").ok();
    let shown = AtomicU64::new(0);
    let bytes_compared = AtomicU64::new(0);

    // safety net against a runaway run on an overloaded machine (far above the tier budgets of
    // 30 s / 5 min): configurations skipped here make the run non-exhaustive (`caps_hit`)
    let deadline_s: f64 = std::env::var("C09_DEADLINE_S")
        .ok()
        .and_then(|s| s.parse().ok())
        .unwrap_or(if thorough { 1500.0 } else { 240.0 });
    let skipped_deadline = AtomicU64::new(0);
    cases.par_iter().for_each(|(shape, v)| {
        if rn.machinery_failed.load(Ordering::Relaxed) {
            return;
        }
        if ctx.wall() > deadline_s {
            skipped_deadline.fetch_add(1, Ordering::Relaxed);
            return;
        }
        let m = match model(*shape, v) {
            Some(m) => m,
            None => {
                ctx.count("skipped_cyclic_start_dependency");
                return;
            }
        };
        let (asm, toml) = render(*shape, v, &m);
        let obs = match rn.run(&asm, &toml) {
            Some(o) => o,
            None => return,
        };
        ctx.eval(|| case_json(*shape, v, &asm, &toml));
        let o = judge(&m, &obs);
        for c in &o.counts {
            ctx.count(c);
            // debugging aid: C09_SHOW=<counter> prints the first configurations counted there
            if show.as_deref() == Some(*c) && shown.fetch_add(1, Ordering::SeqCst) < 6 {
                let _g = outcomes.lock().unwrap();
                println!("--- {} ---\n{}{}", c, asm, toml);
                print_obs(&obs);
            }
        }
        ctx.count(if o.exit_ok { "mos_exit_0" } else { "mos_exit_nonzero" });
        if o.panicked {
            ctx.count("mos_panicked_or_killed");
            let mut fp = first_panic.lock().unwrap();
            if fp.is_none() {
                *fp = Some(json!({"case": case_json(*shape, v, &asm, &toml), "stderr": obs.stderr.lines().take(4).collect::<Vec<_>>()}));
            }
        }
        if let Verdict::Error(c) = &m.verdict {
            *error_classes.lock().unwrap().entry(c.clone()).or_insert(0) += 1;
        }
        if o.took_verdict {
            let mut key: Vec<u8> = vec![shape.b as u8, shape.s as u8];
            key.extend(v);
            ctx.nontrivial(fnv(&key));
        }
        files_compared.fetch_add(o.compared_files, Ordering::Relaxed);
        bytes_compared.fetch_add(o.compared_bytes, Ordering::Relaxed);
        outcomes.lock().unwrap().insert(o.obs_hash);
        if let Some((kind, what)) = &o.failure {
            ctx.count("failing_configurations");
            // reduce, then name the class by what is left
            let (sig, case, what) = match minimize(&rn, &budget, &eval_cache, *shape, v, kind) {
                Some((ms, mv)) => {
                    let mm = model(ms, &mv).unwrap();
                    let (masm, mtoml) = render(ms, &mv, &mm);
                    let what2 = match rn.run(&masm, &mtoml) {
                        Some(mobs) => judge(&mm, &mobs).failure.map(|f| f.1).unwrap_or_else(|| what.clone()),
                        None => what.clone(),
                    };
                    (
                        format!("layout:{}:{}", final_kind(kind, &mm), config_class(ms, &mv)),
                        case_json(ms, &mv, &masm, &mtoml),
                        what2,
                    )
                }
                None => (
                    format!("layout:{}:{}:unreduced", final_kind(kind, &m), shape_class(*shape)),
                    case_json(*shape, v, &asm, &toml),
                    what.clone(),
                ),
            };
            ctx.finding(Finding::new(sig, what, case));
        }
    });

    if rn.machinery_failed.load(Ordering::SeqCst) {
        eprintln!(
            "C09: MACHINERY: {}",
            rn.machinery_msg.lock().unwrap().clone().unwrap_or_default()
        );
        return 2;
    }
    let skipped = skipped_deadline.load(Ordering::Relaxed);
    if skipped > 0 {
        ctx.cap(format!(
            "deadline of {} s reached: {} enumerated configurations were not run",
            deadline_s, skipped
        ));
    }
    ctx.set("distinct_observed_outcomes", json!(outcomes.lock().unwrap().len()));
    ctx.set("error_classes_demanded", json!(error_classes.lock().unwrap().clone()));
    ctx.set("files_compared_byte_for_byte", json!(files_compared.load(Ordering::Relaxed)));
    ctx.set("bytes_compared", json!(bytes_compared.load(Ordering::Relaxed)));
    ctx.set("reduction_runs", json!(budget_start - budget.load(Ordering::SeqCst)));
    if let Some(p) = first_panic.lock().unwrap().clone() {
        ctx.set("first_panic", p);
    }
    if budget.load(Ordering::SeqCst) == 0 {
        ctx.note("reduction budget exhausted: later failing configurations carry an ':unreduced' signature");
    }
    let _ = std::fs::remove_dir(&rn.scratch);
    ctx.set("rebuilds_over_stale_files", json!(rn.rebuilds.load(Ordering::Relaxed)));

    ctx.finish(
        "exploration",
        "every enumerated bank/segment/option configuration is written to a fresh project and built by the real `mos` executable; exit status and every file in target/ are compared with a layout model written from the property statement (span lowest..highest written address per bank, later-defined segment wins, gaps = fill, write=false contributes nothing, padding to size, prg header, files grouped by bank filename in definition order; error + no file for oversize / short without fill / unknown or no bank / data beyond $FFFF / prg with several banks). The space is the union of Hamming balls (all configurations differing in <= r factors) around the canonical base of every shape and around the full product of start options x bank assignment (plain and with a sized, filled first bank); radii in `plan`. Non-trivial = distinct configurations on which a verdict was taken (error demanded, or at least exit status and every determined file compared byte for byte)",
        true,
        &[
            "bounded: shapes, option values and deviation radii as listed in `plan`; the full product of all factors is NOT enumerated (one process per configuration), only all <= r-factor deviations from the listed bases",
            "every segment holds exactly 4 bytes written by one `.byte` statement; `*=` inside segments, empty user segments and larger segments are not covered",
            "the address of a segment for layout purposes is its `start` (docs: 'assembled to start ... as if located at pc'); `segments.x.end` of a segment with `pc` is not decided",
            "no verdict (counted): single segment without bank while banks are defined; prg while the only bank has its own filename; files containing a bank without written bytes or a create-segment segment whose (undocumented) start matters; output-format unset with several banks may fail and may name the default file .prg or .bin",
            "the layout model is trusted; it was written from the statement, not from binary_writer.rs",
            "a panic of mos counts as an error exit (counted in mos_panicked_or_killed), clean termination is C06's subject",
        ],
    )
}
