//! C08 – layout of the source text does not change its meaning.
//!
//! Base programs x deviations at every trivia-accepting slot / case-bearing terminal; bound =
//! number of simultaneous deviations (1 quick, 2 thorough for nearby slots).

use crate::probe::{self, Built, Opts, Sym};
use crate::props::c01;
use crate::util::par_each;
use mvlib::grammar::*;
use mvlib::isa::Isa;
use mvlib::progs::{base_programs, Prog, OTHER_ASM};
use mvlib::{fnv_str, Ctx, Finding};
use serde_json::{json, Value};
use std::collections::BTreeMap;

const WS_TRIVIA: [(&str, &str); 8] = [
    ("space", " "),
    ("tab", "\t"),
    ("block-comment", "/* c */"),
    ("nested-comment", "/* a /* nested */ b */"),
    ("code-comment", "/* lda #1 */"),
    ("empty-block-comment", "/**/"),
    ("doc-block-comment", "/** doc **/"),
    ("slashes-in-block-comment", "/* was: lda #2 // two */"),
];

const MWS_TRIVIA: [(&str, &str); 5] = [
    ("newline", "\n"),
    ("line-comment", "// c\n"),
    ("code-line-comment", "// lda #1\n"),
    ("empty-line-comment", "//\n"),
    ("colon-line-comment", "// note:\n"),
];

#[derive(Clone, Debug, PartialEq, Eq)]
pub struct Meaning {
    pub segs: Vec<(String, usize, Vec<u8>)>,
    pub symbols: BTreeMap<String, (Sym, &'static str)>,
    pub messages: Vec<String>,
    pub panic: Option<String>,
}

fn normalise_message(m: &str) -> String {
    // several messages quote source text together with its trivia; reduce to the token string
    let mut s = m.to_string();
    for (_, t) in WS_TRIVIA.iter().chain(MWS_TRIVIA.iter()) {
        let t = t.trim_end_matches('\n');
        if t.trim().is_empty() {
            continue;
        }
        s = s.replace(t, "");
    }
    s.chars()
        .filter(|c| !c.is_whitespace())
        .collect::<String>()
        .to_lowercase()
}

pub fn meaning_of(text: &str, opts: &Opts) -> Meaning {
    match probe::assemble(&[("main.asm", text), ("other.asm", OTHER_ASM)], opts) {
        Ok(b) => meaning(&b),
        Err(p) => Meaning {
            segs: vec![],
            symbols: BTreeMap::new(),
            messages: vec![],
            panic: Some(format!("{} at {}", p.message, p.site)),
        },
    }
}

fn meaning(b: &Built) -> Meaning {
    let mut messages: Vec<String> = b
        .all_diags()
        .iter()
        .map(|d| normalise_message(&d.message))
        .collect();
    messages.sort();
    let ok = b.ok();
    Meaning {
        // bytes and symbols are only an observable result of a successful build
        segs: if ok {
            b.segs
                .iter()
                .map(|s| (s.name.clone(), s.start, s.bytes.clone()))
                .collect()
        } else {
            vec![]
        },
        symbols: if ok { b.symbols.clone() } else { BTreeMap::new() },
        messages,
        panic: None,
    }
}

fn dev_label(r: &Rendered, d: &Dev) -> String {
    let kind = |i: usize| -> String {
        let t = &r.terms[i];
        match t.kind {
            Kind::Punct | Kind::Op => format!("'{}'", t.text),
            Kind::Directive | Kind::Keyword => t.text.to_lowercase(),
            k => k.name().to_string(),
        }
    };
    match d {
        Dev::Insert(i, s) => {
            let name = WS_TRIVIA
                .iter()
                .chain(MWS_TRIVIA.iter())
                .find(|(_, t)| t == s)
                .map(|(n, _)| *n)
                .unwrap_or("trivia");
            let before = if *i == 0 { "bof".to_string() } else { kind(*i - 1) };
            format!("{}|{}|{}", before, name, kind(*i))
        }
        Dev::Flip(i) => format!("case:{}", kind(*i)),
        Dev::Sep(i, s) if s.trim().is_empty() => format!("{}|same-line|{}", if *i == 0 { "bof".to_string() } else { kind(*i - 1) }, kind(*i)),
        Dev::Sep(i, s) => format!("{}|{}-in-place-of-separator|{}", kind(*i - 1), if s.starts_with("//") { "line-comment" } else { "block-comment" }, kind(*i)),
    }
}

fn single_devs(r: &Rendered) -> Vec<Dev> {
    let mut out = vec![];
    for (i, t) in r.terms.iter().enumerate() {
        match t.slot {
            Slot::None => {}
            Slot::Ws => {
                for (_, s) in WS_TRIVIA.iter() {
                    out.push(Dev::Insert(i, s.to_string()));
                }
            }
            Slot::Mws => {
                for (_, s) in WS_TRIVIA.iter().chain(MWS_TRIVIA.iter()) {
                    out.push(Dev::Insert(i, s.to_string()));
                }
            }
        }
        if t.flip {
            out.push(Dev::Flip(i));
        }
        if r.joinable(i) {
            out.push(Dev::Sep(i, " ".to_string()));
        }
        // a comment *in place of* the blank or the line break that separates two tokens (no blank on either side of
        // it): `lda/* c */#1`, `rts// c` + line break
        // (not behind a `/`: `1 /` + `/* c */` would read as the line comment `//* c */`)
        if i > 0 && t.slot != Slot::None && !r.terms[i - 1].text.ends_with('/') {
            if t.sep == " " {
                out.push(Dev::Sep(i, "/* c */".to_string()));
            }
            if t.sep == "\n" && t.slot == Slot::Mws {
                out.push(Dev::Sep(i, "// c\n".to_string()));
                out.push(Dev::Sep(i, "/* c */\n".to_string()));
            }
        }
    }
    out
}

fn dev_index(d: &Dev) -> usize {
    match d {
        Dev::Insert(i, _) | Dev::Flip(i) | Dev::Sep(i, _) => *i,
    }
}

pub fn diff(a: &Meaning, b: &Meaning) -> Option<String> {
    if let Some(p) = &b.panic {
        return Some(format!("panic: {}", p));
    }
    if a.messages != b.messages {
        return Some(format!("diagnostics {:?} became {:?}", a.messages, b.messages));
    }
    if a.segs != b.segs {
        return Some(format!(
            "bytes changed: {:?} -> {:?}",
            a.segs.iter().map(|s| (s.0.clone(), s.1, crate::util::hex_bytes(&s.2))).collect::<Vec<_>>(),
            b.segs.iter().map(|s| (s.0.clone(), s.1, crate::util::hex_bytes(&s.2))).collect::<Vec<_>>()
        ));
    }
    if a.symbols != b.symbols {
        let changed: Vec<String> = a
            .symbols
            .iter()
            .filter(|(k, v)| b.symbols.get(*k) != Some(v))
            .map(|(k, _)| k.clone())
            .chain(b.symbols.keys().filter(|k| !a.symbols.contains_key(*k)).cloned())
            .take(5)
            .collect();
        return Some(format!("symbols changed: {:?}", changed));
    }
    None
}

pub fn what_kind(d: &str) -> &'static str {
    if d.starts_with("panic") {
        "panic"
    } else if d.starts_with("diagnostics") {
        "diagnostics"
    } else if d.starts_with("bytes") {
        "bytes"
    } else {
        "symbols"
    }
}

fn case_json(text: &str, base: &str, prog: &str) -> Value {
    json!({"kind": "layout", "program": prog, "files": {"main.asm": text, "other.asm": OTHER_ASM}, "base": base})
}

pub fn all_bases(isa: &Isa) -> Vec<Prog> {
    let mut progs = base_programs();
    // every statement form of the C01 catalogue once
    let cat = c01::catalogue(isa, 1);
    for chunk in cat.chunks(12) {
        let mut stmts = vec![];
        let mut seen_label = false;
        for (k, s) in chunk {
            // names l1/c1/v1/m1 occur once per catalogue
            if k == "label" {
                if seen_label {
                    continue;
                }
                seen_label = true;
            }
            if k == "label-block" {
                continue;
            }
            stmts.extend(s.iter().cloned());
        }
        progs.push(Prog {
            name: format!("catalogue-{}", chunk[0].0),
            stmts,
            valid: true,
        });
    }
    progs.push(Prog {
        name: "catalogue-label-block".into(),
        stmts: vec![label_block("lb", vec![imp("nop")])],
        valid: true,
    });
    progs
}

pub fn run(ctx: &Ctx, replay: Option<&Value>) -> i32 {
    let opts = Opts::default();
    if let Some(case) = replay {
        let text = case["files"]["main.asm"].as_str().unwrap_or("");
        let base = case["base"].as_str().unwrap_or("");
        let a = meaning_of(base, &opts);
        let b = meaning_of(text, &opts);
        println!("base:\n{}\n--- variant:\n{}\n---", base, text);
        match diff(&a, &b) {
            Some(d) => println!("MEANING DIFFERS: {}", d),
            None => println!("same meaning"),
        }
        return 0;
    }
    let isa = Isa::new();
    let thorough = ctx.tier.is_thorough();
    let progs = all_bases(&isa);
    ctx.set("base_programs", json!(progs.len()));
    struct Work {
        prog: usize,
        devs: Vec<Dev>,
    }
    let rendered: Vec<Rendered> = progs.iter().map(|p| render(&p.stmts)).collect();
    let bases: Vec<(String, Meaning)> = rendered
        .iter()
        .map(|r| {
            let t = r.text();
            let m = meaning_of(&t, &opts);
            (t, m)
        })
        .collect();
    for (i, p) in progs.iter().enumerate() {
        let ok = bases[i].1.messages.is_empty() && bases[i].1.panic.is_none();
        if ok != p.valid {
            ctx.finding(Finding::new(
                format!("base:{}:{}", p.name, if p.valid { "rejected" } else { "accepted" }),
                format!("base program {:?}: valid={} but messages={:?} panic={:?}", bases[i].0, p.valid, bases[i].1.messages, bases[i].1.panic),
                case_json(&bases[i].0, &bases[i].0, &p.name),
            ));
        }
        ctx.count(if ok { "bases_assembling" } else { "bases_with_diagnostics" });
    }
    // bound 1
    let mut work = vec![];
    let mut total_slots = 0;
    for (pi, r) in rendered.iter().enumerate() {
        total_slots += r.terms.iter().filter(|t| t.slot != Slot::None).count();
        for d in single_devs(r) {
            work.push(Work { prog: pi, devs: vec![d] });
        }
        // whole file LF -> CRLF handled below; trailing trivia at end of file
    }
    ctx.set("trivia_slots", json!(total_slots));
    ctx.set("single_deviations", json!(work.len()));
    let failing_single = std::sync::Mutex::new(std::collections::HashSet::<(usize, String)>::new());
    let run_work = |w: Work| {
        let r = &rendered[w.prog];
        let text = r.layout(&w.devs).text;
        ctx.eval(|| json!(text));
        if text != bases[w.prog].0 {
            ctx.nontrivial(fnv_str(&text));
        }
        let m = meaning_of(&text, &opts);
        if let Some(d) = diff(&bases[w.prog].1, &m) {
            let labels: Vec<String> = w.devs.iter().map(|d| dev_label(r, d)).collect();
            if w.devs.len() == 1 {
                failing_single
                    .lock()
                    .unwrap()
                    .insert((w.prog, format!("{:?}", w.devs[0])));
            }
            let prefix = if w.devs.len() == 1 { "layout" } else { "layout2" };
            ctx.finding(Finding::new(
                format!("{}:{}:{}", prefix, labels.join("&"), what_kind(&d)),
                format!("{} — variant {:?} of {:?}", d, text, bases[w.prog].0),
                case_json(&text, &bases[w.prog].0, &progs[w.prog].name),
            ));
        }
    };
    par_each(work, &run_work);

    // whole-file variants: CRLF, trailing trivia
    for (pi, (base, bm)) in bases.iter().enumerate() {
        let mut variants: Vec<(&str, String)> = vec![
            ("crlf", base.replace('\n', "\r\n")),
            ("trailing-newline", format!("{}\n", base)),
            ("trailing-crlf", format!("{}\r\n", base.replace('\n', "\r\n"))),
            ("trailing-comment", format!("{} // end", base)),
            ("trailing-block-comment", format!("{}\n/* end */\n", base)),
            ("leading-comment", format!("// start\n{}", base)),
            ("leading-blank", format!("\n\n  {}", base)),
        ];
        if thorough {
            variants.push(("indented", base.replace('\n', "\n\t  ")));
        }
        for (name, text) in variants {
            ctx.eval(|| json!(text));
            ctx.nontrivial(fnv_str(&text));
            let m = meaning_of(&text, &opts);
            if let Some(d) = diff(bm, &m) {
                ctx.finding(Finding::new(
                    format!("layout:file:{}:{}", name, what_kind(&d)),
                    format!("{} — {} variant of {:?}", d, name, base),
                    case_json(&text, base, &progs[pi].name),
                ));
            }
        }
    }

    // bound 2: all pairs of deviations on nearby terminals (distance <= 6 terminals)
    if thorough {
        let failing = failing_single.lock().unwrap().clone();
        let mut work2 = vec![];
        for (pi, r) in rendered.iter().enumerate() {
            let devs = single_devs(r);
            for a in 0..devs.len() {
                if failing.contains(&(pi, format!("{:?}", devs[a]))) {
                    continue;
                }
                for b in a + 1..devs.len() {
                    let (ia, ib) = (dev_index(&devs[a]), dev_index(&devs[b]));
                    if ib - ia > 6 {
                        break;
                    }
                    if ia == ib && matches!((&devs[a], &devs[b]), (Dev::Insert(..), Dev::Insert(..))) {
                        // two trivia at the same slot: order a then b
                    }
                    if failing.contains(&(pi, format!("{:?}", devs[b]))) {
                        continue;
                    }
                    work2.push(Work {
                        prog: pi,
                        devs: vec![devs[a].clone(), devs[b].clone()],
                    });
                }
            }
        }
        ctx.set("pair_deviations", json!(work2.len()));
        par_each(work2, &run_work);
    }
    ctx.set("deviation_bound", json!(if thorough { 2 } else { 1 }));
    ctx.finish(
        "exploration",
        "base programs (every statement kind in nesting contexts + every form of the C01 catalogue + 8 programs with diagnostics) x every deviation at every slot the grammar marks as trivia-accepting (5 single-line trivia at ws slots, 3 more multi-line ones at mws slots), case flip of every case-bearing terminal, whole-file CRLF / leading / trailing trivia; thorough: all pairs of deviations at most 6 terminals apart. Oracle: segment bytes, symbol table and normalised diagnostic messages equal the base's. non-trivial = distinct variant text different from its base",
        true,
        &[
            "trivia slots are those of the harness grammar (derived by reading the parser); number literals and strings are single terminals (no deviation inside them)",
            "diagnostic messages are compared after removing whitespace/comments/case from quoted source fragments; positions are not compared",
            "deviation bound 1 (quick) / 2 within 6 terminals (thorough)",
        ],
    )
}
