//! C11 – source map and listings are exact.
//!
//! For successful builds the certificate walker (`cert.rs`) knows, for every emitted byte, the
//! statement that emitted it. (1) the source map must attribute exactly those target address
//! ranges to spans inside those statements (or inside the invoking statement in listing mode);
//! (2) the listing text must show, per source line, exactly the bytes emitted for that line in
//! emission order, each row starting at its address, every byte once, every line once.

use crate::cert::{certify, Chunk};
use crate::probe::{self, Opts};
use mos_core::io::to_listing;
use mvlib::grammar::*;
use mvlib::isa::{Form, Isa};
use mvlib::{fnv_str, Ctx, Finding};
use rayon::prelude::*;
use serde_json::{json, Value};
use std::collections::HashMap;

fn programs(thorough: bool) -> Vec<(String, Vec<Stmt>)> {
    let mut out: Vec<(String, Vec<Stmt>)> = vec![];
    let nop = || imp("nop");
    out.push(("plain".into(), vec![ins("lda", Form::Imm, num(1)), ins("sta", Form::Plain, hex(0xd020)), label("l"), ins("jmp", Form::Plain, id("l")), imp("rts")]));
    out.push(("data-long-line".into(), vec![byte((1..=20).map(num).collect()), word(vec![hex(0x1234), hex(0x5678)]), dword(vec![num(1)]), Stmt::Text { encoding: None, value: string("abcdefghijklmnopqrstuvwxyz") }]));
    out.push(("several-on-blocks".into(), vec![label_block("s", vec![nop(), Stmt::Braces(vec![imp("inx"), ins("bne", Form::Plain, id("-"))]), imp("rts")]), ins("jsr", Form::Plain, id("s"))]));
    out.push(("pcset-align".into(), vec![Stmt::PcSet(hex(0x1000)), nop(), Stmt::Align(num(8)), label("l"), nop(), Stmt::PcSet(hex(0x1100)), word(vec![id("l")])]));
    for n in [0i64, 1, 3] {
        out.push((format!("loop{}", n), vec![nop(), Stmt::Loop { count: num(n), body: vec![ins("lda", Form::Imm, id("index")), Stmt::Braces(vec![imp("dex"), ins("bne", Form::Plain, id("-"))])] }, imp("rts")]));
    }
    out.push(("if".into(), vec![Stmt::If { cond: num(1), then: vec![nop()], els: Some(vec![imp("brk")]) }, Stmt::If { cond: num(0), then: vec![nop()], els: Some(vec![imp("brk"), imp("rts")]) }]));
    for calls in 1..=3 {
        let mut p = vec![Stmt::MacroDef { name: "m".into(), params: vec!["v".into()], body: vec![ins("lda", Form::Imm, id("v")), ins("sta", Form::Plain, hex(0xd020))] }];
        for c in 0..calls {
            p.push(Stmt::MacroCall { name: "m".into(), args: vec![num(c)] });
            p.push(nop());
        }
        out.push((format!("macro-x{}", calls), p));
    }
    out.push(("macro-in-loop".into(), vec![
        Stmt::MacroDef { name: "m".into(), params: vec![], body: vec![imp("inx"), imp("iny")] },
        Stmt::Loop { count: num(2), body: vec![Stmt::MacroCall { name: "m".into(), args: vec![] }, nop()] },
    ]));
    // segments: plain, relocated, adjacent, overlapping target ranges
    let seg = |name: &str, start: Expr, pc: Option<Expr>| {
        let mut pairs = vec![("name".to_string(), string(name)), ("start".to_string(), start)];
        if let Some(p) = pc {
            pairs.push(("pc".to_string(), p));
        }
        Stmt::Define { kind: "segment", pairs }
    };
    // (every segment's body has its own bytes, so a listing that shows another segment's bytes is noticed)
    let body = |l: &str| {
        let k = l.bytes().last().unwrap_or(b'a') as i64;
        vec![label(l), ins("lda", Form::Imm, num(k)), ins("jmp", Form::Plain, id(l)), byte(vec![num(k + 1), num(k + 2)])]
    };
    out.push(("seg-one".into(), vec![seg("a", hex(0x1000), None), Stmt::Segment { name: string("a"), block: Some(body("la")) }]));
    out.push(("seg-relocated".into(), vec![seg("a", hex(0x1000), Some(hex(0x8000))), Stmt::Segment { name: string("a"), block: Some(body("la")) }]));
    out.push(("seg-two".into(), vec![seg("a", hex(0x1000), None), seg("b", hex(0x2000), None), Stmt::Segment { name: string("a"), block: Some(body("la")) }, Stmt::Segment { name: string("b"), block: Some(body("lb")) }]));
    out.push(("seg-two-relocated".into(), vec![seg("a", hex(0x1000), None), seg("b", hex(0x2000), Some(hex(0x9000))), Stmt::Segment { name: string("a"), block: Some(body("la")) }, Stmt::Segment { name: string("b"), block: Some(body("lb")) }]));
    out.push(("seg-overlapping-targets".into(), vec![seg("a", hex(0x1000), None), seg("b", hex(0x3000), Some(hex(0x1000))), Stmt::Segment { name: string("a"), block: Some(body("la")) }, Stmt::Segment { name: string("b"), block: Some(body("lb")) }]));
    // a macro whose body reports an error in one intermediate pass only (its branch target still has the address of
    // the pass before the 50 jumps in front of it took their size): the program is valid
    {
        let mut p = vec![Stmt::MacroDef {
            name: "mt".into(),
            params: vec![],
            body: vec![ins("bne", Form::Plain, id("mskip")), nop(), label("mskip"), imp("inx")],
        }];
        for _ in 0..50 {
            p.push(ins("jmp", Form::Plain, id("end")));
        }
        p.push(Stmt::MacroCall { name: "mt".into(), args: vec![] });
        p.push(nop());
        p.push(ins("lda", Form::Imm, num(1)));
        p.push(label("end"));
        p.push(imp("rts"));
        out.push(("macro-transient-error".into(), p));
    }
    // emission order differs from address order: the segment used first lies higher; the program counter moves back
    out.push(("seg-two-descending".into(), vec![seg("a", hex(0x2000), None), seg("b", hex(0x1000), None), Stmt::Segment { name: string("a"), block: Some(body("la")) }, Stmt::Segment { name: string("b"), block: Some(body("lb")) }, Stmt::Segment { name: string("a"), block: Some(vec![nop()]) }]));
    out.push(("pcset-back".into(), vec![Stmt::PcSet(hex(0x1100)), nop(), ins("lda", Form::Imm, num(1)), Stmt::PcSet(hex(0x1000)), imp("inx"), label("l"), ins("jmp", Form::Plain, id("l")), Stmt::PcSet(hex(0x1080)), imp("rts")]));
    out.push(("seg-interleaved".into(), vec![seg("a", hex(0x1000), None), seg("b", hex(0x2000), None), Stmt::Segment { name: string("a"), block: Some(vec![nop()]) }, Stmt::Segment { name: string("b"), block: Some(vec![imp("inx")]) }, Stmt::Segment { name: string("a"), block: Some(vec![imp("iny")]) }]));
    // one source line (the invocation) emitting into two segments; a loop whose iterations alternate segments
    for (tag, pb) in [("", None), ("-relocated", Some(hex(0x9000)))] {
        for calls in 1..=2 {
            let mut p = vec![
                seg("a", hex(0x1000), None),
                seg("b", hex(0x2000), pb.clone()),
                Stmt::MacroDef {
                    name: "two".into(),
                    params: vec!["v".into()],
                    body: vec![
                        Stmt::Segment { name: string("a"), block: Some(vec![ins("lda", Form::Imm, id("v"))]) },
                        Stmt::Segment { name: string("b"), block: Some(vec![ins("ldx", Form::Imm, id("v")), imp("inx")]) },
                    ],
                },
            ];
            for c in 0..calls {
                p.push(Stmt::MacroCall { name: "two".into(), args: vec![num(7 + c)] });
            }
            out.push((format!("seg-macro-two-segments{}-x{}", tag, calls), p));
        }
        out.push((format!("seg-loop-two-segments{}", tag), vec![
            seg("a", hex(0x1000), None),
            seg("b", hex(0x2000), pb.clone()),
            Stmt::Loop { count: num(2), body: vec![
                Stmt::Segment { name: string("a"), block: Some(vec![ins("lda", Form::Imm, id("index"))]) },
                Stmt::Segment { name: string("b"), block: Some(vec![ins("ldx", Form::Imm, id("index"))]) },
            ] },
        ]));
    }
    if thorough {
        // all pairs of the small bodies in two segments x relocation of either
        for (i, pa) in [None, Some(hex(0x8000))].iter().enumerate() {
            for (j, pb) in [None, Some(hex(0x8000)), Some(hex(0x1000))].iter().enumerate() {
                for sb in [0x1008i64, 0x2000] {
                    out.push((format!("seg-pair-{}-{}-{:x}", i, j, sb), vec![
                        seg("a", hex(0x1000), pa.clone()), seg("b", hex(sb), pb.clone()),
                        Stmt::Segment { name: string("a"), block: Some(body("la")) },
                        Stmt::Segment { name: string("b"), block: Some(vec![label("lb"), Stmt::Loop { count: num(2), body: vec![ins("ldx", Form::Imm, id("index"))] }, ins("jmp", Form::Plain, id("la"))]) },
                    ]));
                }
            }
        }
    }
    out
}


/// Listing rows of one file: per source line the (address, byte) pairs shown for it, a row's bytes counted on
/// from the row's address; plus the sequence of line numbers in row order.
fn parse_listing(lst: &str, n_lines: usize, bpl: usize) -> (Vec<Vec<(usize, u8)>>, Vec<usize>, Vec<String>) {
    let mut got: Vec<Vec<(usize, u8)>> = vec![vec![]; n_lines];
    let mut line_seq: Vec<usize> = vec![];
    let mut problems: Vec<String> = vec![];
    for row in lst.lines() {
        if row.len() < 5 {
            continue;
        }
        let ln: usize = match row[..5].trim().parse::<usize>() {
            Ok(n) => n - 1,
            Err(_) => {
                problems.push(format!("row without line number: {:?}", row));
                continue;
            }
        };
        if ln >= n_lines {
            problems.push(format!("row for line {} beyond the file", ln + 1));
            continue;
        }
        if line_seq.last() != Some(&ln) {
            line_seq.push(ln);
        }
        let rest = &row[5..];
        if rest.len() >= 6 && rest.as_bytes().get(5) == Some(&b':') {
            if let Ok(addr) = usize::from_str_radix(rest[1..5].trim(), 16) {
                let bytes_field: String = rest[6..].chars().take(bpl * 3 + 1).collect();
                let mut a = addr;
                for tok in bytes_field.split_whitespace() {
                    if tok.len() == 2 {
                        if let Ok(b) = u8::from_str_radix(tok, 16) {
                            got[ln].push((a, b));
                            a += 1;
                            continue;
                        }
                    }
                    break;
                }
            }
        }
    }
    (got, line_seq, problems)
}

// ------------------------------------------------------------------------------------------------
// imports: differential against the same text placed in a scope at the import site
// ------------------------------------------------------------------------------------------------

/// One import of `o.asm` in main.asm: the statement and what stands for it in the single-file twin.
struct ImportSite {
    /// the import statement (one line)
    import_line: String,
    /// the lines that replace it in the twin: opening line(s), then the file's lines, then `}`
    open: Vec<String>,
}

/// (name, lines of main.asm with `@I0`/`@I1` marking the import sites, import sites, lines of o.asm)
fn import_cases() -> Vec<(String, Vec<String>, Vec<ImportSite>, Vec<String>)> {
    let s = |v: &[&str]| v.iter().map(|x| x.to_string()).collect::<Vec<String>>();
    let bodies: Vec<(&str, Vec<String>)> = vec![
        ("code", s(&["ol: lda #$11", "sta $d020", "jmp ol", ".byte 1, 2, 3"])),
        ("long-line", s(&[".byte 1, 2, 3, 4, 5, 6, 7, 8, 9, 10, 11, 12, 13, 14, 15, 16, 17, 18, 19, 20", "rts"])),
        ("loop", s(&[".loop 3 {", "lda #index", "sta $d020", "}", "rts"])),
        ("macro", s(&[".macro om(q) {", "lda #q", "}", "om(1)", "nop", "om(2)"])),
        ("parameter", s(&["lda #v", ".if v == 1 {", "inx", "} else {", "iny", "dey", "}", "rts"])),
    ];
    let mut out = vec![];
    // a macro that is defined in one file and invoked in the other (in listing mode its bytes belong to the invocation)
    out.push((
        "import-macro-defined-in-imported-file".to_string(),
        // (`import *` of a file without name clashes = its text in place, without a scope of its own)
        s(&["@I0", "om(3)", "nop", "om(4)", "rts"]),
        vec![ImportSite { import_line: ".import * from \"o.asm\"".into(), open: vec![] }],
        s(&[".macro om(q) {", "lda #q", "sta $d020", "}", "inx"]),
    ));
    out.push((
        "import-macro-defined-in-main-file".to_string(),
        s(&[".macro mm(q) {", "ldx #q", "}", "mm(1)", "@I0", "rts"]),
        vec![ImportSite { import_line: ".import * as i0 from \"o.asm\"".into(), open: vec!["i0: {".into()] }],
        s(&["mm(5)", "nop", "mm(6)"]),
    ));
    for (bn, body) in &bodies {
        let uses_v = *bn == "parameter";
        let site = |k: usize, val: i64, ns: bool| -> ImportSite {
            let block = if uses_v { format!(" {{ .const v = {} }}", val) } else { String::new() };
            if ns {
                ImportSite {
                    import_line: format!(".import * as i{} from \"o.asm\"{}", k, block),
                    open: if uses_v { vec![format!("i{}: {{ .const v = {}", k, val)] } else { vec![format!("i{}: {{", k)] },
                }
            } else {
                ImportSite {
                    import_line: format!(".import * from \"o.asm\"{}", block),
                    open: if uses_v { vec![format!("{{ .const v = {}", val)] } else { vec!["{".to_string()] },
                }
            }
        };
        // imported once: plain and under a namespace; in front of, between and behind code of main.asm
        for ns in [false, true] {
            for (pn, pre, post) in [("first", 0usize, 2usize), ("middle", 2, 1), ("last", 3, 0)] {
                let mut main: Vec<String> = (0..pre).map(|i| format!("lda #{}", 0x20 + i)).collect();
                main.push("@I0".into());
                main.extend((0..post).map(|i| format!("ldx #{}", 0x30 + i)));
                out.push((format!("import-{}-{}-{}", bn, if ns { "ns" } else { "star" }, pn), main, vec![site(0, 1, ns)], body.clone()));
            }
        }
        // imported twice (every line of o.asm emits twice), with code in between; also inside a segment
        let main = s(&["nop", "@I0", "inx", "@I1", "rts"]);
        out.push((format!("import-{}-twice", bn), main, vec![site(0, 1, true), site(1, 2, true)], body.clone()));
        let main = s(&[".define segment {", "name = \"sa\"", "start = $4000", "}", "nop", "@I0", ".segment \"sa\" {", "@I1", "}", "rts"]);
        out.push((format!("import-{}-twice-two-segments", bn), main, vec![site(0, 1, true), site(1, 2, true)], body.clone()));
    }
    out
}

/// `main.asm` + `o.asm` against the twin in which every import is replaced by a scope holding the
/// file's text: every line of main.asm and of o.asm must show, in the listing, the bytes and row
/// addresses that the corresponding twin lines show (a line of o.asm that is imported twice: those
/// of its two copies, in that order), and the source map must attribute the same address ranges to
/// the same columns of those lines. The twin is a single file, i.e. inside the space the
/// certificate oracle above decides.
fn check_imports(ctx: &Ctx, bpl_list: &[usize]) {
    for (name, main_tpl, sites, other) in import_cases() {
        let mut main: Vec<String> = vec![];
        let mut twin: Vec<String> = vec![];
        // twin line -> (file, line): 0 = main.asm, 1 = o.asm
        let mut origin: Vec<Option<(usize, usize)>> = vec![];
        for l in &main_tpl {
            if let Some(k) = l.strip_prefix("@I") {
                let site = &sites[k.parse::<usize>().unwrap()];
                main.push(site.import_line.clone());
                for o in &site.open {
                    twin.push(o.clone());
                    origin.push(None);
                }
                for (i, ol) in other.iter().enumerate() {
                    twin.push(ol.clone());
                    origin.push(Some((1, i)));
                }
                if !site.open.is_empty() {
                    twin.push("}".into());
                    origin.push(None);
                }
            } else {
                origin.push(Some((0, main.len())));
                main.push(l.clone());
                twin.push(l.clone());
            }
        }
        let (main_text, other_text, twin_text) = (main.join("\n"), other.join("\n"), twin.join("\n"));
        let case = json!({"kind": "c11-import", "program": name, "files": {"main.asm": main_text, "o.asm": other_text}, "twin": twin_text});
        let opts = Opts { keep_ctx: true, move_macro: true, ..Default::default() };
        ctx.eval(|| json!({"program": name}));
        let (a, b) = match (
            probe::assemble(&[("main.asm", &main_text), ("o.asm", &other_text)], &opts),
            probe::assemble(&[("main.asm", &twin_text)], &opts),
        ) {
            (Ok(a), Ok(b)) => (a, b),
            (Err(p), _) | (_, Err(p)) => {
                ctx.finding(Finding::new(format!("listing:panic:{}", p.site), format!("{} panics: {}", name, p.message), case.clone()));
                continue;
            }
        };
        if !a.ok() || !b.ok() || a.segs != b.segs {
            // (the equivalence of an import and its expansion is C07's subject: no verdict here)
            ctx.count("import_cases_not_equivalent_to_their_twin");
            ctx.note(format!("{}: import and twin differ or do not assemble: {:?} / {:?}", name, a.messages(), b.messages()));
            continue;
        }
        ctx.nontrivial(fnv_str(&name));
        let (cga, cgb) = (a.ctx.as_ref().unwrap(), b.ctx.as_ref().unwrap());
        // ---- source map: (file, line, column range, target range) multisets
        let entries = |built: &probe::Built, twin_side: bool| -> Vec<(usize, usize, usize, usize, usize, usize)> {
            let cg = built.ctx.as_ref().unwrap();
            let tree = built.tree.as_ref().unwrap();
            let mut v = vec![];
            for off in cg.source_map().offsets() {
                if off.pc.is_empty() {
                    continue;
                }
                let sl = tree.code_map.look_up_span(off.span);
                let file_is_other = sl.file.name().ends_with("o.asm");
                let (file, line) = if twin_side {
                    match origin.get(sl.begin.line).copied().flatten() {
                        Some(fl) => fl,
                        None => (9, sl.begin.line),
                    }
                } else {
                    (file_is_other as usize, sl.begin.line)
                };
                v.push((file, line, sl.begin.column, sl.end.column, off.pc.start, off.pc.end));
            }
            v.sort();
            v
        };
        let (ea, eb) = (entries(&a, false), entries(&b, true));
        if ea != eb {
            let only_a: Vec<_> = ea.iter().filter(|x| !eb.contains(x)).take(3).collect();
            let only_b: Vec<_> = eb.iter().filter(|x| !ea.contains(x)).take(3).collect();
            ctx.finding(Finding::new(
                "sourcemap:import:differs-from-inline-scope".to_string(),
                format!("{}: source map entries (file, line, columns, target range) only with the import: {:?}; only with the same text in a scope: {:?}", name, only_a, only_b),
                case.clone(),
            ));
        }
        // ---- listings
        for bpl in bpl_list {
            ctx.eval(|| json!({"program": name, "bytes_per_line": bpl}));
            let (la, lb) = match (mvlib::panics::guard(|| to_listing(cga, *bpl)), mvlib::panics::guard(|| to_listing(cgb, *bpl))) {
                (Ok(Ok(x)), Ok(Ok(y))) => (x, y),
                (Err(p), _) | (_, Err(p)) => {
                    ctx.finding(Finding::new(format!("listing:panic:{}", p.site), format!("{}: to_listing({}) panics: {}", name, bpl, p.message), case.clone()));
                    continue;
                }
                _ => continue,
            };
            let text_of = |l: &HashMap<std::path::PathBuf, String>, f: &str| l.iter().find(|(p, _)| p.to_string_lossy().ends_with(f)).map(|(_, t)| t.clone());
            let twin_l = match text_of(&lb, "main.asm") {
                Some(t) => t,
                None => continue,
            };
            let (twin_rows, _, _) = parse_listing(&twin_l, twin.len(), *bpl);
            // expected per (file, line): the twin's bytes of all copies of that line, in twin order
            let mut expected: [Vec<Vec<(usize, u8)>>; 2] = [vec![vec![]; main.len()], vec![vec![]; other.len()]];
            for (tl, o) in origin.iter().enumerate() {
                if let Some((f, l)) = o {
                    expected[*f][*l].extend(twin_rows[tl].iter().copied());
                }
            }
            for (f, fname, n) in [(0usize, "main.asm", main.len()), (1, "o.asm", other.len())] {
                let lst = match text_of(&la, fname) {
                    Some(t) => t,
                    None => {
                        ctx.finding(Finding::new("listing:no-listing-for-file", format!("{}: no listing for {}", name, fname), case.clone()));
                        continue;
                    }
                };
                let (got, line_seq, mut problems) = parse_listing(&lst, n, *bpl);
                if line_seq != (0..n).collect::<Vec<_>>() && line_seq != (0..n.saturating_sub(1)).collect::<Vec<_>>() {
                    problems.push(format!("source lines of {} appear as {:?}, expected each of 1..{} once in order", fname, line_seq.iter().map(|l| l + 1).collect::<Vec<_>>(), n));
                }
                for p in problems {
                    ctx.finding(Finding::new("listing:import:lines".to_string(), format!("{} ({} bytes per line): {}", name, bpl, p), case.clone()));
                }
                for l in 0..n {
                    let gb: Vec<u8> = got[l].iter().map(|x| x.1).collect();
                    let eb: Vec<u8> = expected[f][l].iter().map(|x| x.1).collect();
                    let mut what = None;
                    if gb != eb {
                        what = Some(("bytes", format!("{} line {} shows bytes {} but the same line in a scope at the import site emits {}", fname, l + 1, crate::util::hex_bytes(&gb), crate::util::hex_bytes(&eb))));
                    } else {
                        let mut k = 0;
                        while k < got[l].len() {
                            if got[l][k].0 != expected[f][l][k].0 && *bpl == 1 {
                                // (with one byte per row every byte carries its own address; with wider rows the
                                // grouping of a twice-imported line's bytes differs from the twin's by construction)
                                what = Some(("misplaced", format!("{} line {}: byte #{} is labelled ${:04x} but is at ${:04x}", fname, l + 1, k, got[l][k].0, expected[f][l][k].0)));
                                break;
                            }
                            k += 1;
                        }
                    }
                    if let Some((kind, w)) = what {
                        ctx.finding(Finding::new(format!("listing:import:{}", kind), format!("{} ({} bytes per line): {}", name, bpl, w), case.clone()));
                        break;
                    }
                }
            }
        }
    }
}

fn class_of(name: &str) -> &'static str {
    if name.contains("overlapping") || name.contains("seg-pair") {
        "segments-overlap-or-relocated"
    } else if name.contains("relocated") {
        "relocated"
    } else {
        "plain"
    }
}

fn construct_of(s: &Stmt) -> &'static str {
    match s {
        Stmt::Instr { .. } => "instr",
        Stmt::Data { .. } => "data",
        Stmt::Text { .. } => "text",
        Stmt::Align(_) => "align",
        _ => "other",
    }
}

fn check(ctx: &Ctx, isa: &Isa, name: &str, prog: &[Stmt], bpl_list: &[usize]) {
    let r = render(prog);
    let lay = r.layout(&[]);
    let text = lay.text.clone();
    let order = preorder(prog);
    assert_eq!(order.len(), r.stmts.len());
    let id_of: HashMap<*const Stmt, usize> = order.iter().enumerate().map(|(i, s)| (*s as *const Stmt, i)).collect();
    let case = json!({"kind": "c11", "program": name, "files": {"main.asm": text}});
    // (line, col) extent of a statement: begin of first terminal .. end of last terminal
    let extent = |sid: usize| -> ((usize, usize), (usize, usize)) {
        let e = r.stmts[sid];
        let b = lay.line_col(lay.ranges[e.first].0);
        let en = lay.line_col(lay.ranges[e.end - 1].1);
        (b, en)
    };
    for move_macro in [false, true] {
        let opts = Opts { keep_ctx: true, move_macro, ..Default::default() };
        ctx.eval(|| json!({"program": name, "move_macro": move_macro}));
        let built = match probe::assemble(&[("main.asm", &text)], &opts) {
            Ok(b) => b,
            Err(p) => {
                ctx.finding(Finding::new(format!("listing:panic:{}", p.site), format!("{} panics: {}", name, p.message), case.clone()));
                return;
            }
        };
        if !built.ok() {
            ctx.finding(Finding::new(format!("listing:base-rejected:{}", name), format!("program {} does not assemble: {:?}", name, built.messages()), case.clone()));
            return;
        }
        let cert = certify(isa, &built, prog);
        if !cert.problems.is_empty() || !cert.unsupported.is_empty() {
            ctx.count("not_certified");
            let what = format!("{}: certificate walker could not account for the build: {:?} {:?}", name, cert.problems.first(), cert.unsupported.first());
            // a program of the hand-written catalogue that the walker cannot follow is lost coverage (it happened
            // when a repair renamed the scopes of macro invocations): that must show, not hide in a note
            if name.starts_with("c02-family") {
                ctx.note(what);
            } else {
                ctx.cap(what);
            }
            return;
        }
        let chunks: Vec<&Chunk> = cert.chunks.iter().filter(|c| !c.bytes.is_empty()).collect();
        // A program that moves the program counter back and overwrites its own bytes: the image no longer holds
        // what the earlier statement emitted, and the statement does not say what a listing shows then. No verdict.
        let mut overlap = false;
        for (i, a) in chunks.iter().enumerate() {
            for b in chunks.iter().skip(i + 1) {
                if a.seg == b.seg && a.addr < b.addr + b.bytes.len() && b.addr < a.addr + a.bytes.len() {
                    overlap = true;
                }
            }
        }
        if overlap {
            ctx.count("self_overwriting_programs_no_verdict");
            return;
        }
        ctx.nontrivial(fnv_str(&format!("{}{}", name, move_macro)));
        let cg = built.ctx.as_ref().unwrap();
        let tree = built.tree.as_ref().unwrap();
        // ---- (1) source map
        let mut unmatched: Vec<&Chunk> = chunks.clone();
        for off in cg.source_map().offsets() {
            if off.pc.is_empty() {
                continue;
            }
            let sl = tree.code_map.look_up_span(off.span);
            let (b, e) = ((sl.begin.line, sl.begin.column), (sl.end.line, sl.end.column));
            // the chunk with this target range whose attributed statement contains the span
            let pos = unmatched.iter().position(|c| {
                c.target == off.pc.start && c.target + c.bytes.len() == off.pc.end && {
                    let owner = if move_macro { c.invocation.unwrap_or(c.stmt) } else { c.stmt };
                    let (sb, se) = extent(id_of[&owner]);
                    sb <= b && e <= se
                }
            });
            match pos {
                Some(p) => {
                    unmatched.remove(p);
                }
                None => {
                    ctx.finding(Finding::new(
                        format!("sourcemap:{}:{}:unexpected-entry", class_of(name), if move_macro { "invocation-mode" } else { "definition-mode" }),
                        format!("{}: source map entry ${:04x}..${:04x} at {}:{}-{}:{} matches no statement that emitted those addresses", name, off.pc.start, off.pc.end, b.0 + 1, b.1 + 1, e.0 + 1, e.1 + 1),
                        case.clone(),
                    ));
                }
            }
        }
        for c in unmatched.iter().take(1) {
            let s = unsafe { &*c.stmt };
            ctx.finding(Finding::new(
                format!("sourcemap:{}:{}:{}:missing-entry", class_of(name), if move_macro { "invocation-mode" } else { "definition-mode" }, construct_of(s)),
                format!("{}: the {} bytes at target ${:04x} emitted by a {} statement have no source map entry attributed to it", name, c.bytes.len(), c.target, construct_of(s)),
                case.clone(),
            ));
        }
        // ---- (1b) the two look-ups the debugger and the listing use: address -> entry, line -> entries
        let distinct_targets = {
            let mut ok = true;
            for (i, a) in chunks.iter().enumerate() {
                for b in chunks.iter().skip(i + 1) {
                    if a.target < b.target + b.bytes.len() && b.target < a.target + a.bytes.len() {
                        ok = false;
                    }
                }
            }
            ok
        };
        if distinct_targets {
            'lookup: for c in &chunks {
                let owner = if move_macro { c.invocation.unwrap_or(c.stmt) } else { c.stmt };
                let (sb, se) = extent(id_of[&owner]);
                for k in 0..c.bytes.len() {
                    let a = c.target + k;
                    let ok = match cg.source_map().address_to_offset(a) {
                        Some(off) => {
                            let sl = tree.code_map.look_up_span(off.span);
                            sb <= (sl.begin.line, sl.begin.column) && (sl.end.line, sl.end.column) <= se
                        }
                        None => false,
                    };
                    if !ok {
                        ctx.finding(Finding::new(
                            format!("sourcemap:{}:{}:address-lookup", class_of(name), if move_macro { "invocation-mode" } else { "definition-mode" }),
                            format!("{}: looking up address ${:04x} in the source map does not lead to the statement at {}:{} that emitted the byte there", name, a, sb.0 + 1, sb.1 + 1),
                            case.clone(),
                        ));
                        break 'lookup;
                    }
                }
            }
        }
        {
            let n_lines = text.split('\n').count();
            let all = cg.source_map().offsets();
            let fname = all.first().map(|o| tree.code_map.look_up_span(o.span).file.name().to_string());
            if let Some(fname) = fname {
                for line in 0..n_lines {
                    let mut want: Vec<(usize, usize)> = all
                        .iter()
                        .filter(|o| !o.pc.is_empty() && tree.code_map.look_up_span(o.span).begin.line == line)
                        .map(|o| (o.pc.start, o.pc.end))
                        .collect();
                    let mut got: Vec<(usize, usize)> = cg
                        .source_map()
                        .line_col_to_offsets(&tree.code_map, &fname, line, None)
                        .into_iter()
                        .filter(|o| !o.pc.is_empty() && tree.code_map.look_up_span(o.span).begin.line == line)
                        .map(|o| (o.pc.start, o.pc.end))
                        .collect();
                    want.sort();
                    got.sort();
                    if want != got {
                        ctx.finding(Finding::new(
                            format!("sourcemap:{}:line-lookup", class_of(name)),
                            format!("{}: looking up line {} returns the target ranges {:x?}, the entries that begin on that line are {:x?}", name, line + 1, got, want),
                            case.clone(),
                        ));
                        break;
                    }
                }
            }
        }
        if !move_macro {
            continue;
        }
        // ---- (2) listing (as `mos build` produces it: macro entries moved to the invocation)
        // expected bytes per line in emission order, with their target addresses
        let n_lines = text.split('\n').count();
        let mut per_line: Vec<Vec<(usize, u8)>> = vec![vec![]; n_lines];
        for c in &chunks {
            let owner = c.invocation.unwrap_or(c.stmt);
            let sid = id_of[&owner];
            // the line of the statement's first terminal
            let line = extent(sid).0 .0;
            for (k, b) in c.bytes.iter().enumerate() {
                per_line[line].push((c.target + k, *b));
            }
        }
        for bpl in bpl_list {
            ctx.eval(|| json!({"program": name, "bytes_per_line": bpl}));
            let listing = match mvlib::panics::guard(|| to_listing(cg, *bpl)) {
                Ok(Ok(l)) => l,
                Ok(Err(_)) => continue,
                Err(p) => {
                    ctx.finding(Finding::new(format!("listing:panic:{}", p.site), format!("{}: to_listing({}) panics: {}", name, bpl, p.message), case.clone()));
                    continue;
                }
            };
            let lst = match listing.iter().find(|(p, _)| p.to_string_lossy().ends_with("main.asm")) {
                Some((_, t)) => t.clone(),
                None => {
                    ctx.finding(Finding::new("listing:no-listing-for-file", format!("{}: no listing for main.asm", name), case.clone()));
                    continue;
                }
            };
            // parse rows: "{:>5} {:04X}: {bytes}{source}" or "{:>5}       {pad}{source}"
            let mut got: Vec<Vec<(usize, u8)>> = vec![vec![]; n_lines];
            let mut line_seq: Vec<usize> = vec![];
            let mut problems: Vec<String> = vec![];
            for row in lst.lines() {
                if row.len() < 5 {
                    continue;
                }
                let ln: usize = match row[..5].trim().parse::<usize>() {
                    Ok(n) => n - 1,
                    Err(_) => {
                        problems.push(format!("row without line number: {:?}", row));
                        continue;
                    }
                };
                if ln >= n_lines {
                    problems.push(format!("row for line {} beyond the file", ln + 1));
                    continue;
                }
                if line_seq.last() != Some(&ln) {
                    line_seq.push(ln);
                }
                let rest = &row[5..];
                if rest.len() >= 6 && rest.as_bytes().get(5) == Some(&b':') {
                    if let Ok(addr) = usize::from_str_radix(rest[1..5].trim(), 16) {
                        let bytes_field: String = rest[6..].chars().take(bpl * 3 + 1).collect();
                        let mut a = addr;
                        for tok in bytes_field.split_whitespace() {
                            if tok.len() == 2 {
                                if let Ok(b) = u8::from_str_radix(tok, 16) {
                                    got[ln].push((a, b));
                                    a += 1;
                                    continue;
                                }
                            }
                            break;
                        }
                    }
                }
            }
            // every source line exactly once, in order
            let expected_seq: Vec<usize> = (0..n_lines).collect();
            // (a trailing empty line may be trimmed from the listing)
            let mut seq_ok = line_seq == expected_seq;
            if !seq_ok && text.ends_with('\n') && line_seq == expected_seq[..n_lines - 1] {
                seq_ok = true;
            }
            if !seq_ok {
                problems.push(format!("source lines appear as {:?}, expected each of 1..{} once in order", line_seq.iter().map(|l| l + 1).collect::<Vec<_>>(), n_lines));
            }
            let mut what = None;
            for l in 0..n_lines {
                // the listing records per row only the address of the row's first byte; compare bytes, and
                // addresses at row starts (got carries consecutive addresses within a row)
                let gb: Vec<u8> = got[l].iter().map(|x| x.1).collect();
                let eb: Vec<u8> = per_line[l].iter().map(|x| x.1).collect();
                if gb != eb {
                    let kind = if gb.is_empty() { "missing" } else if gb.len() > eb.len() { "duplicated" } else { "misplaced" };
                    what = Some((kind, format!("line {} shows bytes {} but the statements on that line emitted {}", l + 1, crate::util::hex_bytes(&gb), crate::util::hex_bytes(&eb))));
                    break;
                }
                // row start addresses
                let mut k = 0;
                while k < got[l].len() {
                    if got[l][k].0 != per_line[l][k].0 {
                        what = Some(("misplaced", format!("line {}: row starting with byte #{} is labelled ${:04x} but that byte is at ${:04x}", l + 1, k, got[l][k].0, per_line[l][k].0)));
                        break;
                    }
                    k += bpl;
                }
                if what.is_some() {
                    break;
                }
            }
            if let Some((kind, w)) = what {
                ctx.finding(Finding::new(
                    format!("listing:{}:{}", class_of(name), kind),
                    format!("{} ({} bytes per line): {}", name, bpl, w),
                    case.clone(),
                ));
            }
            for p in problems.iter().take(1) {
                ctx.finding(Finding::new(format!("listing:{}:lines", class_of(name)), format!("{} ({} bytes per line): {}", name, bpl, p), case.clone()));
            }
        }
    }
}

pub fn run(ctx: &Ctx, replay: Option<&Value>) -> i32 {
    let isa = Isa::new();
    if let Some(case) = replay {
        let text = case["files"]["main.asm"].as_str().unwrap_or("");
        let other = case["files"]["o.asm"].as_str().unwrap_or("");
        let opts = Opts { keep_ctx: true, move_macro: true, ..Default::default() };
        println!("program:\n{}\n---", text);
        if let Some(t) = case["twin"].as_str() {
            println!("o.asm:\n{}\n--- single-file twin:\n{}\n---", other, t);
            if let Ok(b) = probe::assemble(&[("main.asm", t)], &opts) {
                if let Some(cg) = &b.ctx {
                    if let Ok(Ok(l)) = mvlib::panics::guard(|| to_listing(cg, 8)) {
                        for (p, t) in l {
                            println!("listing of the twin {}:\n{}", p.display(), t);
                        }
                    }
                }
            }
        }
        if let Ok(b) = probe::assemble(&[("main.asm", text), ("o.asm", other)], &opts) {
            if let Some(cg) = &b.ctx {
                for off in cg.source_map().offsets() {
                    let sl = b.tree.as_ref().unwrap().code_map.look_up_span(off.span);
                    println!("source map: ${:04x}..${:04x} <- {}:{}..{}:{}", off.pc.start, off.pc.end, sl.begin.line + 1, sl.begin.column + 1, sl.end.line + 1, sl.end.column + 1);
                }
                if let Ok(Ok(l)) = mvlib::panics::guard(|| to_listing(cg, 8)) {
                    for (p, t) in l {
                        println!("listing {}:\n{}", p.display(), t);
                    }
                }
            }
        }
        return 0;
    }
    let thorough = ctx.tier.is_thorough();
    let mut progs = programs(thorough);
    // every assembling statement sequence of the C02 alphabet (length <= 2 quick / 3 thorough)
    for (i, p) in crate::props::c02::family_a_programs(if thorough { 3 } else { 2 }).into_iter().enumerate() {
        let text = program_text(&p);
        if let Ok(b) = probe::asm(&text) {
            if b.ok() {
                progs.push((format!("c02-family-a-{}", i), p));
            }
        }
    }
    ctx.set("programs", json!(progs.len()));
    let bpl: Vec<usize> = if thorough { (1..=16).collect() } else { vec![1, 8, 16] };
    progs.par_iter().for_each(|(name, prog)| check(ctx, &isa, name, prog, &bpl));
    check_imports(ctx, &bpl);
    ctx.finish(
        "exploration",
        "programs with every emitting statement kind, a line emitting more than 16 bytes, nested scopes, pc assignments and .align, loops (0/1/3 iterations), conditionals, a macro invoked 1-3 times and inside a loop, 1-2 segments plain / relocated / interleaved / with overlapping target ranges (all relocation pairs in thorough), a macro invocation line and a loop that emit into two segments; imported files (once, twice with different parameters, into two segments) against their single-file twin x macro attribution mode x bytes-per-line 1..16 (quick 1, 8, 16). The certificate walker gives the emitting statement of every byte; the source map must attribute exactly those target ranges to spans inside those statements, and the listing must show per source line exactly those bytes in emission order with correct row addresses, every line once. non-trivial = certified successful build x attribution mode",
        true,
        &[
            "imports are decided differentially: main.asm + imported file against the single-file twin in which the import is replaced by a scope holding the file's text (35 cases: 5 file bodies x plain / namespace x position, imported twice, into two segments); the twin itself is inside the certified space",
            "contiguity of the non-first bytes of a listing row is not demanded (a row only carries its first address)",
            "statement extents come from the harness renderer (one statement per line)",
        ],
    )
}
