//! C03 – expressions evaluate as documented.
//!
//! Bounded-exhaustive enumeration of expression trees (all shapes with <= n binary operators, all
//! 16 binary operators at every inner node, a leaf alphabet at every leaf, unary `!`/`-`/redundant
//! parentheses as deviations), each rendered with parentheses dropped ONLY where the documented
//! rules fix the reading, assembled by the real parser + code generator in batches of 200 values
//! (`.dword <e>, <e>, ...` lines of up to 16 values, an expression using `*` always first on its
//! line; `.byte`/`.word` for the truncation clause, `.text [enc] <e>` for string-valued trees) and
//! compared with a reference evaluator written here (plain checked i64 arithmetic). A batch that
//! is rejected, panics or yields other bytes is bisected down to single expressions; a failing
//! expression is reduced to its smallest failing subtree and generalised into a signature
//! (operator + operand classes). Larger trees that contain an instance of a signature that already
//! failed are counted and not run, so that one defect does not flood the run.
//!
//! Reference side decides the domain: intermediate overflow, divisor 0, shift count outside 0..31,
//! negative shifted value, and ill-typed string/number mixtures are counted, never run.
//!
//! Text encodings – only what is uncontroversial is claimed, for the characters `a-z 0-9 space . , !`:
//!   ascii (and no encoding keyword, documented default) = the bytes themselves;
//!   petscii   = lowercase letters -> $41..$5a (the unshifted PETSCII letter block), everything else
//!               of the restricted set is identical to ASCII ($20..$3f);
//!   petscreen = screen codes: letters -> $01..$1a, $20..$3f unchanged (documented example:
//!               `.text petscreen "abc"` emits $01,$02,$03).

use crate::probe;
use crate::util::{hex_bytes, par_each};
use mvlib::{fnv_str, Ctx, Finding};
use serde_json::{json, Value};
use std::collections::{BTreeMap, HashMap, HashSet};
use std::fmt::Write as _;
use std::sync::atomic::{AtomicBool, AtomicU64, Ordering};
use std::sync::{Mutex, RwLock};

// ------------------------------------------------------------------------------------------------
// alphabet

const OPS: [&str; 16] = [
    "*", "/", "%", "<<", ">>", "^", "+", "-", "==", "!=", ">=", "<=", ">", "<", "&&", "||",
];
const MUL: u8 = 0;
const DIV: u8 = 1;
const MOD: u8 = 2;
const SHL: u8 = 3;
const SHR: u8 = 4;
const XOR: u8 = 5;
const ADD: u8 = 6;
const SUB: u8 = 7;
const EQ: u8 = 8;
const NE: u8 = 9;
const GE: u8 = 10;
const LE: u8 = 11;
const GT: u8 = 12;
const LT: u8 = 13;
const AND: u8 = 14;
const OR: u8 = 15;

/// Documented precedence classes: 0 = `* / %`, 1 = `+ -`; every other operator is a class of its
/// own because the documentation does not relate it to anything.
fn op_class(op: u8) -> u8 {
    match op {
        MUL | DIV | MOD => 0,
        ADD | SUB => 1,
        o => 10 + o,
    }
}

#[derive(Clone, Copy, Debug)]
enum LV {
    N(i64),
    S(&'static str),
    Pc,
}

struct LeafDef {
    text: &'static str,
    v: LV,
    /// what kind of factor this is (first signature component when the leaf itself fails)
    kind: &'static str,
    /// spelling class
    form: &'static str,
    /// class of the leaf when it is an operand (how the token starts); `""` = same as `form`
    oform: &'static str,
}

const W: i64 = 0x12345;
const LABEL_ADDR: i64 = 0x2000;
const BASE_PC: i64 = 0x2004;

const fn leaf(text: &'static str, v: LV, kind: &'static str, form: &'static str, oform: &'static str) -> LeafDef {
    LeafDef {
        text,
        v,
        kind,
        form,
        oform,
    }
}

const LEAVES: [LeafDef; 26] = [
    leaf("0", LV::N(0), "literal", "dec", ""),                        // 0
    leaf("1", LV::N(1), "literal", "dec", ""),                        // 1
    leaf("2", LV::N(2), "literal", "dec", ""),                        // 2
    leaf("7", LV::N(7), "literal", "dec", ""),                        // 3
    leaf("255", LV::N(255), "literal", "dec", ""),                    // 4
    leaf("256", LV::N(256), "literal", "dec", ""),                    // 5
    leaf("$ff", LV::N(255), "literal", "hex", "$hex"),                    // 6
    leaf("$0100", LV::N(256), "literal", "hex-leading-zero", "$hex"),     // 7
    leaf("%101", LV::N(5), "literal", "bin", "%bin"),                     // 8
    leaf("007", LV::N(7), "literal", "dec-leading-zero", ""),         // 9
    leaf("$0a", LV::N(10), "literal", "hex-leading-zero", "$hex"),        // 10
    leaf("true", LV::N(1), "literal", "bool", ""),                    // 11
    leaf("false", LV::N(0), "literal", "bool", ""),                   // 12
    leaf("c", LV::N(5), "ident", "const", ""),                        // 13
    leaf("l", LV::N(LABEL_ADDR), "ident", "label", ""),               // 14
    leaf("s", LV::S("ab"), "ident", "strconst", ""),                  // 15
    leaf("t", LV::S("b"), "ident", "strconst", ""),                   // 16
    leaf("*", LV::Pc, "pc", "star", "*"),                              // 17
    leaf("<w", LV::N(W & 255), "modifier", "<name", "<name"),           // 18
    leaf(">w", LV::N((W >> 8) & 255), "modifier", ">name", ">name"),    // 19
    leaf("defined(c)", LV::N(1), "defined()", "defined-name", "call"),    // 20
    leaf("defined(nope)", LV::N(0), "defined()", "undefined-name", "call"), // 21
    leaf("\"a{t}\"", LV::S("ab"), "string", "interpolated", "string"),      // 22
    leaf("%0110", LV::N(6), "literal", "bin-leading-zero", "%bin"),       // 23
    leaf("TRUE", LV::N(1), "literal", "bool-upper-case", ""),         // 24
    leaf("u", LV::S("hello, world!"), "ident", "strconst", ""),       // 25 (text family only)
];
const L_S: u8 = 15;
const L_T: u8 = 16;
const L_U: u8 = 25;

const PRELUDE: &str = ".const c = 5\n.const w = $12345\n.const s = \"ab\"\n.const t = \"b\"\n.const u = \"hello, world!\"\n* = $2000\nl:\n";

/// leaves of the standard alphabet (thorough adds `TRUE`)
fn all_leaves(thorough: bool) -> Vec<u8> {
    let mut v: Vec<u8> = (0..24).collect();
    if thorough {
        v.push(24);
    }
    v
}
/// reduced set for n = 2 with deviations: `0 2 007 $0100 %101 c * >w`
const QUICK_LEAVES: [u8; 8] = [0, 2, 9, 7, 8, 13, 17, 19];
/// quick, n = 2 with one deviation: `0 007 $0100 c`
const QUICK4_LEAVES: [u8; 4] = [0, 9, 7, 13];
/// n = 3: `0 2 7 $0100`
const DEEP_LEAVES: [u8; 4] = [0, 2, 3, 7];

// ------------------------------------------------------------------------------------------------
// trees

#[derive(Clone, Debug, PartialEq, Eq, Hash, PartialOrd, Ord)]
enum T {
    L(u8),
    /// non-negative decimal literal (only produced while generalising a failing case)
    Lit(i64),
    /// string literal given by its source text between the quotes (may contain `{name}`)
    SLit(String),
    B(u8, Box<T>, Box<T>),
    Not(Box<T>),
    Neg(Box<T>),
    /// explicit (redundant) parentheses
    P(Box<T>),
}

fn is_atom(t: &T) -> bool {
    matches!(t, T::L(_) | T::Lit(_) | T::SLit(_) | T::P(_))
}

fn render_into(t: &T, out: &mut String) {
    match t {
        T::L(i) => out.push_str(LEAVES[*i as usize].text),
        T::Lit(v) => {
            let _ = write!(out, "{}", v);
        }
        T::SLit(s) => {
            out.push('"');
            out.push_str(s);
            out.push('"');
        }
        T::P(e) => {
            out.push('(');
            render_into(e, out);
            out.push(')');
        }
        T::Not(e) | T::Neg(e) => {
            out.push(if matches!(t, T::Not(_)) { '!' } else { '-' });
            // `!-x`, the one spelling in which the grammar takes two prefix operators without parentheses (the
            // parenthesised spelling is `T::Not(T::P(T::Neg(x)))`)
            if let (T::Not(_), T::Neg(inner)) = (t, e.as_ref()) {
                if is_atom(inner) {
                    let mut text = String::new();
                    render_into(inner, &mut text);
                    // (not in front of `%`, `*`, `<`, `>`: prefix minus there is the known finding expr:-x:…)
                    if text.starts_with(|c: char| c.is_ascii_alphanumeric() || c == '$' || c == '(' || c == '_') {
                        out.push('-');
                        out.push_str(&text);
                        return;
                    }
                }
            }
            if is_atom(e) {
                render_into(e, out);
            } else {
                // `!` and `-` are combined only through parentheses; a binary operand is
                // parenthesised because the modifier applies to a factor
                out.push('(');
                render_into(e, out);
                out.push(')');
            }
        }
        T::B(op, l, r) => {
            operand_into(l, *op, true, out);
            out.push(' ');
            out.push_str(OPS[*op as usize]);
            out.push(' ');
            operand_into(r, *op, false, out);
        }
    }
}

/// true iff the documentation fixes the reading of `child` as an operand of `op` without parentheses
fn reading_fixed(child_op: u8, op: u8, left: bool) -> bool {
    let (cc, pc) = (op_class(child_op), op_class(op));
    if cc == 0 && pc == 1 {
        return true; // `* / %` bind tighter than `+ -`
    }
    if left && (child_op == op || (cc == pc && pc <= 1)) {
        return true; // operators of equal precedence associate to the left
    }
    false
}

fn operand_into(e: &T, op: u8, left: bool, out: &mut String) {
    let paren = match e {
        T::B(cop, _, _) => !reading_fixed(*cop, op, left),
        _ => false,
    };
    if paren {
        out.push('(');
    }
    render_into(e, out);
    if paren {
        out.push(')');
    }
}

fn render(t: &T) -> String {
    let mut s = String::with_capacity(32);
    render_into(t, &mut s);
    s
}

/// the rendering relies on a documented precedence / associativity rule somewhere
fn relies_on_rule(t: &T) -> bool {
    match t {
        T::B(op, l, r) => {
            let direct = |c: &T, left: bool| matches!(c, T::B(cop, _, _) if reading_fixed(*cop, *op, left));
            direct(l, true) || direct(r, false) || relies_on_rule(l) || relies_on_rule(r)
        }
        T::Not(e) | T::Neg(e) | T::P(e) => relies_on_rule(e),
        _ => false,
    }
}

fn has_operator(t: &T) -> bool {
    match t {
        T::L(i) => !matches!(LEAVES[*i as usize].kind, "literal" | "ident" | "pc"),
        T::Lit(_) => false,
        T::SLit(s) => s.contains('{'),
        _ => true,
    }
}

fn uses_pc(t: &T) -> bool {
    match t {
        T::L(i) => matches!(LEAVES[*i as usize].v, LV::Pc),
        T::B(_, l, r) => uses_pc(l) || uses_pc(r),
        T::Not(e) | T::Neg(e) | T::P(e) => uses_pc(e),
        _ => false,
    }
}

fn children(t: &T) -> Vec<&T> {
    match t {
        T::B(_, l, r) => vec![l, r],
        T::Not(e) | T::Neg(e) | T::P(e) => vec![e],
        _ => vec![],
    }
}

// ------------------------------------------------------------------------------------------------
// reference evaluator (shares nothing with the repository)

#[derive(Clone, Debug, PartialEq, Eq)]
enum V {
    N(i64),
    S(String),
}

#[derive(Clone, Copy, Debug, PartialEq, Eq)]
enum Skip {
    Overflow,
    DivZero,
    ShiftCount,
    ShiftNeg,
    Type,
}

impl Skip {
    fn key(&self) -> &'static str {
        match self {
            Skip::Overflow => "filtered_overflow",
            Skip::DivZero => "filtered_divisor_zero",
            Skip::ShiftCount => "filtered_shift_count",
            Skip::ShiftNeg => "filtered_shift_of_negative",
            Skip::Type => "filtered_string_number_mix",
        }
    }
}

fn interpolate(src: &str) -> Result<String, Skip> {
    let mut out = String::new();
    let mut rest = src;
    while let Some(p) = rest.find('{') {
        out.push_str(&rest[..p]);
        let q = rest[p..].find('}').ok_or(Skip::Type)? + p;
        let name = &rest[p + 1..q];
        let v = match name {
            "s" => LEAVES[L_S as usize].v,
            "t" => LEAVES[L_T as usize].v,
            "u" => LEAVES[L_U as usize].v,
            _ => return Err(Skip::Type),
        };
        match v {
            LV::S(x) => out.push_str(x),
            _ => return Err(Skip::Type),
        }
        rest = &rest[q + 1..];
    }
    out.push_str(rest);
    Ok(out)
}

fn b2i(b: bool) -> i64 {
    if b {
        1
    } else {
        0
    }
}

fn eval(t: &T, pc: i64) -> Result<V, Skip> {
    Ok(match t {
        T::L(i) => match LEAVES[*i as usize].v {
            LV::N(n) => V::N(n),
            LV::S(s) => V::S(s.to_string()),
            LV::Pc => V::N(pc),
        },
        T::Lit(n) => V::N(*n),
        T::SLit(s) => V::S(interpolate(s)?),
        T::P(e) => eval(e, pc)?,
        T::Not(e) => match eval(e, pc)? {
            V::N(n) => V::N(b2i(n == 0)),
            V::S(_) => return Err(Skip::Type),
        },
        T::Neg(e) => match eval(e, pc)? {
            V::N(n) => V::N(n.checked_neg().ok_or(Skip::Overflow)?),
            V::S(_) => return Err(Skip::Type),
        },
        T::B(op, l, r) => {
            let a = eval(l, pc)?;
            let b = eval(r, pc)?;
            match (a, b) {
                (V::N(a), V::N(b)) => V::N(apply(*op, a, b)?),
                (V::S(a), V::S(b)) => match *op {
                    ADD => V::S(a + &b),
                    EQ => V::N(b2i(a == b)),
                    NE => V::N(b2i(a != b)),
                    _ => return Err(Skip::Type),
                },
                _ => return Err(Skip::Type),
            }
        }
    })
}

fn apply(op: u8, a: i64, b: i64) -> Result<i64, Skip> {
    Ok(match op {
        MUL => a.checked_mul(b).ok_or(Skip::Overflow)?,
        DIV => {
            if b == 0 {
                return Err(Skip::DivZero);
            }
            a.checked_div(b).ok_or(Skip::Overflow)? // truncates toward zero
        }
        MOD => {
            if b == 0 {
                return Err(Skip::DivZero);
            }
            a.checked_rem(b).ok_or(Skip::Overflow)? // sign of the dividend
        }
        SHL | SHR => {
            if !(0..=31).contains(&b) {
                return Err(Skip::ShiftCount);
            }
            if a < 0 {
                return Err(Skip::ShiftNeg);
            }
            if op == SHL {
                a.checked_mul(1i64 << b).ok_or(Skip::Overflow)?
            } else {
                a / (1i64 << b)
            }
        }
        XOR => a ^ b,
        ADD => a.checked_add(b).ok_or(Skip::Overflow)?,
        SUB => a.checked_sub(b).ok_or(Skip::Overflow)?,
        EQ => b2i(a == b),
        NE => b2i(a != b),
        GE => b2i(a >= b),
        LE => b2i(a <= b),
        GT => b2i(a > b),
        LT => b2i(a < b),
        AND => b2i(a != 0 && b != 0),
        OR => b2i(a != 0 || b != 0),
        _ => unreachable!(),
    })
}

// ------------------------------------------------------------------------------------------------
// observation

#[derive(Clone, Copy, Debug, PartialEq, Eq, Hash)]
enum Dir {
    Dword,
    Word,
    Byte,
    /// 0 = no keyword, 1 = ascii, 2 = petscii, 3 = petscreen
    Text(u8),
}

impl Dir {
    fn text(&self) -> &'static str {
        match self {
            Dir::Dword => ".dword",
            Dir::Word => ".word",
            Dir::Byte => ".byte",
            Dir::Text(0) => ".text",
            Dir::Text(1) => ".text ascii",
            Dir::Text(2) => ".text petscii",
            Dir::Text(_) => ".text petscreen",
        }
    }
    fn parse(s: &str) -> Option<Dir> {
        [
            Dir::Dword,
            Dir::Word,
            Dir::Byte,
            Dir::Text(0),
            Dir::Text(1),
            Dir::Text(2),
            Dir::Text(3),
        ]
        .into_iter()
        .find(|d| d.text() == s)
    }
    fn fixed(&self) -> bool {
        !matches!(self, Dir::Text(_))
    }
}

fn encode(s: &str, enc: u8) -> Option<Vec<u8>> {
    let mut out = vec![];
    for ch in s.chars() {
        let b = match ch {
            'a'..='z' => match enc {
                0 | 1 => ch as u8,
                2 => 0x41 + (ch as u8 - b'a'),
                _ => 1 + (ch as u8 - b'a'),
            },
            '0'..='9' | ' ' | '.' | ',' | '!' => ch as u8,
            _ => return None, // outside the characters a claim is made about
        };
        out.push(b);
    }
    Some(out)
}

fn expected_bytes(v: &V, dir: Dir) -> Option<Vec<u8>> {
    match (v, dir) {
        (V::N(n), Dir::Dword) => Some(((*n as u64 & 0xffff_ffff) as u32).to_le_bytes().to_vec()),
        (V::N(n), Dir::Word) => Some(((*n as u64 & 0xffff) as u16).to_le_bytes().to_vec()),
        (V::N(n), Dir::Byte) => Some(vec![(*n as u64 & 0xff) as u8]),
        (V::S(s), Dir::Text(e)) => encode(s, e),
        _ => None,
    }
}

#[derive(Clone, Debug)]
struct Item {
    tree: T,
    dir: Dir,
    pc: i64,
    src: String,
    expect: Vec<u8>,
    value: V,
    uses_pc: bool,
}

fn make_item(tree: &T, dir: Dir, pc: i64) -> Result<Item, Skip> {
    let value = eval(tree, pc)?;
    let expect = expected_bytes(&value, dir).ok_or(Skip::Type)?;
    Ok(Item {
        tree: tree.clone(),
        dir,
        pc,
        src: render(tree),
        expect,
        value,
        uses_pc: uses_pc(tree),
    })
}

/// Up to `PACK` expressions share one `.byte/.word/.dword a, b, c` line (the documented list
/// form; it spares the parser's per-statement cost). An expression that uses `*` is always the
/// first of its line, so that "current PC" can only mean the address of that very value.
const PACK: usize = 16;

fn program(items: &[Item]) -> String {
    let mut s = String::with_capacity(PRELUDE.len() + 16 + items.len() * 32);
    s.push_str(PRELUDE);
    let _ = writeln!(s, "* = ${:04x}", items.first().map(|i| i.pc).unwrap_or(BASE_PC));
    let mut on_line = 0usize;
    let mut open: Option<Dir> = None; // directive of the line that may still take elements
    for it in items {
        // may join a line: not using `*`; may open a line that others join: any integer directive
        // (for the first value of a list "current PC" is the statement's and the value's address)
        let joins = it.dir.fixed() && !it.uses_pc;
        if joins && open == Some(it.dir) && on_line < PACK {
            s.push_str(", ");
            s.push_str(&it.src);
            on_line += 1;
            continue;
        }
        if !s.ends_with('\n') {
            s.push('\n');
        }
        s.push_str(it.dir.text());
        s.push(' ');
        s.push_str(&it.src);
        on_line = 1;
        open = if it.dir.fixed() { Some(it.dir) } else { None };
    }
    if !s.ends_with('\n') {
        s.push('\n');
    }
    s
}

#[derive(Clone, Debug, PartialEq, Eq)]
enum Outcome {
    Pass,
    Mismatch(Vec<u8>),
    Rejected(Vec<String>),
    Panic { site: String, message: String },
    /// every part passes alone, together they fail: (program, description)
    Context(String, String),
}

impl Outcome {
    fn kind(&self) -> &'static str {
        match self {
            Outcome::Pass => "pass",
            Outcome::Mismatch(_) => "wrong-value",
            Outcome::Rejected(_) => "rejected",
            Outcome::Panic { .. } => "panic",
            Outcome::Context(..) => "context",
        }
    }
    fn describe(&self) -> String {
        match self {
            Outcome::Pass => "passes".into(),
            Outcome::Mismatch(b) => format!("assembler produced {}", if b.is_empty() { "no bytes".to_string() } else { hex_bytes(b) }),
            Outcome::Rejected(m) => format!("rejected: {:?}", m),
            Outcome::Panic { site, message } => format!("panic at {}: {}", site, message),
            Outcome::Context(_, d) => d.clone(),
        }
    }
}

/// result of running one program: per item observed bytes, or a whole-program failure
enum Run {
    Built { seg_start: i64, bytes: Vec<u8> },
    Whole(Outcome),
}

fn run_program(text: &str) -> Run {
    match probe::asm(text) {
        Err(p) => Run::Whole(Outcome::Panic {
            site: p.site,
            message: p.message,
        }),
        Ok(b) => {
            if !b.ok() {
                let mut m: Vec<String> = b.all_diags().iter().map(|d| d.short()).collect();
                if b.stop != probe::Stop::None {
                    m.push(format!("pass loop stopped: {:?}", b.stop));
                }
                m.truncate(4);
                return Run::Whole(Outcome::Rejected(m));
            }
            match b.seg("default").or(b.segs.first()) {
                Some(s) => Run::Built {
                    seg_start: s.start as i64,
                    bytes: s.bytes.clone(),
                },
                None => Run::Built {
                    seg_start: 0,
                    bytes: vec![],
                },
            }
        }
    }
}

fn slice_at(seg_start: i64, bytes: &[u8], pc: i64, len: usize) -> &[u8] {
    let off = pc - seg_start;
    if off < 0 || off as usize > bytes.len() {
        return &[];
    }
    let off = off as usize;
    &bytes[off..(off + len).min(bytes.len())]
}

// ------------------------------------------------------------------------------------------------
// failure patterns (= signatures)

fn natural_dir(v: &V) -> Dir {
    match v {
        V::N(_) => Dir::Dword,
        V::S(_) => Dir::Text(0),
    }
}

fn literal_for(v: &V) -> Option<T> {
    match v {
        V::N(n) if *n >= 0 => Some(T::Lit(*n)),
        V::N(n) => n.checked_neg().map(|m| T::Neg(Box::new(T::Lit(m)))),
        V::S(s) => Some(T::SLit(s.clone())),
    }
}

fn value_class(v: &V) -> &'static str {
    match v {
        V::S(_) => "str",
        V::N(0) => "0",
        V::N(1) => "1",
        V::N(n) if *n < 0 => "<0",
        V::N(n) if *n <= 255 => "2..255",
        V::N(_) => ">255",
    }
}

/// operands of a node together with "is rendered inside parentheses supplied by the renderer"
fn operands(x: &T) -> Vec<(&T, bool)> {
    match x {
        T::Not(e) | T::Neg(e) => vec![(e, !is_atom(e))],
        T::P(e) => vec![(e, false)],
        T::B(op, l, r) => {
            let paren = |c: &T, left: bool| matches!(c, T::B(cop, _, _) if !reading_fixed(*cop, *op, left));
            vec![(l, paren(l, true)), (r, paren(r, false))]
        }
        _ => vec![],
    }
}

fn with_operand(x: &T, k: usize, new: T) -> T {
    let b = Box::new;
    match x {
        T::Not(_) => T::Not(b(new)),
        T::Neg(_) => T::Neg(b(new)),
        T::P(_) => T::P(b(new)),
        T::B(op, l, r) => {
            if k == 0 {
                T::B(*op, b(new), r.clone())
            } else {
                T::B(*op, l.clone(), b(new))
            }
        }
        other => other.clone(),
    }
}

/// coarse syntactic form of an operand as it appears in the text
fn operand_form(e: &T, ctx_paren: bool) -> String {
    if ctx_paren {
        return "(x)".into();
    }
    match e {
        T::L(i) => {
            let d = &LEAVES[*i as usize];
            if d.oform.is_empty() { d.form } else { d.oform }.to_string()
        }
        T::Lit(_) => "int".into(),
        T::SLit(s) => {
            if s.contains('{') {
                "interpolated".into()
            } else {
                "strlit".into()
            }
        }
        T::B(op, _, _) => format!("x{}y", OPS[*op as usize]),
        T::Not(_) => "!x".into(),
        T::Neg(x) => {
            if matches!(**x, T::Lit(_)) {
                "int".into()
            } else {
                "-x".into()
            }
        }
        T::P(_) => "(x)".into(),
    }
}

/// finer form of a parenthesised operand: names what is inside the parentheses
fn operand_form_detailed(e: &T) -> String {
    match e {
        T::P(x) => operand_form_detailed(x),
        T::B(op, _, _) => format!("(x{}y)", OPS[*op as usize]),
        T::Not(_) => "(!x)".into(),
        T::Neg(_) => "(-x)".into(),
        other => format!("({})", operand_form(other, false)),
    }
}

/// class of one operand; `None` = any
#[derive(Clone, Debug, PartialEq, Eq, Hash, PartialOrd, Ord)]
struct OpPat {
    form: Option<String>,
    vc: Option<&'static str>,
}

impl OpPat {
    fn text(&self) -> String {
        match (&self.form, self.vc) {
            (None, None) => "int".into(),
            (None, Some("str")) => "str".into(),
            (None, Some(vc)) => format!("int:{}", vc),
            (Some(f), None) => f.clone(),
            (Some(f), Some("str")) => f.clone(),
            (Some(f), Some(vc)) => format!("{}:{}", f, vc),
        }
    }
    fn matches(&self, e: &T, ctx_paren: bool, pc: i64) -> bool {
        if let Some(f) = &self.form {
            let coarse = operand_form(e, ctx_paren);
            if *f != coarse && !(coarse == "(x)" && *f == operand_form_detailed(e)) {
                return false;
            }
        }
        if let Some(vc) = self.vc {
            match eval(e, pc) {
                Ok(v) => value_class(&v) == vc,
                Err(_) => false,
            }
        } else {
            true
        }
    }
}

/// A failing construct: what a signature names, and what later (larger) trees are checked against.
#[derive(Clone, Debug, PartialEq, Eq, Hash, PartialOrd, Ord)]
enum Pat {
    Leaf(u8),
    Exact(T),
    /// 0 = `!x`, 1 = `-x`, 2 = `(x)`
    Un(u8, OpPat),
    Bin(u8, OpPat, OpPat),
}

impl Pat {
    fn sig(&self) -> String {
        match self {
            Pat::Leaf(i) => {
                let d = &LEAVES[*i as usize];
                format!("expr:{}:{}", d.kind, d.form)
            }
            Pat::Exact(T::SLit(s)) => format!("expr:string:{}", if s.contains('{') { "interpolated" } else { "plain" }),
            Pat::Exact(_) => "expr:literal:int".into(),
            Pat::Un(k, o) => format!("expr:{}:{}", ["!x", "-x", "()"][*k as usize], o.text()),
            Pat::Bin(op, l, r) => format!("expr:{}:{},{}", OPS[*op as usize], l.text(), r.text()),
        }
    }
    fn matches_node(&self, x: &T, pc: i64) -> bool {
        match (self, x) {
            (Pat::Leaf(i), T::L(j)) => i == j,
            (Pat::Exact(t), x) => t == x,
            (Pat::Un(0, o), T::Not(e)) | (Pat::Un(1, o), T::Neg(e)) => o.matches(e, !is_atom(e), pc),
            (Pat::Un(2, o), T::P(e)) => o.matches(e, false, pc),
            (Pat::Bin(op, lp, rp), T::B(xop, _, _)) if op == xop => {
                let o = operands(x);
                lp.matches(o[0].0, o[0].1, pc) && rp.matches(o[1].0, o[1].1, pc)
            }
            _ => false,
        }
    }
}

fn contains_instance(t: &T, pats: &[Pat], pc: i64) -> bool {
    if pats.iter().any(|p| p.matches_node(t, pc)) {
        return true;
    }
    match t {
        T::B(_, l, r) => contains_instance(l, pats, pc) || contains_instance(r, pats, pc),
        T::Not(e) | T::Neg(e) | T::P(e) => contains_instance(e, pats, pc),
        _ => false,
    }
}

// ------------------------------------------------------------------------------------------------
// engine state

struct Failure {
    item: Item,
    outcome: Outcome,
}

struct G<'a> {
    ctx: &'a Ctx,
    /// subtrees known to fail from earlier (completed) families; trees containing one are not run
    bad: RwLock<Vec<Pat>>,
    bad_nonempty: AtomicBool,
    /// found in the running family, merged into `bad` when the family is done
    staged_bad: Mutex<HashSet<Pat>>,
    memo: Mutex<HashMap<(String, Dir, i64), Outcome>>,
    isolated: AtomicU64,
    capped: AtomicBool,
    values: Mutex<HashSet<i64>>,
    strings: Mutex<HashSet<String>>,
}

const MAX_ISOLATED: u64 = 20_000;
const BATCH_DEFAULT: usize = 200;
fn batch_size() -> usize {
    static B: std::sync::OnceLock<usize> = std::sync::OnceLock::new();
    *B.get_or_init(|| std::env::var("C03_BATCH").ok().and_then(|s| s.parse().ok()).unwrap_or(BATCH_DEFAULT))
}
const CHUNK: u64 = 4096;

impl<'a> G<'a> {
    fn single_outcome(&self, tree: &T, dir: Dir, pc: i64) -> Outcome {
        let item = match make_item(tree, dir, pc) {
            Ok(i) => i,
            Err(_) => return Outcome::Pass, // outside the domain: no verdict
        };
        self.single_item(&item)
    }

    fn single_item(&self, item: &Item) -> Outcome {
        let key = (item.src.clone(), item.dir, if item.uses_pc { item.pc } else { 0 });
        if let Some(o) = self.memo.lock().unwrap().get(&key) {
            return o.clone();
        }
        self.ctx.count("isolation_runs");
        let text = program(std::slice::from_ref(item));
        let o = match run_program(&text) {
            Run::Whole(o) => o,
            Run::Built { seg_start, bytes } => {
                // everything from the item's address to the end of the segment
                let off = item.pc - seg_start;
                let got: Vec<u8> = if off >= 0 && (off as usize) <= bytes.len() {
                    bytes[off as usize..].to_vec()
                } else {
                    vec![]
                };
                if got == item.expect {
                    Outcome::Pass
                } else {
                    Outcome::Mismatch(got)
                }
            }
        };
        self.memo.lock().unwrap().insert(key, o.clone());
        o
    }

    /// Runs the items as one program; failures are narrowed down to single items.
    fn check_items(&self, items: &[Item], top: bool, out: &mut Vec<Failure>) {
        if items.is_empty() {
            return;
        }
        if items.len() == 1 && !top {
            let o = self.single_item(&items[0]);
            if o != Outcome::Pass {
                self.isolated.fetch_add(1, Ordering::Relaxed);
                out.push(Failure {
                    item: items[0].clone(),
                    outcome: o,
                });
            }
            return;
        }
        let text = program(items);
        if !top {
            self.ctx.count("bisect_runs");
        }
        let whole = match run_program(&text) {
            Run::Whole(o) => Some(o),
            Run::Built { seg_start, bytes } => {
                let mut bad = vec![];
                for (k, it) in items.iter().enumerate() {
                    if slice_at(seg_start, &bytes, it.pc, it.expect.len()) != &it.expect[..] {
                        bad.push(k);
                    }
                }
                let last = items.last().unwrap();
                let end_ok = seg_start + bytes.len() as i64 == last.pc + last.expect.len() as i64;
                if bad.is_empty() && end_ok {
                    if top {
                        self.ctx.count_n("items_assembled_and_equal", items.len() as u64);
                    }
                    return;
                }
                if top {
                    self.ctx.count("batches_with_wrong_bytes");
                }
                if !bad.is_empty() && items.iter().all(|i| i.dir.fixed()) && !self.capped.load(Ordering::Relaxed) {
                    // fixed-size items: the mismatching lines are known; confirm each alone
                    let mut confirmed = vec![];
                    for k in &bad {
                        let o = self.single_item(&items[*k]);
                        if o == Outcome::Pass {
                            confirmed.clear();
                            break;
                        }
                        confirmed.push(Failure {
                            item: items[*k].clone(),
                            outcome: o,
                        });
                    }
                    if !confirmed.is_empty() {
                        self.isolated.fetch_add(confirmed.len() as u64, Ordering::Relaxed);
                        out.extend(confirmed);
                        return;
                    }
                }
                None
            }
        };
        if top && whole.is_some() {
            self.ctx.count("batches_failed_to_assemble");
        }
        if self.isolated.load(Ordering::Relaxed) > MAX_ISOLATED {
            if !self.capped.swap(true, Ordering::Relaxed) {
                self.ctx.cap(format!(
                    "more than {} failing expressions isolated; further failing batches are counted, not bisected",
                    MAX_ISOLATED
                ));
            }
            self.ctx.count("failing_batches_not_bisected");
            return;
        }
        if items.len() == 1 {
            let o = self.single_item(&items[0]);
            if o != Outcome::Pass {
                self.isolated.fetch_add(1, Ordering::Relaxed);
                out.push(Failure {
                    item: items[0].clone(),
                    outcome: o,
                });
            }
            return;
        }
        let before = out.len();
        let mid = items.len() / 2;
        self.check_items(&items[..mid], false, out);
        self.check_items(&items[mid..], false, out);
        if out.len() == before && !self.capped.load(Ordering::Relaxed) {
            // both halves pass alone, together they fail
            let d = match &whole {
                Some(o) => o.describe(),
                None => "bytes differ from the expectation".to_string(),
            };
            self.isolated.fetch_add(1, Ordering::Relaxed);
            out.push(Failure {
                item: items[mid].clone(),
                outcome: Outcome::Context(text, format!("{} lines pass in two halves but fail together: {}", items.len(), d)),
            });
        }
    }

    /// descends to the smallest subtree that fails when observed alone (same pc)
    fn smallest(&self, tree: &T, pc: i64, outcome: Outcome) -> (T, Outcome) {
        for c in children(tree) {
            if let Ok(v) = eval(c, pc) {
                let o = self.single_outcome(c, natural_dir(&v), pc);
                if o != Outcome::Pass {
                    return self.smallest(c, pc, o);
                }
            }
        }
        (tree.clone(), outcome)
    }

    /// Pattern (= signature) of a failing smallest subtree: operator + one class per operand.
    /// Each operand is generalised as far as the failure survives: first its form (replaced by a
    /// plain literal of the same value, or by a parenthesised literal), then its value (literals of
    /// the other value classes).
    fn pattern(&self, x: &T, pc: i64) -> Pat {
        let fails = |t: &T| -> Option<bool> {
            match eval(t, pc) {
                Ok(v) => Some(self.single_outcome(t, natural_dir(&v), pc) != Outcome::Pass),
                Err(_) => None,
            }
        };
        let ops = operands(x);
        if ops.is_empty() {
            return match x {
                T::L(i) => Pat::Leaf(*i),
                other => Pat::Exact(other.clone()),
            };
        }
        let mut cur = x.clone();
        let mut pats = vec![];
        for k in 0..ops.len() {
            let (e, ctx_paren) = {
                let o = operands(&cur);
                (o[k].0.clone(), o[k].1)
            };
            let v = match eval(&e, pc) {
                Ok(v) => v,
                Err(_) => {
                    pats.push(OpPat { form: Some(operand_form(&e, ctx_paren)), vc: None });
                    continue;
                }
            };
            let vc = value_class(&v);
            let mut form = Some(operand_form(&e, ctx_paren));
            let mut wrap_paren = false;
            if let Some(lit) = literal_for(&v) {
                let cand = with_operand(&cur, k, lit.clone());
                if render(&cand) == render(&cur) || fails(&cand) == Some(true) {
                    form = None;
                    cur = cand;
                } else if form.as_deref() == Some("(x)") {
                    let cand = with_operand(&cur, k, T::P(Box::new(lit)));
                    if fails(&cand) == Some(true) {
                        cur = cand;
                        wrap_paren = true;
                    } else {
                        form = Some(operand_form_detailed(&e));
                    }
                }
            }
            let mut vcp = Some(vc);
            if vc != "str" {
                if form.is_none() || wrap_paren {
                    let (mut probes, mut all) = (0, true);
                    for val in [0i64, 1, 2, 256, -1] {
                        let pv = V::N(val);
                        if value_class(&pv) == vc {
                            continue;
                        }
                        let mut lit = literal_for(&pv).unwrap();
                        if wrap_paren {
                            lit = T::P(Box::new(lit));
                        }
                        match fails(&with_operand(&cur, k, lit)) {
                            Some(true) => probes += 1,
                            Some(false) => {
                                probes += 1;
                                all = false;
                            }
                            None => {}
                        }
                    }
                    if probes >= 1 && all {
                        vcp = None;
                    }
                } else if matches!(e, T::L(_)) {
                    vcp = None; // the leaf form fixes the value
                }
            }
            pats.push(OpPat { form, vc: vcp });
        }
        // an unparenthesised binary operand means the failure is about precedence / associativity:
        // the pair of operators names it, value classes would only multiply the signatures
        if operands(x).iter().any(|(e, paren)| matches!(e, T::B(..)) && !*paren) {
            for p in pats.iter_mut() {
                p.vc = None;
            }
        }
        match x {
            T::Not(_) => Pat::Un(0, pats.remove(0)),
            T::Neg(_) => Pat::Un(1, pats.remove(0)),
            T::P(_) => Pat::Un(2, pats.remove(0)),
            T::B(op, _, _) => {
                let l = pats.remove(0);
                let r = pats.remove(0);
                Pat::Bin(*op, l, r)
            }
            _ => unreachable!(),
        }
    }

    fn case_json(items: &[Item], text: &str) -> Value {
        json!({
            "kind": "expr",
            "files": {"main.asm": text},
            "items": items.iter().map(|i| json!({
                "directive": i.dir.text(), "expr": i.src, "pc": i.pc, "expected": hex_bytes(&i.expect),
            })).collect::<Vec<_>>(),
        })
    }

    fn report(&self, f: Failure) {
        let it = &f.item;
        if let Outcome::Context(text, d) = &f.outcome {
            self.ctx.finding(Finding::new(
                format!("expr:context:{}", it.dir.text().replace(' ', "-")),
                format!("lines that pass alone fail together ({}); program:\n{}", d, text),
                json!({"kind": "context", "files": {"main.asm": text}, "items": []}),
            ));
            return;
        }
        // 1. is it the directive (truncation / encoding) or the expression?
        let nat = natural_dir(&it.value);
        let (sig, smallest_src) = if it.dir != nat && self.single_outcome(&it.tree, nat, it.pc) == Outcome::Pass {
            let class = match &it.value {
                V::N(_) => value_class(&it.value).to_string(),
                V::S(s) => {
                    let mut c = String::new();
                    if s.chars().any(|ch| ch.is_ascii_lowercase()) {
                        c.push_str("letters");
                    }
                    if s.chars().any(|ch| ch.is_ascii_digit()) {
                        c.push_str("+digits");
                    }
                    if s.chars().any(|ch| " .,!".contains(ch)) {
                        c.push_str("+punct");
                    }
                    c
                }
            };
            (format!("expr:{}:{}", it.dir.text().replace(' ', "-"), class), it.src.clone())
        } else {
            let (x, _o) = self.smallest(&it.tree, it.pc, f.outcome.clone());
            let pat = self.pattern(&x, it.pc);
            let sig = pat.sig();
            self.staged_bad.lock().unwrap().insert(pat);
            (sig, render(&x))
        };
        let vtext = match &it.value {
            V::N(n) => format!("{}", n),
            V::S(s) => format!("{:?}", s),
        };
        let what = format!(
            "`{} {}` at pc ${:04x}: documented value {} => bytes {}; {} [{}]; smallest failing subtree: `{}`",
            it.dir.text(),
            it.src,
            it.pc,
            vtext,
            hex_bytes(&it.expect),
            f.outcome.describe(),
            f.outcome.kind(),
            smallest_src
        );
        let text = program(std::slice::from_ref(it));
        self.ctx.finding(Finding::new(sig, what, Self::case_json(std::slice::from_ref(it), &text)));
    }
}

// ------------------------------------------------------------------------------------------------
// enumeration

#[derive(Clone, Debug)]
enum Sh {
    L,
    B(Box<Sh>, Box<Sh>),
}

fn shapes(n: usize) -> Vec<Sh> {
    if n == 0 {
        return vec![Sh::L];
    }
    let mut out = vec![];
    for k in 0..n {
        for l in shapes(k) {
            for r in shapes(n - 1 - k) {
                out.push(Sh::B(Box::new(l.clone()), Box::new(r)));
            }
        }
    }
    out
}

#[derive(Clone, Copy, Debug, PartialEq, Eq)]
enum Dev {
    None,
    Not,
    Neg,
    Paren,
    NotNeg,
    NegNot,
    /// `!-x` written without parentheses
    NotNegDirect,
}

fn apply_dev(d: Dev, t: T) -> T {
    let b = Box::new;
    match d {
        Dev::None => t,
        Dev::Not => T::Not(b(t)),
        Dev::Neg => T::Neg(b(t)),
        Dev::Paren => T::P(b(t)),
        Dev::NotNeg => T::Not(b(T::P(b(T::Neg(b(t)))))),
        Dev::NotNegDirect => T::Not(b(T::Neg(b(t)))),
        Dev::NegNot => T::Neg(b(T::Not(b(t)))),
    }
}

#[derive(Clone, Debug)]
enum DevMode {
    NoDev,
    /// the undeviated tree + one deviation of one of these kinds at one node
    Single(Vec<Dev>),
    /// every node independently takes one of these options (must contain `Dev::None`)
    Full(Vec<Dev>),
}

#[derive(Clone, Copy, Debug, PartialEq, Eq)]
enum DirMode {
    /// `.dword` for integer valued trees, `.text` x 4 encodings for string valued trees
    Natural,
    /// `.byte` and `.word` (integer valued trees only)
    Trunc,
}

struct Family {
    name: String,
    n: usize,
    leaves: Vec<u8>,
    dev: DevMode,
    dirs: DirMode,
    shapes: Vec<Sh>,
}

impl Family {
    fn new(name: &str, n: usize, leaves: &[u8], dev: DevMode, dirs: DirMode) -> Family {
        Family {
            name: name.to_string(),
            n,
            leaves: leaves.to_vec(),
            dev,
            dirs,
            shapes: shapes(n),
        }
    }
    fn nodes(&self) -> usize {
        2 * self.n + 1
    }
    fn dev_count(&self) -> u64 {
        match &self.dev {
            DevMode::NoDev => 1,
            DevMode::Single(k) => 1 + (self.nodes() * k.len()) as u64,
            DevMode::Full(o) => (o.len() as u64).pow(self.nodes() as u32),
        }
    }
    fn size(&self) -> u64 {
        self.shapes.len() as u64
            * 16u64.pow(self.n as u32)
            * (self.leaves.len() as u64).pow(self.n as u32 + 1)
            * self.dev_count()
    }
    fn tree(&self, mut idx: u64) -> T {
        let dc = self.dev_count();
        let dev_idx = idx % dc;
        idx /= dc;
        let nl = self.leaves.len() as u64;
        let mut leaves = [0u8; 8];
        for k in 0..=self.n {
            leaves[k] = self.leaves[(idx % nl) as usize];
            idx /= nl;
        }
        let mut ops = [0u8; 8];
        for k in 0..self.n {
            ops[k] = (idx % 16) as u8;
            idx /= 16;
        }
        let sh = &self.shapes[idx as usize];
        let dev_at = |pos: usize| -> Dev {
            match &self.dev {
                DevMode::NoDev => Dev::None,
                DevMode::Single(kinds) => {
                    if dev_idx == 0 {
                        Dev::None
                    } else {
                        let d = (dev_idx - 1) as usize;
                        if d / kinds.len() == pos {
                            kinds[d % kinds.len()]
                        } else {
                            Dev::None
                        }
                    }
                }
                DevMode::Full(opts) => {
                    let mut d = dev_idx;
                    for _ in 0..pos {
                        d /= opts.len() as u64;
                    }
                    opts[(d % opts.len() as u64) as usize]
                }
            }
        };
        let (mut oi, mut li, mut pos) = (0usize, 0usize, 0usize);
        build(sh, &ops, &leaves, &mut oi, &mut li, &mut pos, &dev_at)
    }
}

fn build(sh: &Sh, ops: &[u8], leaves: &[u8], oi: &mut usize, li: &mut usize, pos: &mut usize, dev: &dyn Fn(usize) -> Dev) -> T {
    let my = *pos;
    *pos += 1;
    let core = match sh {
        Sh::L => {
            let t = T::L(leaves[*li]);
            *li += 1;
            t
        }
        Sh::B(a, b) => {
            let op = ops[*oi];
            *oi += 1;
            let l = build(a, ops, leaves, oi, li, pos, dev);
            let r = build(b, ops, leaves, oi, li, pos, dev);
            T::B(op, Box::new(l), Box::new(r))
        }
    };
    apply_dev(dev(my), core)
}

#[derive(Default)]
struct Local {
    counters: BTreeMap<&'static str, u64>,
    values: HashSet<i64>,
    strings: HashSet<String>,
}

impl Local {
    fn count(&mut self, k: &'static str) {
        *self.counters.entry(k).or_insert(0) += 1;
    }
}

struct Batch {
    items: Vec<Item>,
    pc: i64,
}

impl Batch {
    fn new() -> Batch {
        Batch {
            items: Vec::with_capacity(batch_size()),
            pc: BASE_PC,
        }
    }
}

fn flush(g: &G, b: &mut Batch) {
    if b.items.is_empty() {
        return;
    }
    let mut hashes = Vec::with_capacity(b.items.len());
    for it in &b.items {
        g.ctx.eval(|| json!({"directive": it.dir.text(), "expr": it.src, "pc": it.pc, "expected": hex_bytes(&it.expect)}));
        if has_operator(&it.tree) {
            hashes.push(fnv_str(&format!("{} {}", it.dir.text(), it.src)));
        }
    }
    g.ctx.nontrivial_many(hashes);
    g.ctx.count("programs_assembled");
    let mut fails = vec![];
    g.check_items(&b.items, true, &mut fails);
    for f in fails {
        g.ctx.count("failing_expressions");
        g.report(f);
    }
    b.items.clear();
    b.pc = BASE_PC;
}

/// Adds the tree to the batch under `dir` at the batch's next address (domain decided there).
fn add(g: &G, loc: &mut Local, b: &mut Batch, tree: &T, dir: Dir) {
    match make_item(tree, dir, b.pc) {
        Ok(item) => {
            b.pc += item.expect.len() as i64;
            b.items.push(item);
            if b.items.len() >= batch_size() {
                flush(g, b);
            }
        }
        Err(s) => loc.count(s.key()),
    }
}

fn process_tree(g: &G, loc: &mut Local, dirs: DirMode, tree: &T, bd: &mut Batch, bw: &mut Batch, bt: &mut Batch) {
    loc.count("trees_enumerated");
    // domain and type at a representative address first (cheap, and gives the type)
    let v = match eval(tree, bd.pc) {
        Ok(v) => v,
        Err(s) => {
            loc.count(s.key());
            return;
        }
    };
    if g.bad_nonempty.load(Ordering::Relaxed) && contains_instance(tree, &g.bad.read().unwrap(), bd.pc) {
        loc.count("not_run_contains_instance_of_a_failing_signature");
        return;
    }
    loc.count("trees_in_domain");
    if uses_pc(tree) {
        loc.count("trees_using_current_pc");
    }
    if relies_on_rule(tree) {
        loc.count("trees_rendered_relying_on_documented_precedence_or_associativity");
    }
    match &v {
        V::N(n) => {
            if *n < 0 {
                loc.count("trees_with_negative_value");
            }
            if !(0..=0xffff_ffff).contains(n) {
                loc.count("trees_value_outside_32_bits");
            }
            loc.values.insert(*n);
            match dirs {
                DirMode::Natural => add(g, loc, bd, tree, Dir::Dword),
                DirMode::Trunc => {
                    add(g, loc, bd, tree, Dir::Byte);
                    add(g, loc, bw, tree, Dir::Word);
                }
            }
        }
        V::S(s) => {
            if dirs == DirMode::Natural {
                loc.count("trees_string_valued");
                loc.strings.insert(s.clone());
                for e in 0..4 {
                    add(g, loc, bt, tree, Dir::Text(e));
                }
            }
        }
    }
}

fn finish_local(g: &G, loc: Local) {
    for (k, v) in &loc.counters {
        g.ctx.count_n(k, *v);
    }
    g.values.lock().unwrap().extend(loc.values);
    g.strings.lock().unwrap().extend(loc.strings);
}

fn run_family(g: &G, fam: &Family) {
    let total = fam.size();
    let t0 = std::time::Instant::now();
    let chunks: Vec<(u64, u64)> = (0..total)
        .step_by(CHUNK as usize)
        .map(|s| (s, (s + CHUNK).min(total)))
        .collect();
    par_each(chunks, |(lo, hi)| {
        let mut loc = Local::default();
        let (mut bd, mut bw, mut bt) = (Batch::new(), Batch::new(), Batch::new());
        for idx in lo..hi {
            let tree = fam.tree(idx);
            process_tree(g, &mut loc, fam.dirs, &tree, &mut bd, &mut bw, &mut bt);
        }
        flush(g, &mut bd);
        flush(g, &mut bw);
        flush(g, &mut bt);
        finish_local(g, loc);
    });
    merge_bad(g);
    g.ctx.set(
        &format!("family:{}", fam.name),
        json!({"n": fam.n, "leaves": fam.leaves.iter().map(|l| LEAVES[*l as usize].text).collect::<Vec<_>>(),
               "shapes": fam.shapes.len(), "deviation_variants_per_tree": fam.dev_count(),
               "trees": total, "observed_through": if fam.dirs == DirMode::Natural { ".dword / .text x4" } else { ".byte + .word" },
               "wall_s": t0.elapsed().as_secs_f64()}),
    );
}

fn run_list(g: &G, name: &str, trees: &[T], dirs: DirMode) {
    let mut loc = Local::default();
    let (mut bd, mut bw, mut bt) = (Batch::new(), Batch::new(), Batch::new());
    for t in trees {
        process_tree(g, &mut loc, dirs, t, &mut bd, &mut bw, &mut bt);
    }
    flush(g, &mut bd);
    flush(g, &mut bw);
    flush(g, &mut bt);
    finish_local(g, loc);
    merge_bad(g);
    g.ctx.set(&format!("family:{}", name), json!({"trees": trees.len()}));
}

fn merge_bad(g: &G) {
    let mut staged: Vec<Pat> = g.staged_bad.lock().unwrap().drain().collect();
    staged.sort();
    if !staged.is_empty() {
        let mut bad = g.bad.write().unwrap();
        for p in staged {
            if !bad.contains(&p) {
                bad.push(p);
            }
        }
        g.bad_nonempty.store(true, Ordering::Relaxed);
    }
}

/// `.text` with the whole restricted character set: literals, constants, interpolation, concatenation
fn text_family() -> Vec<T> {
    let lit = |s: &str| T::SLit(s.to_string());
    let cat = |a: T, b: T| T::B(ADD, Box::new(a), Box::new(b));
    let mut v = vec![
        lit("abcdefghijklmnopqrstuvwxyz"),
        lit("0123456789"),
        lit(" .,!"),
        lit("hello, world!"),
        lit("a"),
        lit("z9 ."),
        T::L(L_U),
        T::L(L_S),
        lit("x{u}y"),
        lit("{s}{t}"),
        lit("{s}, {t}!"),
        lit("{u}"),
        lit("1{s}2{t}3"),
        cat(T::L(L_U), lit(" 42.")),
        cat(lit("q"), T::L(L_S)),
        cat(cat(lit("q"), T::L(L_S)), lit(".")),
        cat(lit("q"), T::P(Box::new(cat(T::L(L_S), lit("."))))),
        cat(lit("{t}{t}"), lit("{s}")),
        T::P(Box::new(lit("ok!"))),
    ];
    // every single character of the restricted set on its own
    for ch in "abcdefghijklmnopqrstuvwxyz0123456789 .,!".chars() {
        v.push(lit(&ch.to_string()));
    }
    // string comparisons observed as integers
    for (a, b) in [("ab", "{s}"), ("ab", "a{t}"), ("b", "{s}"), ("hello, world!", "{u}"), ("a", "b")] {
        v.push(T::B(EQ, Box::new(lit(a)), Box::new(lit(b))));
        v.push(T::B(NE, Box::new(lit(a)), Box::new(lit(b))));
    }
    v
}

fn self_check() -> Result<(), String> {
    // reference evaluator sanity (anchors taken from ordinary arithmetic, not from the repository)
    let l = |i: u8| Box::new(T::L(i));
    let checks: Vec<(T, i64)> = vec![
        (T::B(DIV, Box::new(T::Neg(l(3))), l(2)), -3),
        (T::B(MOD, Box::new(T::Neg(l(3))), l(2)), -1),
        (T::B(MOD, l(3), Box::new(T::Neg(l(2)))), 1),
        (T::B(SHL, l(1), l(3)), 128),
        (T::B(SHR, l(5), l(2)), 64),
        (T::B(XOR, l(4), l(3)), 248),
        (T::L(18), 0x45),
        (T::L(19), 0x23),
        (T::Not(l(3)), 0),
        (T::Not(l(0)), 1),
    ];
    for (t, want) in checks {
        match eval(&t, BASE_PC) {
            Ok(V::N(n)) if n == want => {}
            other => return Err(format!("reference evaluator self-check failed on `{}`: {:?} != {}", render(&t), other, want)),
        }
    }
    let r = |t: &T| render(t);
    let t1 = T::B(ADD, l(1), Box::new(T::B(MUL, l(2), l(3))));
    let t2 = T::B(MUL, Box::new(T::B(ADD, l(1), l(2))), l(3));
    let t3 = T::B(SUB, l(1), Box::new(T::B(SUB, l(2), l(3))));
    let t4 = T::B(SUB, Box::new(T::B(ADD, l(1), l(2))), l(3));
    let t5 = T::B(ADD, Box::new(T::B(SHL, l(1), l(2))), l(3));
    let t6 = T::B(EQ, Box::new(T::B(EQ, l(1), l(2))), l(3));
    let t7 = T::B(EQ, l(1), Box::new(T::B(EQ, l(2), l(3))));
    let t8 = T::Not(Box::new(T::P(Box::new(T::Neg(l(3))))));
    let t9 = T::Not(Box::new(T::Neg(l(3))));
    for (t, want) in [
        (&t1, "1 + 2 * 7"),
        (&t2, "(1 + 2) * 7"),
        (&t3, "1 - (2 - 7)"),
        (&t4, "1 + 2 - 7"),
        (&t5, "(1 << 2) + 7"),
        (&t6, "1 == 2 == 7"),
        (&t7, "1 == (2 == 7)"),
        (&t8, "!(-7)"),
        (&t9, "!-7"),
    ] {
        if r(t) != want {
            return Err(format!("renderer self-check: got `{}` want `{}`", r(t), want));
        }
    }
    if interpolate("x{s}y{t}").ok().as_deref() != Some("xabyb") {
        return Err("interpolation self-check failed".into());
    }
    // the prelude must assemble and put `l` where the reference model assumes it
    let text = format!("{}* = ${:04x}\n.dword l\n.dword *\n", PRELUDE, BASE_PC);
    match run_program(&text) {
        Run::Built { seg_start, bytes } => {
            let got = slice_at(seg_start, &bytes, BASE_PC, 8).to_vec();
            let mut want = (LABEL_ADDR as u32).to_le_bytes().to_vec();
            want.extend(((BASE_PC + 4) as u32).to_le_bytes());
            if got != want {
                // not a machinery error: the leaves `l` / `*` will be reported by the enumeration
                eprintln!("C03: note: prelude probe gives {} (model: {})", hex_bytes(&got), hex_bytes(&want));
            }
            Ok(())
        }
        Run::Whole(o) => Err(format!("prelude does not assemble: {}", o.describe())),
    }
}

fn replay(case: &Value) -> i32 {
    let text = case["files"]["main.asm"].as_str().unwrap_or("").to_string();
    println!("replaying C03 case on the real assembler:\n{}---", text);
    let mut failed = false;
    let run = match probe::asm(&text) {
        Ok(b) => {
            println!(
                "ok={} diagnostics={:?}",
                b.ok(),
                b.all_diags().iter().map(|d| d.short()).collect::<Vec<_>>()
            );
            for s in &b.segs {
                println!("segment {} ${:04x}: {}", s.name, s.start, hex_bytes(&s.bytes));
            }
            if !b.ok() {
                failed = true;
            }
            b.seg("default").or(b.segs.first()).map(|s| (s.start as i64, s.bytes.clone()))
        }
        Err(p) => {
            println!("PANIC {} at {}", p.message, p.site);
            failed = true;
            None
        }
    };
    if let Some(items) = case["items"].as_array() {
        for it in items {
            let pc = it["pc"].as_i64().unwrap_or(0);
            let expected = it["expected"].as_str().unwrap_or("");
            let dir = it["directive"].as_str().unwrap_or("");
            let n = expected.split_whitespace().count();
            let got = match &run {
                Some((start, bytes)) if Dir::parse(dir).is_some() => hex_bytes(slice_at(*start, bytes, pc, n.max(1) + if items.len() == 1 { 64 } else { 0 })),
                _ => "<nothing>".to_string(),
            };
            let ok = got == expected;
            if !ok {
                failed = true;
            }
            println!(
                "`{} {}` at ${:04x}: documented {} | assembler {} => {}",
                dir,
                it["expr"].as_str().unwrap_or(""),
                pc,
                expected,
                got,
                if ok { "agrees" } else { "DIFFERS" }
            );
        }
    }
    if case["kind"] == "context" && !failed {
        println!("(context case: the program assembles; compare with its parts)");
    }
    println!("{}", if failed { "case still fails" } else { "case passes" });
    if failed {
        1
    } else {
        0
    }
}

pub fn run(ctx: &Ctx, replay_case: Option<&Value>) -> i32 {
    if let Some(c) = replay_case {
        return replay(c);
    }
    if let Err(e) = self_check() {
        eprintln!("C03: MACHINERY: {}", e);
        return 2;
    }
    let thorough = ctx.tier.is_thorough();
    let g = G {
        ctx,
        bad: RwLock::new(vec![]),
        bad_nonempty: AtomicBool::new(false),
        staged_bad: Mutex::new(HashSet::new()),
        memo: Mutex::new(HashMap::new()),
        isolated: AtomicU64::new(0),
        capped: AtomicBool::new(false),
        values: Mutex::new(HashSet::new()),
        strings: Mutex::new(HashSet::new()),
    };
    let leaves = all_leaves(thorough);
    let all5 = vec![Dev::Not, Dev::Neg, Dev::Paren, Dev::NotNeg, Dev::NegNot, Dev::NotNegDirect];
    let three = vec![Dev::Not, Dev::Neg, Dev::Paren];
    let full4 = vec![Dev::None, Dev::Not, Dev::Neg, Dev::Paren];

    let mut fams: Vec<Family> = vec![];
    // smallest first: a subtree that fails alone is not re-run inside larger trees
    fams.push(Family::new("n0:leaves", 0, &leaves, DevMode::NoDev, DirMode::Natural));
    fams.push(Family::new("n0:leaves:one-deviation", 0, &leaves, DevMode::Single(all5.clone()), DirMode::Natural));
    fams.push(Family::new("n0:leaves:.byte/.word", 0, &leaves, DevMode::Single(three.clone()), DirMode::Trunc));
    fams.push(Family::new("n1:all-leaves", 1, &leaves, DevMode::NoDev, DirMode::Natural));
    if thorough {
        fams.push(Family::new("n1:all-leaves:deviation-at-every-node", 1, &leaves, DevMode::Full(full4), DirMode::Natural));
    }
    fams.push(Family::new("n1:all-leaves:one-deviation", 1, &leaves, DevMode::Single(all5), DirMode::Natural));
    fams.push(Family::new("n1:all-leaves:.byte/.word", 1, &leaves, DevMode::NoDev, DirMode::Trunc));
    if thorough {
        fams.push(Family::new("n2:all-leaves", 2, &leaves, DevMode::NoDev, DirMode::Natural));
    }
    if thorough {
        fams.push(Family::new("n2:8-leaves:one-deviation", 2, &QUICK_LEAVES, DevMode::Single(three), DirMode::Natural));
    } else {
        fams.push(Family::new("n2:8-leaves", 2, &QUICK_LEAVES, DevMode::NoDev, DirMode::Natural));
        fams.push(Family::new("n2:4-leaves:one-deviation", 2, &QUICK4_LEAVES, DevMode::Single(three), DirMode::Natural));
    }
    if thorough {
        fams.push(Family::new("n2:8-leaves:.byte/.word", 2, &QUICK_LEAVES, DevMode::NoDev, DirMode::Trunc));
        fams.push(Family::new("n3:4-leaves", 3, &DEEP_LEAVES, DevMode::NoDev, DirMode::Natural));
    }
    let mut bound = BTreeMap::new();
    for f in &fams {
        run_family(&g, f);
        let e = bound.entry(f.n).or_insert(0u64);
        *e += f.size();
    }
    run_list(&g, "text:restricted-character-set", &text_family(), DirMode::Natural);

    ctx.set("max_binary_operators", json!(fams.iter().map(|f| f.n).max().unwrap_or(0)));
    ctx.set("trees_per_operator_count", json!(bound));
    ctx.set("batch_size", json!(batch_size()));
    ctx.set("distinct_integer_values_expected", json!(g.values.lock().unwrap().len()));
    ctx.set("distinct_string_values_expected", json!(g.strings.lock().unwrap().len()));
    ctx.set("failing_signatures_used_to_skip_larger_trees", json!(g.bad.read().unwrap().iter().map(|p| p.sig()).collect::<Vec<_>>()));

    ctx.finish(
        "exploration",
        "every expression tree of the stated families (all shapes x all 16 binary operators at every inner node x leaf alphabet at every leaf x unary/parenthesis deviations) whose reference evaluation stays inside the domain is rendered with parentheses dropped only where the documentation fixes the reading and assembled by the real parser+codegen (one evaluation = one expression observed through `.dword/.word/.byte/.text`, 200 per program in list lines of up to 16 values, failing programs bisected to single expressions); non-trivial = distinct (directive, expression text) containing at least one operator, modifier, function call, interpolation or parenthesis",
        true,
        &[
            "reference evaluator: checked i64 arithmetic, `/` truncates toward zero, `%` takes the sign of the dividend, `^` on two's complement, comparisons and && || give 0/1, !x = 1 iff x == 0",
            "domain decided on the reference side: no intermediate i64 overflow, divisor != 0, shift count 0..31, shifted value >= 0, operands of one operator both integers or both strings (strings only under + == !=), ! and unary - only on integers; everything else is counted and not run",
            "parentheses are dropped only for `* / %` under `+ -`, for a left operand of the same class within {* / %} or {+ -}, and for a left operand with the identical operator; a modifier (! or -) applies to the factor that follows; `!-x` is never written",
            "petscii/petscreen are claimed only for a-z 0-9 space . , ! (letters -> $41.. / $01.., rest unchanged); no encoding keyword = ascii as documented",
            "leaf alphabet and depth bound as listed under family:*; values are fixed representatives, not all integers",
            "a tree containing an instance of a signature (operator + operand classes) that already failed in a smaller family is not run again (counted under not_run_contains_instance_of_a_failing_signature); one defect can mask another in the same tree",
            "`*` is only ever the first value of a data line, where the statement's and the value's address coincide",
            "release arithmetic profile (overflow checks off), in-process mos-core",
        ],
    )
}
