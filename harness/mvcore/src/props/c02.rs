//! C02 – a successful build is a fixed point: labels are addresses, operands final.
//!
//! Families: A (size / convergence: all statement sequences up to length k over 26 items started
//! at $00f8), B (scoping shapes), C (segments with cross references). Oracle = certificate check
//! of the implementation's own output (`cert.rs`).

use crate::cert::{certify, Cert, Problem};
use crate::probe::{self, Opts, Sym};
use mvlib::grammar::*;
use mvlib::isa::{Form, Isa};
use mvlib::{fnv_str, Ctx, Finding};
use rayon::prelude::*;
use serde_json::{json, Value};

/// Items of family A. `{` and `}` are structural.
#[derive(Clone, Debug, PartialEq)]
enum Item {
    S(Stmt),
    Open,
    Close,
}

fn items_a() -> Vec<(&'static str, Item)> {
    let s = |n: &'static str, st: Stmt| (n, Item::S(st));
    vec![
        s("lda a", ins("lda", Form::Plain, id("a"))),
        s("lda b", ins("lda", Form::Plain, id("b"))),
        s("ldx a,y", ins("ldx", Form::PlainY, id("a"))),
        s("sta b,x", ins("sta", Form::PlainX, id("b"))),
        s("jmp a", ins("jmp", Form::Plain, id("a"))),
        s("jmp b", ins("jmp", Form::Plain, id("b"))),
        s("bne a", ins("bne", Form::Plain, id("a"))),
        s("beq b", ins("beq", Form::Plain, id("b"))),
        s(".byte <b", byte(vec![lo("b")])),
        s(".word a", word(vec![id("a")])),
        s(".word b - a", word(vec![bin(id("b"), "-", id("a"))])),
        s("lda $1ff - b", ins("lda", Form::Plain, bin(lit("$1ff"), "-", id("b")))),
        s("a:", label("a")),
        s("b:", label("b")),
        s("nop", imp("nop")),
        s(".byte 1,2", byte(vec![num(1), num(2)])),
        s(".const c = b + 1", konst("c", bin(id("b"), "+", num(1)))),
        s("lda c", ins("lda", Form::Plain, id("c"))),
        s(
            ".var v = a",
            Stmt::Var {
                name: "v".into(),
                value: id("a"),
            },
        ),
        s("* = $00f8", Stmt::PcSet(lit("$00f8"))),
        s("* = $2000", Stmt::PcSet(lit("$2000"))),
        // a reserved area whose position depends on the size of what precedes it
        s("* = * + 3", Stmt::PcSet(bin(Expr::Pc, "+", num(3)))),
        s(".align 4", Stmt::Align(num(4))),
        s(
            ".text \"ab\"",
            Stmt::Text {
                encoding: None,
                value: string("ab"),
            },
        ),
        ("{", Item::Open),
        ("}", Item::Close),
        s("lda -", ins("lda", Form::Plain, id("-"))),
        s("jmp +", ins("jmp", Form::Plain, id("+"))),
    ]
}

/// Builds the AST for a sequence of item indices; None when braces are unbalanced.
fn build_a(items: &[(&'static str, Item)], seq: &[usize]) -> Option<Vec<Stmt>> {
    fn rec(items: &[(&'static str, Item)], seq: &[usize], pos: &mut usize, depth: usize) -> Option<Vec<Stmt>> {
        let mut out = vec![];
        while *pos < seq.len() {
            match &items[seq[*pos]].1 {
                Item::S(s) => {
                    out.push(s.clone());
                    *pos += 1;
                }
                Item::Open => {
                    // `a:` followed by `{` on the next line is a *named* block in mos's grammar,
                    // not a label followed by an anonymous scope: keep such texts out
                    if matches!(out.last(), Some(Stmt::Label { block: None, .. })) {
                        return None;
                    }
                    *pos += 1;
                    let inner = rec(items, seq, pos, depth + 1)?;
                    out.push(Stmt::Braces(inner));
                }
                Item::Close => {
                    if depth == 0 {
                        return None;
                    }
                    *pos += 1;
                    return Some(out);
                }
            }
        }
        if depth == 0 {
            Some(out)
        } else {
            None
        }
    }
    let mut pos = 0;
    let mut prog = vec![Stmt::PcSet(lit("$00f8"))];
    prog.extend(rec(items, seq, &mut pos, 0)?);
    Some(prog)
}

fn problem_sig(p: &Problem) -> String {
    match p {
        Problem::Label { kind, expected, actual, .. } => {
            let off = match actual {
                Some(a) => {
                    let d = a - expected;
                    if d.abs() <= 4 {
                        format!("off-by-{}", d)
                    } else {
                        "far".to_string()
                    }
                }
                None => "missing".to_string(),
            };
            format!("label:{}:{}", kind, off)
        }
        Problem::Const { .. } => "const:stale".into(),
        Problem::Bytes { stmt_kind, .. } => format!("stale:{}", stmt_kind),
        Problem::Extra { .. } => "extra-bytes".into(),
        Problem::Range { .. } => "range".into(),
        Problem::Unencodable { stmt_kind, .. } => format!("unencodable:{}", stmt_kind),
        Problem::SegmentSymbol { .. } => "segment-symbol".into(),
    }
}

fn vice_check(ctx: &Ctx, built: &probe::Built, text: &str, family: &str) {
    // exported symbols are exactly the label values
    if let Some(c) = &built.ctx {
        let vice = mos_core::io::to_vice_symbols(c.symbols());
        let mut expect: Vec<String> = built
            .symbols
            .iter()
            .filter(|(_, (_, ty))| *ty == "label")
            .filter_map(|(p, (v, _))| match v {
                Sym::Num(n) => Some(format!("al C:{:X} .{}", n, p)),
                _ => None,
            })
            .collect();
        expect.sort();
        let got: Vec<String> = vice.lines().map(|l| l.to_string()).filter(|l| !l.is_empty()).collect();
        if got != expect {
            ctx.finding(Finding::new(
                format!("vice:{}", family),
                format!("VICE symbols {:?} != label values {:?}", got, expect),
                json!({"kind": "c02", "family": family, "files": {"main.asm": text}}),
            ));
        }
    }
}

fn check_prog(ctx: &Ctx, isa: &Isa, family: &str, prog: &[Stmt]) {
    let text = program_text(prog);
    ctx.eval(|| json!(text));
    let opts = Opts {
        keep_ctx: true,
        ..Default::default()
    };
    let built = match probe::assemble(&[("main.asm", &text)], &opts) {
        Ok(b) => b,
        Err(p) => {
            ctx.count("panicked");
            ctx.finding(Finding::new(
                format!("panic:{}", p.site),
                format!("{:?} panics: {} at {}", text, p.message, p.site),
                json!({"kind": "c02", "family": family, "files": {"main.asm": text}}),
            ));
            return;
        }
    };
    if !built.ok() {
        ctx.count(match built.stop {
            probe::Stop::None => "rejected",
            probe::Stop::Cycle { .. } => "cycle",
            probe::Stop::PassBudget(_) => "pass-budget",
            probe::Stop::Fuel => "fuel",
        });
        return;
    }
    ctx.count(&format!("assembled_{}", family));
    let cert: Cert = certify(isa, &built, prog);
    if !cert.unsupported.is_empty() {
        ctx.count("unsupported_by_checker");
        return;
    }
    if cert.refs > 0 {
        ctx.nontrivial(fnv_str(&text));
        ctx.count("with_reference");
    }
    if cert.forward_refs > 0 {
        ctx.count("with_forward_reference");
    }
    if cert.cross_segment_refs > 0 {
        ctx.count("with_cross_segment_reference");
    }
    // did any label move between the first and the last pass?
    let moved = built.first_pass_symbols.iter().any(|(p, v)| {
        matches!(built.symbols.get(p), Some((Sym::Num(n), "label")) if n != v)
    });
    if moved {
        ctx.count("label_moved_between_passes");
    }
    if built.passes > 3 {
        ctx.count("more_than_3_passes");
    }
    for p in &cert.problems {
        ctx.finding(Finding::new(
            format!("{}:{}", problem_sig(p), family),
            format!("build of {:?} succeeded but is not a fixed point: {:?}", text, p),
            json!({"kind": "c02", "family": family, "files": {"main.asm": text}}),
        ));
    }
    vice_check(ctx, &built, &text, family);
    image_check(ctx, &built, &cert, &text, family);
}

/// "The image consists of exactly the bytes of the statements": the segments are merged into the bank
/// image (what `mos build` writes) and every statement's bytes must sit at (address - start of the
/// image), everything in between being the fill value 0. Programs in which two statements write the
/// same address are left out (which one wins is C09's subject).
fn image_check(ctx: &Ctx, built: &probe::Built, cert: &Cert, text: &str, family: &str) {
    if !cert.problems.is_empty() {
        return;
    }
    let cg = match &built.ctx {
        Some(c) => c,
        None => return,
    };
    let chunks: Vec<&crate::cert::Chunk> = cert.chunks.iter().filter(|c| !c.bytes.is_empty()).collect();
    if chunks.is_empty() {
        return;
    }
    for (i, a) in chunks.iter().enumerate() {
        for b in chunks.iter().skip(i + 1) {
            if a.addr < b.addr + b.bytes.len() && b.addr < a.addr + a.bytes.len() {
                ctx.count("image_not_judged_overlapping_writes");
                return;
            }
        }
    }
    let banks = match mvlib::panics::guard(|| {
        let mut bw = mos_core::io::BinaryWriter {};
        bw.merge_segments(cg).map(|banks| banks.iter().map(|b| (b.range(), b.data().to_vec())).collect::<Vec<_>>()).map_err(|_| ())
    }) {
        Ok(Ok(b)) => b,
        Ok(Err(())) => {
            ctx.count("image_merge_rejected");
            return;
        }
        Err(p) => {
            ctx.finding(Finding::new(
                format!("image:panic:{}", p.site),
                format!("merging the segments of {:?} panics: {}", text, p.message),
                json!({"kind": "c02", "family": family, "files": {"main.asm": text}}),
            ));
            return;
        }
    };
    if banks.len() != 1 {
        ctx.count("image_not_judged_several_banks");
        return;
    }
    ctx.count("image_checked");
    let (range, data) = &banks[0];
    let lo = chunks.iter().map(|c| c.addr).min().unwrap();
    let hi = chunks.iter().map(|c| c.addr + c.bytes.len()).max().unwrap();
    let mut expect = vec![0u8; hi - lo];
    for c in &chunks {
        expect[c.addr - lo..c.addr - lo + c.bytes.len()].copy_from_slice(&c.bytes);
    }
    if (range.start, range.end) != (lo, hi) || *data != expect {
        let first = (0..expect.len().min(data.len())).find(|i| expect[*i] != data[*i]);
        ctx.finding(Finding::new(
            format!("image:differs:{}", family),
            format!(
                "build of {:?}: the statements write ${:04x}..${:04x}, the bank image covers ${:04x}..${:04x} ({} bytes){}",
                text, lo, hi, range.start, range.end, data.len(),
                match first {
                    Some(i) => format!("; first difference at ${:04x}: image {:02x}, statements {:02x}", lo + i, data[i], expect[i]),
                    None => String::new(),
                }
            ),
            json!({"kind": "c02", "family": family, "files": {"main.asm": text}}),
        ));
    }
}

/// Family B: scoping shapes.
fn family_b() -> Vec<Vec<Stmt>> {
    let paths = [
        "a", "super.a", "super.super.a", "s1.a", "s1.s2.a", "-", "+", "s1.-", "s1.s2.+", "s2.a",
    ];
    let mut out = vec![];
    for mask in 1u8..8 {
        for use_level in 0..3usize {
            for path in paths.iter() {
                for use_first in [false, true] {
                    for as_instr in [false, true] {
                        let usage = if as_instr {
                            ins("lda", Form::Plain, id(path))
                        } else {
                            word(vec![id(path)])
                        };
                        // level bodies, innermost first
                        let mut l2: Vec<Stmt> = vec![];
                        if mask & 4 != 0 {
                            l2.push(label("a"));
                        }
                        l2.push(imp("nop"));
                        if use_level == 2 {
                            if use_first {
                                l2.insert(0, usage.clone());
                            } else {
                                l2.push(usage.clone());
                            }
                        }
                        let mut l1: Vec<Stmt> = vec![imp("inx")];
                        if mask & 2 != 0 {
                            l1.push(label("a"));
                        }
                        l1.push(imp("iny"));
                        l1.push(label_block("s2", l2));
                        if use_level == 1 {
                            if use_first {
                                l1.insert(0, usage.clone());
                            } else {
                                l1.push(usage.clone());
                            }
                        }
                        let mut l0: Vec<Stmt> = vec![imp("dex")];
                        if mask & 1 != 0 {
                            l0.push(label("a"));
                        }
                        l0.push(imp("dey"));
                        l0.push(label_block("s1", l1));
                        l0.push(imp("rts"));
                        if use_level == 0 {
                            if use_first {
                                l0.insert(0, usage.clone());
                            } else {
                                l0.push(usage.clone());
                            }
                        }
                        // with an explicit segment everything is placed from the very first pass on, so a use in
                        // front of the definition it belongs to finds an outer symbol of the same name defined
                        let mut with_segment = vec![Stmt::Define {
                            kind: "segment",
                            pairs: vec![("name".to_string(), string("main")), ("start".to_string(), lit("$3000"))],
                        }];
                        with_segment.extend(l0.clone());
                        out.push(l0);
                        out.push(with_segment);
                    }
                }
            }
        }
    }
    out
}

/// Family C: segments.
fn family_c(max_segments: usize) -> Vec<Vec<Stmt>> {
    let mut out = vec![];
    let names = ["sa", "sb", "sc"];
    // start choices: 3 literals or "end of the previous segment (cyclically)"
    for n in 1..=max_segments {
        let start_choices = 4usize;
        let combos = start_choices.pow(n as u32) * 2usize.pow(n as u32);
        for combo in 0..combos {
            let mut c = combo;
            let mut cfg = vec![];
            for _ in 0..n {
                let st = c % start_choices;
                c /= start_choices;
                let pc = c % 2;
                c /= 2;
                cfg.push((st, pc));
            }
            // at most one dependent start per program would hide chains; allow all but skip self-dependency for n == 1
            if n == 1 && cfg[0].0 == 3 {
                continue;
            }
            // reference patterns: every segment i references label of segment (i + r) % n and symbol kind k
            for r in 0..n {
                for k in 0..3 {
                    let mut prog = vec![];
                    for i in 0..n {
                        let start = match cfg[i].0 {
                            0 => lit("$00f0"),
                            1 => lit("$0100"),
                            2 => lit("$c000"),
                            _ => id(&format!("segments.{}.end", names[(i + n - 1) % n])),
                        };
                        let mut pairs = vec![("name".to_string(), string(names[i])), ("start".to_string(), start)];
                        if cfg[i].1 == 1 {
                            pairs.push(("pc".to_string(), lit("$8003")));
                        }
                        prog.push(Stmt::Define {
                            kind: "segment",
                            pairs,
                        });
                    }
                    // the same program with segment *switches* (`.segment "x"` without a block) and code in front
                    // of the first switch, which belongs to the segment that was defined first
                    let mut switched = prog.clone();
                    switched.push(ins("lda", Form::Plain, id("l0")));
                    switched.push(label("before"));
                    switched.push(imp("nop"));
                    for i in 0..n {
                        let j = (i + r) % n;
                        let sym = match k {
                            0 => format!("segments.{}.start", names[j]),
                            1 => format!("segments.{}.end", names[j]),
                            _ => format!("l{}", j),
                        };
                        let body = vec![
                            ins("lda", Form::Plain, id(&format!("l{}", j))),
                            label(&format!("l{}", i)),
                            word(vec![id(&sym)]),
                            ins("ldx", Form::PlainY, id(&format!("l{}", (j + 1) % n))),
                            // alignment and a branch: both are a matter of the run address (`pc`), not of where the
                            // segment is stored
                            Stmt::Align(num(8)),
                            label(&format!("t{}", i)),
                            imp("dex"),
                            ins("bne", Form::Plain, id(&format!("t{}", i))),
                        ];
                        // (switch to the segments in reverse order, so that the last switch of a pass is not
                        // the segment the next pass has to start in)
                        let si = n - 1 - i;
                        let _ = si;
                        switched.push(Stmt::Segment { name: string(names[i]), block: None });
                        switched.extend(body.clone());
                        prog.push(Stmt::Segment {
                            name: string(names[i]),
                            block: Some(body),
                        });
                    }
                    out.push(prog);
                    out.push(switched);
                }
            }
        }
    }
    out
}

/// Family D: promotion ladders. Every pass promotes exactly one more `lda end - k` from zero page to
/// absolute addressing, which moves `end` by one byte and thereby pushes the next operand over $ff:
/// a program of chain length n needs about n + 5 passes to settle (the pass count is unbounded in n).
fn family_d(max_chain: usize) -> Vec<Vec<Stmt>> {
    let mut out = vec![];
    for start in [0x40i64, 0x80] {
        for n in 1..=max_chain {
            let pad = 0xff - (start + 2 * n as i64);
            if pad <= 0 {
                continue;
            }
            let mut prog = vec![Stmt::PcSet(hex(start))];
            for j in 1..n {
                let k = (n - 1 - j) as i64;
                prog.push(label(&format!("i{}", j)));
                prog.push(ins("lda", Form::Plain, bin(id("end"), "-", num(k))));
            }
            prog.push(label(&format!("i{}", n)));
            prog.push(ins("lda", Form::Plain, bin(id("end"), "+", num(1))));
            prog.push(label("table"));
            prog.push(byte((0..pad).map(|_| num(0)).collect()));
            prog.push(label("end"));
            prog.push(imp("rts"));
            out.push(prog);
        }
    }
    out
}

/// All balanced family-A programs of length <= k (shared with C11).
pub fn family_a_programs(k: usize) -> Vec<Vec<Stmt>> {
    let items = items_a();
    let n = items.len();
    let mut out = vec![];
    for len in 1..=k {
        for code in 0..n.pow(len as u32) {
            let mut c = code;
            let mut seq = Vec::with_capacity(len);
            for _ in 0..len {
                seq.push(c % n);
                c /= n;
            }
            if let Some(p) = build_a(&items, &seq) {
                out.push(p);
            }
        }
    }
    out
}

pub fn run(ctx: &Ctx, replay: Option<&Value>) -> i32 {
    let isa = Isa::new();
    if let Some(case) = replay {
        let text = case["files"]["main.asm"].as_str().unwrap_or("");
        println!("replaying (assemble, print symbols and bytes):\n{}\n---", text);
        match probe::asm(text) {
            Ok(b) => {
                println!("ok={} passes={} diagnostics={:?}", b.ok(), b.passes, b.messages());
                for s in &b.segs {
                    println!("segment {} ${:04x}..${:04x}: {}", s.name, s.start, s.end, crate::util::hex_bytes(&s.bytes));
                }
                for (p, (v, ty)) in &b.symbols {
                    println!("  {} {} = {:?}", ty, p, v);
                }
                println!("(the certificate check needs the AST; re-run `./check C02` to re-derive the verdict)");
            }
            Err(p) => println!("PANIC {} at {}", p.message, p.site),
        }
        return 0;
    }
    let thorough = ctx.tier.is_thorough();
    let items = items_a();
    let k = if thorough { 5 } else { 4 };
    ctx.set("family_a_items", json!(items.len()));
    ctx.set("family_a_max_len", json!(k));
    // family A: all sequences of length 1..=k
    let n = items.len();
    for len in 1..=k {
        let total = n.pow(len as u32);
        (0..total).into_par_iter().for_each(|code| {
            let mut c = code;
            let mut seq = Vec::with_capacity(len);
            for _ in 0..len {
                seq.push(c % n);
                c /= n;
            }
            if let Some(prog) = build_a(&items, &seq) {
                check_prog(ctx, &isa, "A", &prog);
            }
        });
    }
    ctx.set("family_a_evaluations", json!(ctx.evals()));
    // family B
    let b = family_b();
    ctx.set("family_b_programs", json!(b.len()));
    b.par_iter().for_each(|prog| check_prog(ctx, &isa, "B", prog));
    // family C
    let c = family_c(if thorough { 3 } else { 2 });
    ctx.set("family_c_programs", json!(c.len()));
    c.par_iter().for_each(|prog| check_prog(ctx, &isa, "C", prog));
    // family D
    let d = family_d(if thorough { 90 } else { 40 });
    ctx.set("family_d_programs", json!(d.len()));
    let max_passes = std::sync::atomic::AtomicUsize::new(0);
    d.par_iter().for_each(|prog| {
        check_prog(ctx, &isa, "D", prog);
        // (evidence only: how many passes the longest ladder needed)
        if let Ok(b) = probe::assemble(&[("main.asm", &program_text(prog))], &Opts::default()) {
            if b.ok() {
                max_passes.fetch_max(b.passes, std::sync::atomic::Ordering::Relaxed);
            } else {
                // (the property speaks about successful builds only. Chain length 1 is rejected by the
                // implementation: the same symbols move in two consecutive passes, which its loop takes
                // for "truly undefined" - see DESIGN.md, observations outside the listed properties)
                ctx.count("ladders_rejected");
            }
        }
    });
    ctx.set("family_d_max_passes_needed", json!(max_passes.load(std::sync::atomic::Ordering::Relaxed)));
    ctx.finish(
        "exploration",
        "A: every statement sequence of length <= k over 28 items (references to two labels in zero-page/absolute/indexed/branch/data positions, label definitions, a dependent constant, pc assignments, .align, text, braces, block start/end references) assembled at $00f8 so that every forward reference is a zero-page/absolute decision; B: 3-level scope shapes x definition mask x use level x 10 path forms x use before/after x instruction/data x default / explicitly defined segment; C: 1-3 segments x start (3 literals or end of another segment) x pc relocation x cross references, each with segment blocks and with segment switches (`.segment \"x\"` without a block) behind code that belongs to the first segment; D: promotion ladders of chain length 1..40 (quick) / 1..90 (thorough) from two start addresses, which need chain+5 passes to settle. Every *successful* build is certified: label/block symbols = cursor addresses, every statement's bytes = ISA/evaluator result under the implementation's final symbols, no unexplained bytes, segments.x.start/end = ranges, VICE symbols = label values, and the bank image into which the segments are merged holds every statement's bytes at (address - image start) and 0 elsewhere. non-trivial = distinct assembled program containing at least one symbol reference",
        true,
        &[
            "sequence length bound k (4 quick / 5 thorough), two label names, fixed literal operands",
            "the certificate checker's resolver implements innermost-outward scoping with `super`; programs using constructs it does not model are counted, not judged",
            ".align is accepted with padding (n - pc % n) or (n - pc % n) % n",
            "zero-page form expected exactly when one exists and the final value is 0..255",
        ],
    )
}
