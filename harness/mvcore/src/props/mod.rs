use mvlib::Ctx;
use serde_json::Value;

pub mod c01;
pub mod c02;
pub mod c03;
pub mod c04;
pub mod c05;
pub mod c06;
pub mod c07;
pub mod c08;
pub mod c09;
pub mod c10;
pub mod c11;
pub mod c12;

pub fn dispatch(ctx: &Ctx, replay: Option<&Value>, rest: &[String]) -> i32 {
    match ctx.id.as_str() {
        "C01" => c01::run(ctx, replay),
        "C02" => c02::run(ctx, replay),
        "C03" => c03::run(ctx, replay),
        "C04" => c04::run(ctx, replay),
        "C05" => c05::run(ctx, replay),
        "C06" => c06::run(ctx, replay, rest),
        "C07" => c07::run(ctx, replay),
        "C08" => c08::run(ctx, replay),
        "C09" => c09::run(ctx, replay),
        "C10" => c10::run(ctx, replay, rest),
        "C11" => c11::run(ctx, replay),
        // C12 and C13 share one enumeration; the id decides which oracle is reported
        "C12" | "C13" => c12::run(ctx, replay),
        other => {
            eprintln!("mvcore: unknown property {}", other);
            2
        }
    }
}
