use mvlib::Ctx;
use serde_json::Value;

pub mod c01;

pub fn dispatch(ctx: &Ctx, replay: Option<&Value>, _rest: &[String]) -> i32 {
    match ctx.id.as_str() {
        "C01" => c01::run(ctx, replay),
        other => {
            eprintln!("mvcore: unknown property {}", other);
            2
        }
    }
}
