//! C04 – invalid programs are rejected at the offending location and produce no binary.
//!
//! Fault enumeration: exactly one fault of each class is injected at every statement slot of every
//! base program (also inside scopes, macro bodies, loop bodies, conditional branches, segment
//! blocks and the imported file). In-process oracle: at least one diagnostic, and one of them
//! lies inside the source extent of the injected construct. Real-binary oracle: exit status != 0,
//! stdout names that location, nothing is written to (or changed in) the target directory.

use crate::probe::{self, Opts};
use mvlib::grammar::*;
use mvlib::progs::{base_programs, OTHER_ASM};
use mvlib::{fnv_str, Ctx, Finding};
use rayon::prelude::*;
use serde_json::{json, Value};
use std::path::Path;
use std::process::Command;

#[derive(Clone, Debug)]
struct Fault {
    class: &'static str,
    text: &'static str,
    /// a parse-level fault is detected wherever it stands; a semantic one only where code is assembled
    semantic: bool,
    /// the construct extends to the end of the file (unclosed block)
    to_eof: bool,
    /// the offending construct inside the injected text: (first, last) line, relative
    lines: Option<(usize, usize)>,
}

fn faults() -> Vec<Fault> {
    let f = |class, text, semantic| Fault {
        class,
        text,
        semantic,
        to_eof: false,
        lines: None,
    };
    let g = |class, text, lines| Fault {
        class,
        text,
        semantic: true,
        to_eof: false,
        lines: Some(lines),
    };
    vec![
        f("undefined-symbol", "lda nope_q", true),
        f("undefined-symbol-data", ".word nope_q + 1", true),
        // the undefined name in every position an expression can stand in
        f("undefined-symbol-if", ".if nope_q { nop }", true),
        f("undefined-symbol-loop", ".loop nope_q { nop }", true),
        f("undefined-symbol-pc", "* = nope_q", true),
        f("undefined-symbol-align", ".align nope_q", true),
        f("undefined-symbol-text", ".text \"{nope_q}\"", true),
        f("undefined-symbol-modifier", "lda #<nope_q", true),
        f("undefined-symbol-const", ".const kq_q = nope_q + 1", true),
        f("undefined-symbol-var", ".var vq_q = nope_q", true),
        f("undefined-symbol-path", "jmp nope_q.inner", true),
        g("undefined-symbol-macro-arg", ".macro ma_q(p) { lda #p }\nnop\nma_q(nope_q)", (2, 2)),
        f("undefined-macro", "nomacro_q(1)", true),
        f("undefined-segment", ".segment \"noseg_q\" { nop }", true),
        // the offending construct of a redefinition is the second definition
        g("label-redefinition", "dupl_q: nop\nnop\ninx\ndupl_q: nop", (3, 3)),
        g("constant-redefinition", ".const dupc_q = 1\nnop\n.const dupc_q = 2", (2, 2)),
        f("illegal-addressing-mode", "lda ($10)", true),
        f("illegal-addressing-mode-2", "stx $10,x", true),
        // (zero-page forms exist for these two, absolute forms do not: legal or not depends on the operand's size)
        f("illegal-addressing-mode-stx-abs-y", "stx $1234,y", true),
        f("illegal-addressing-mode-sty-abs-x", "sty $1234,x", true),
        f("immediate-out-of-range", "lda #256", true),
        // (boundary values: the smallest distances that are out of range, +128 and -129)
        g("branch-out-of-range", "{\nbne far_q\n.loop 128 { nop }\nfar_q:\n}", (1, 1)),
        g("branch-out-of-range-backward", "{\nbck_q:\n.loop 127 { nop }\nbeq bck_q\n}", (3, 3)),
        g("macro-arity", ".macro arq_q(p) { nop }\nnop\narq_q()", (2, 2)),
        g("macro-arity-too-many", ".macro arr_q() { nop }\nnop\narr_q(1, 2)", (2, 2)),
        f("malformed-immediate", "lda #", false),
        f("malformed-data", ".byte", false),
        f("malformed-garbage", "%%", false),
        f("malformed-operand", "lda #1 2", false),
        Fault {
            class: "unclosed-block",
            text: "{ nop",
            semantic: false,
            to_eof: true,
            lines: None,
        },
    ]
}

/// A list of statements in the AST where something can be inserted.
#[derive(Clone, Debug)]
struct Site {
    /// path of child indices leading to the list, then the position in it
    path: Vec<(usize, u8)>,
    pos: usize,
    context: &'static str,
    /// is the code at this place assembled by `mos build`?
    assembled: bool,
}

fn collect_sites(stmts: &[Stmt], path: &mut Vec<(usize, u8)>, context: &'static str, assembled: bool, out: &mut Vec<Site>) {
    for pos in 0..=stmts.len() {
        out.push(Site {
            path: path.clone(),
            pos,
            context,
            assembled,
        });
    }
    for (i, s) in stmts.iter().enumerate() {
        match s {
            Stmt::Braces(b) => {
                path.push((i, 0));
                collect_sites(b, path, "braces", assembled, out);
                path.pop();
            }
            Stmt::Label { block: Some(b), .. } => {
                path.push((i, 0));
                collect_sites(b, path, "label-block", assembled, out);
                path.pop();
            }
            Stmt::Loop { count, body } => {
                let runs = !matches!(count, Expr::Num(n) if n == "0");
                path.push((i, 0));
                collect_sites(body, path, "loop-body", assembled && runs, out);
                path.pop();
            }
            Stmt::If { cond, then, els } => {
                // only literal conditions decide statically; others: treat as not assembled for semantic faults
                let (t, e) = match cond {
                    Expr::Num(n) if n == "0" => (false, true),
                    Expr::Num(_) => (true, false),
                    Expr::Ident { path: p, .. } if p == "c" => (true, false),
                    // `index == 2` in a loop of 3, `p == 7` in a macro that is invoked with 1 and with 7: each branch is
                    // assembled in some iteration / invocation, though not in the first one
                    Expr::Bin(l, "==", _) if matches!(&**l, Expr::Ident { path: p, .. } if p == "index" || p == "p") => (true, true),
                    _ => (false, false),
                };
                path.push((i, 0));
                collect_sites(then, path, "if-then", assembled && t, out);
                path.pop();
                if let Some(eb) = els {
                    path.push((i, 1));
                    collect_sites(eb, path, "if-else", assembled && e, out);
                    path.pop();
                }
            }
            Stmt::MacroDef { body, name, .. } => {
                // assembled when the macro is invoked somewhere at top level of the same list
                let invoked = stmts.iter().any(|x| matches!(x, Stmt::MacroCall { name: n, .. } if n == name));
                path.push((i, 0));
                collect_sites(body, path, "macro-body", assembled && invoked, out);
                path.pop();
            }
            Stmt::Segment { block: Some(b), .. } => {
                path.push((i, 0));
                collect_sites(b, path, "segment-block", assembled, out);
                path.pop();
            }
            Stmt::Import { block: Some(b), .. } => {
                path.push((i, 0));
                collect_sites(b, path, "import-block", assembled, out);
                path.pop();
            }
            _ => {}
        }
    }
}

fn insert(stmts: &[Stmt], path: &[(usize, u8)], pos: usize, new: &Stmt) -> Vec<Stmt> {
    let mut out = stmts.to_vec();
    if path.is_empty() {
        out.insert(pos, new.clone());
        return out;
    }
    let (i, which) = path[0];
    let rest = &path[1..];
    out[i] = match &stmts[i] {
        Stmt::Braces(b) => Stmt::Braces(insert(b, rest, pos, new)),
        Stmt::Label { name, block: Some(b) } => Stmt::Label {
            name: name.clone(),
            block: Some(insert(b, rest, pos, new)),
        },
        Stmt::Loop { count, body } => Stmt::Loop {
            count: count.clone(),
            body: insert(body, rest, pos, new),
        },
        Stmt::If { cond, then, els } => {
            if which == 0 {
                Stmt::If {
                    cond: cond.clone(),
                    then: insert(then, rest, pos, new),
                    els: els.clone(),
                }
            } else {
                Stmt::If {
                    cond: cond.clone(),
                    then: then.clone(),
                    els: Some(insert(els.as_ref().unwrap(), rest, pos, new)),
                }
            }
        }
        Stmt::MacroDef { name, params, body } => Stmt::MacroDef {
            name: name.clone(),
            params: params.clone(),
            body: insert(body, rest, pos, new),
        },
        Stmt::Segment { name, block: Some(b) } => Stmt::Segment {
            name: name.clone(),
            block: Some(insert(b, rest, pos, new)),
        },
        Stmt::Import { args, file, block: Some(b) } => Stmt::Import {
            args: args.clone(),
            file: file.clone(),
            block: Some(insert(b, rest, pos, new)),
        },
        other => other.clone(),
    };
    out
}

#[derive(Clone, Debug)]
struct Case {
    prog: String,
    class: &'static str,
    context: &'static str,
    semantic: bool,
    files: Vec<(String, String)>,
    /// file and 0-based line range of the injected construct
    file: String,
    l0: usize,
    l1: usize,
}

fn cases() -> Vec<Case> {
    let mut out = vec![];
    let fs = faults();
    let mut bases: Vec<mvlib::progs::Prog> = base_programs().into_iter().filter(|p| p.valid).collect();
    // a program that needs many passes to settle (every pass resolves one more link of a chain of constants that
    // refer forward): the fault has to be reported all the same, however long that takes
    {
        let n = 55;
        let mut stmts = vec![ins("lda", mvlib::isa::Form::Imm, id("c0"))];
        for i in 0..n {
            stmts.push(konst(&format!("c{}", i), bin(id(&format!("c{}", i + 1)), "+", num(0))));
        }
        stmts.push(konst(&format!("c{}", n), num(7)));
        stmts.push(imp("rts"));
        bases.push(mvlib::progs::Prog { name: "slow-settling".into(), stmts, valid: true });
    }
    // code that is only reached in a later iteration of a loop, and in the second invocation of a macro
    {
        use mvlib::isa::Form;
        let stmts = vec![
            imp("nop"),
            Stmt::Loop {
                count: num(3),
                body: vec![
                    Stmt::If { cond: bin(id("index"), "==", num(2)), then: vec![imp("inx")], els: Some(vec![imp("iny")]) },
                    ins("lda", Form::Imm, id("index")),
                ],
            },
            Stmt::MacroDef {
                name: "later".into(),
                params: vec!["p".into()],
                body: vec![Stmt::If { cond: bin(id("p"), "==", num(7)), then: vec![imp("dex")], els: None }, imp("dey")],
            },
            Stmt::MacroCall { name: "later".into(), args: vec![num(1)] },
            Stmt::MacroCall { name: "later".into(), args: vec![num(7)] },
            imp("rts"),
        ];
        bases.push(mvlib::progs::Prog { name: "later-iterations".into(), stmts, valid: true });
    }
    for p in bases.into_iter() {
        let mut sites = vec![];
        collect_sites(&p.stmts, &mut vec![], "top", true, &mut sites);
        for site in &sites {
            for f in &fs {
                if f.semantic && !site.assembled {
                    continue;
                }
                if p.name == "tests" && f.semantic && site.context != "top" {
                    continue;
                }
                let raw = Stmt::Raw(f.text.to_string());
                let prog = insert(&p.stmts, &site.path, site.pos, &raw);
                let r = render(&prog);
                let lay = r.layout(&[]);
                // find the raw terminal
                let ti = match r.terms.iter().position(|t| t.kind == Kind::Raw) {
                    Some(t) => t,
                    None => continue,
                };
                let (s, e) = lay.ranges[ti];
                let mut l0 = lay.line_col(s).0;
                let mut l1 = if f.to_eof {
                    lay.text.split('\n').count().saturating_sub(1)
                } else {
                    lay.line_col(e).0
                };
                if let Some((a, b)) = f.lines {
                    l1 = l0 + b;
                    l0 += a;
                }
                out.push(Case {
                    prog: p.name.clone(),
                    class: f.class,
                    context: site.context,
                    semantic: f.semantic,
                    files: vec![("main.asm".into(), lay.text.clone()), ("other.asm".into(), OTHER_ASM.to_string())],
                    file: "main.asm".into(),
                    l0,
                    l1,
                });
            }
        }
        // the imported file: inject at every line boundary of other.asm
        if p.name.starts_with("imports") {
            let main = render(&p.stmts).text();
            let lines: Vec<&str> = OTHER_ASM.split('\n').collect();
            for pos in 0..=lines.len() {
                for f in &fs {
                    let mut new_lines: Vec<String> = lines.iter().map(|l| l.to_string()).collect();
                    new_lines.insert(pos, f.text.to_string());
                    let n_inj = f.text.split('\n').count();
                    let text = new_lines.join("\n");
                    let total = text.split('\n').count();
                    out.push(Case {
                        prog: p.name.clone(),
                        class: f.class,
                        context: "imported-file",
                        semantic: f.semantic,
                        files: vec![("main.asm".into(), main.clone()), ("other.asm".into(), text)],
                        file: "other.asm".into(),
                        l0: pos + f.lines.map_or(0, |l| l.0),
                        l1: if f.to_eof { total - 1 } else { f.lines.map_or(pos + n_inj - 1, |l| pos + l.1) },
                    });
                }
            }
        }
    }
    out
}

fn case_json(c: &Case) -> Value {
    let fm: serde_json::Map<String, Value> = c.files.iter().map(|(n, t)| (n.clone(), json!(t))).collect();
    json!({"kind": "fault", "program": c.prog, "class": c.class, "context": c.context, "files": fm, "fault_file": c.file, "fault_lines": [c.l0 + 1, c.l1 + 1]})
}

fn check_inproc(ctx: &Ctx, c: &Case) -> Option<(String, usize, usize)> {
    let files: Vec<(&str, &str)> = c.files.iter().map(|(n, t)| (n.as_str(), t.as_str())).collect();
    ctx.eval(|| json!({"class": c.class, "context": c.context, "program": c.prog, "main.asm": c.files[0].1}));
    ctx.nontrivial(fnv_str(&format!("{}{}{}{}", c.files[0].1, c.files[1].1, c.class, c.context)));
    let built = match probe::assemble(&files, &Opts::default()) {
        Ok(b) => b,
        Err(p) => {
            ctx.finding(Finding::new(format!("{}@{}:panic:{}", c.class, c.context, p.site), format!("panic {} at {}", p.message, p.site), case_json(c)));
            return None;
        }
    };
    let diags = built.all_diags();
    if diags.is_empty() && built.stop == probe::Stop::None {
        ctx.finding(Finding::new(
            format!("{}@{}:no-diag", c.class, c.context),
            format!("the injected {} at {}:{}-{} is not reported: the build succeeds", c.class, c.file, c.l0 + 1, c.l1 + 1),
            case_json(c),
        ));
        return None;
    }
    let located = diags.iter().find(|d| match &d.loc {
        Some((f, l, _c, _, _)) => Path::new(f).file_name().map(|n| n.to_string_lossy() == c.file).unwrap_or(false) && *l >= c.l0 && *l <= c.l1,
        None => false,
    });
    match located {
        Some(d) => {
            let (f, l, col, _, _) = d.loc.clone().unwrap();
            let _ = f;
            Some((c.file.clone(), l, col))
        }
        None => {
            let any_loc = diags.iter().any(|d| d.loc.is_some());
            ctx.finding(Finding::new(
                format!("{}@{}:{}", c.class, c.context, if any_loc { "wrong-line" } else { "no-location" }),
                format!(
                    "the injected {} occupies {}:{}-{} but the diagnostics are {:?}",
                    c.class, c.file, c.l0 + 1, c.l1 + 1, diags.iter().map(|d| d.short()).collect::<Vec<_>>()
                ),
                case_json(c),
            ));
            None
        }
    }
}

fn check_binary(ctx: &Ctx, c: &Case, expect: &(String, usize, usize), dir: &Path) {
    let bin = std::env::var("MOS_BIN").unwrap_or_else(|_| "/verif/.build/bin/release/mos".into());
    let _ = std::fs::remove_dir_all(dir);
    std::fs::create_dir_all(dir.join("target")).unwrap();
    for (n, t) in &c.files {
        std::fs::write(dir.join(n), t).unwrap();
    }
    std::fs::write(dir.join("mos.toml"), "[build]\nentry = \"main.asm\"\nlisting = true\nsymbols = [\"vice\"]\n").unwrap();
    // pre-existing output must stay untouched
    std::fs::write(dir.join("target/main.prg"), b"OLD-PRG").unwrap();
    std::fs::write(dir.join("target/main.vs"), b"OLD-VS").unwrap();
    let before: Vec<_> = ["main.prg", "main.vs"]
        .iter()
        .map(|f| std::fs::metadata(dir.join("target").join(f)).and_then(|m| m.modified()).ok())
        .collect();
    ctx.eval(|| json!({"real_binary": c.class, "context": c.context}));
    let o = Command::new(&bin).args(["-e", "Short", "--no-color", "build"]).current_dir(dir).output();
    let sig = |what: &str| format!("{}@{}:{}", c.class, c.context, what);
    match o {
        Err(e) => ctx.cap(format!("cannot run mos: {}", e)),
        Ok(o) => {
            let text = format!("{}{}", String::from_utf8_lossy(&o.stdout), String::from_utf8_lossy(&o.stderr));
            if o.status.code() == Some(0) {
                ctx.finding(Finding::new(sig("exit0"), format!("`mos build` exits 0 for a program with an injected {}", c.class), case_json(c)));
            } else if o.status.code() != Some(1) {
                ctx.finding(Finding::new(sig("abnormal-exit"), format!("`mos build` ends with {:?}: {}", o.status, text.lines().find(|l| l.contains("panicked")).unwrap_or("")), case_json(c)));
            }
            let needle = format!("{}:{}:{}", expect.0, expect.1 + 1, expect.2 + 1);
            if !String::from_utf8_lossy(&o.stdout).contains(&needle) {
                ctx.finding(Finding::new(sig("location-not-on-stdout"), format!("stdout does not name {}: {:?}", needle, text.chars().take(300).collect::<String>()), case_json(c)));
            }
            let mut listing: Vec<String> = std::fs::read_dir(dir.join("target"))
                .map(|rd| rd.flatten().map(|e| e.file_name().to_string_lossy().to_string()).collect())
                .unwrap_or_default();
            listing.sort();
            if listing != vec!["main.prg".to_string(), "main.vs".to_string()] {
                ctx.finding(Finding::new(sig("file-written"), format!("target directory contains {:?} after a failed build", listing), case_json(c)));
            } else {
                let same = std::fs::read(dir.join("target/main.prg")).ok() == Some(b"OLD-PRG".to_vec())
                    && std::fs::read(dir.join("target/main.vs")).ok() == Some(b"OLD-VS".to_vec());
                let after: Vec<_> = ["main.prg", "main.vs"]
                    .iter()
                    .map(|f| std::fs::metadata(dir.join("target").join(f)).and_then(|m| m.modified()).ok())
                    .collect();
                if !same || before != after {
                    ctx.finding(Finding::new(sig("file-modified"), "an existing output file was modified by a failed build".to_string(), case_json(c)));
                }
            }
        }
    }
    let _ = std::fs::remove_dir_all(dir);
}

pub fn run(ctx: &Ctx, replay: Option<&Value>) -> i32 {
    if let Some(case) = replay {
        let files: Vec<(String, String)> = case["files"].as_object().map(|m| m.iter().map(|(k, v)| (k.clone(), v.as_str().unwrap_or("").to_string())).collect()).unwrap_or_default();
        let mut refs: Vec<(&str, &str)> = files.iter().map(|(n, t)| (n.as_str(), t.as_str())).collect();
        refs.sort_by_key(|(n, _)| if *n == "main.asm" { 0 } else { 1 });
        println!("fault {} in {} lines {}", case["class"], case["fault_file"], case["fault_lines"]);
        match probe::assemble(&refs, &Opts::default()) {
            Ok(b) => println!("diagnostics: {:#?}", b.all_diags().iter().map(|d| d.short()).collect::<Vec<_>>()),
            Err(p) => println!("PANIC {} at {}", p.message, p.site),
        }
        return 0;
    }
    let thorough = ctx.tier.is_thorough();
    let all = cases();
    ctx.set("cases", json!(all.len()));
    let classes: std::collections::BTreeSet<_> = all.iter().map(|c| c.class).collect();
    let contexts: std::collections::BTreeSet<_> = all.iter().map(|c| c.context).collect();
    ctx.set("fault_classes", json!(classes));
    ctx.set("contexts", json!(contexts));
    let located: Vec<(usize, (String, usize, usize))> = all
        .par_iter()
        .enumerate()
        .filter_map(|(i, c)| check_inproc(ctx, c).map(|l| (i, l)))
        .collect();
    ctx.set("in_process_located", json!(located.len()));
    // real binary: one per (class x context) in quick, all in thorough
    let scratch = ctx.verif_root.join(".build/scratch/c04").join(std::process::id().to_string());
    let mut seen = std::collections::HashSet::new();
    let picked: Vec<&(usize, (String, usize, usize))> = located
        .iter()
        .filter(|(i, _)| thorough || seen.insert((all[*i].class, all[*i].context)))
        .collect();
    ctx.set("real_binary_cases", json!(picked.len()));
    picked.par_iter().for_each(|(i, loc)| {
        check_binary(ctx, &all[*i], loc, &scratch.join(format!("c{}", i)));
    });
    let _ = std::fs::remove_dir_all(&scratch);
    ctx.finish(
        "fault_enumeration",
        "30 fault texts of the 11 error classes (undefined symbol/macro/segment, label and constant redefinition, illegal addressing mode, immediate and branch out of range, macro arity, malformed statements, unclosed block) x every statement slot of every valid base program (top level, braces, label blocks, loop bodies, taken if/else branches, invoked macro bodies, segment blocks, import parameter blocks) and every line boundary of the imported file; parse-level faults also in code that is not assembled. In-process: >= 1 diagnostic and one inside the injected construct's lines; real binary (one per class x context in quick, all in thorough): exit status 1, stdout names file:line:col, target directory holds only the two pre-existing files, unmodified. non-trivial = distinct (project text, class, context)",
        true,
        &[
            "exactly one fault per program (deviation bound 1)",
            "the weakest reading of 'names the location': some diagnostic's line lies within the injected construct's lines (for an unclosed block: up to the end of the file)",
            "semantic faults are only injected where `mos build` assembles the code",
        ],
    )
}
