//! C12 – formatting never changes what a program means and never loses comments.
//! C13 – formatting is idempotent.
//!
//! One enumeration, two oracles (`ctx.id` selects which one is evaluated and reported):
//!
//! programs = every valid base program (C08's set + 4 formatter-specific shapes)
//!            x { 11 whole-file variants (plain, blank lines, indentation, CRLF, comments before
//!                end of file), one comment per trivia slot: `/* c1 */` at ws slots; at mws slots
//!                also `// c2`, a two-line block comment, and - where the slot holds a line break -
//!                a line / block comment ending the previous line }
//!            (thorough: also all pairs of comments at most 6 terminals apart, distinct texts)
//! configurations = mnemonic casing 2 x register casing 2 x brace position 2 x indent 5 x
//!            label margin 4 x label alignment 2 x code margin 3 (960); quick = default + the 13
//!            one-factor deviations; thorough = all 960 for bound 1, the 14 for the pairs.
//!
//! C12 oracles per (program, configuration): (1) formatted text parses without diagnostics,
//! (2) code token string unchanged, (3) bytes / symbols / diagnostics unchanged, (4) comment
//! sequence unchanged; (5) `mos format` (real binary) writes exactly the in-process formatter's
//! text into every file of a 1-3 file project and touches nothing when a file has a parse error.
//! C13 oracle: format(format(p)) == format(p); a third application tells drift from a cycle.
//!
//! Signatures: a failure the uncommented program shows as well is attributed to it (reduced to
//! the smallest statements failing alone); in slot signatures a component is `*` when every
//! enumerated program matching the rest fails the same way.
//! `VERIF_C12_DUMP=<verdict>` prints every bound-1 case with that verdict (e.g. `two-cycle`).

use crate::probe::{self, Opts};
use crate::props::c08::{self, Meaning};
use crate::util::par_each;
use mos_core::formatting::{
    format, Alignment, BraceOptions, BracePosition, Casing, FormattingOptions, MnemonicOptions,
    WhitespaceOptions,
};
use mos_core::parser::ParseTree;
use mvlib::grammar::*;
use mvlib::isa::Isa;
use mvlib::panics::{guard, PanicInfo};
use mvlib::progs::{Prog, OTHER_ASM};
use mvlib::{fnv_str, Ctx, Finding};
use serde_json::{json, Value};
use std::collections::{BTreeMap, BTreeSet, HashMap};
use std::path::{Path, PathBuf};
use std::process::Command;
use std::sync::atomic::{AtomicU64, Ordering};
use std::sync::{Arc, Mutex};

// ------------------------------------------------------------------------------------------------
// formatter configurations

const FACTORS: [&str; 7] = [
    "mnemonic-casing",
    "register-casing",
    "brace-position",
    "indent",
    "label-margin",
    "label-alignment",
    "code-margin",
];

/// value lists per factor; index 0 is the default value
const VALUES: [&[usize]; 7] = [
    &[0, 1],           // lowercase, uppercase
    &[0, 1],           // lowercase, uppercase
    &[0, 1],           // same-line, new-line
    &[4, 0, 1, 2, 8],  // indent
    &[20, 0, 1, 8],    // label margin
    &[0, 1],           // right, left
    &[30, 0, 10],      // code margin
];

#[derive(Clone, Copy, Debug, PartialEq, Eq, Hash)]
struct Cfg {
    /// value (not index) per factor
    v: [usize; 7],
}

impl Cfg {
    fn default() -> Cfg {
        Cfg {
            v: [0, 0, 0, 4, 20, 0, 30],
        }
    }

    fn opts(&self) -> FormattingOptions {
        let casing = |b: usize| if b == 1 { Casing::Uppercase } else { Casing::Lowercase };
        FormattingOptions {
            mnemonics: MnemonicOptions {
                casing: casing(self.v[0]),
                register_casing: casing(self.v[1]),
            },
            braces: BraceOptions {
                position: if self.v[2] == 1 {
                    BracePosition::NewLine
                } else {
                    BracePosition::SameLine
                },
            },
            whitespace: WhitespaceOptions {
                indent: self.v[3],
                label_margin: self.v[4],
                label_alignment: if self.v[5] == 1 { Alignment::Left } else { Alignment::Right },
                code_margin: self.v[6],
            },
            ..Default::default()
        }
    }

    fn value_name(&self, f: usize) -> String {
        match f {
            0 | 1 => (if self.v[f] == 1 { "uppercase" } else { "lowercase" }).to_string(),
            2 => (if self.v[f] == 1 { "new-line" } else { "same-line" }).to_string(),
            5 => (if self.v[f] == 1 { "left" } else { "right" }).to_string(),
            _ => self.v[f].to_string(),
        }
    }

    /// factors whose value is not the default one
    fn deviating(&self) -> Vec<usize> {
        let d = Cfg::default();
        (0..7).filter(|f| self.v[*f] != d.v[*f]).collect()
    }

    fn name(&self) -> String {
        let dev = self.deviating();
        if dev.is_empty() {
            return "default".into();
        }
        dev.iter()
            .map(|f| format!("{}={}", FACTORS[*f], self.value_name(*f)))
            .collect::<Vec<_>>()
            .join(",")
    }

    fn json(&self) -> Value {
        // only the factors that deviate from the default (`{}` = default configuration)
        let mut m = serde_json::Map::new();
        for f in self.deviating() {
            m.insert(FACTORS[f].to_string(), json!(self.value_name(f)));
        }
        Value::Object(m)
    }

    fn from_json(v: &Value) -> Cfg {
        let mut c = Cfg::default();
        for f in 0..7 {
            if let Some(s) = v.get(FACTORS[f]).and_then(|x| x.as_str()) {
                c.v[f] = match s {
                    "uppercase" | "new-line" | "left" => 1,
                    "lowercase" | "same-line" | "right" => 0,
                    n => n.parse().unwrap_or(c.v[f]),
                };
            }
        }
        c
    }

    /// `[formatting]` section of mos.toml; `only_deviating` leaves the default-valued keys out
    fn toml(&self, only_deviating: bool) -> String {
        let keys = [
            "mnemonics.casing",
            "mnemonics.register-casing",
            "braces.position",
            "whitespace.indent",
            "whitespace.label-margin",
            "whitespace.label-alignment",
            "whitespace.code-margin",
        ];
        let dev = self.deviating();
        let mut s = String::from("[formatting]\n");
        for f in 0..7 {
            if only_deviating && !dev.contains(&f) {
                continue;
            }
            match f {
                3 | 4 | 6 => s.push_str(&format!("{} = {}\n", keys[f], self.v[f])),
                _ => s.push_str(&format!("{} = '{}'\n", keys[f], self.value_name(f))),
            }
        }
        s
    }
}

/// default, then the one-factor deviations, then (if `full`) the rest of the product
fn configurations(full: bool, sub: &[&[usize]; 7]) -> Vec<Cfg> {
    let mut out = vec![Cfg::default()];
    for f in 0..7 {
        for val in VALUES[f].iter().skip(1) {
            let mut c = Cfg::default();
            c.v[f] = *val;
            out.push(c);
        }
    }
    if full {
        let mut idx = [0usize; 7];
        loop {
            let mut c = Cfg::default();
            for f in 0..7 {
                c.v[f] = sub[f][idx[f]];
            }
            if !out.contains(&c) {
                out.push(c);
            }
            let mut f = 0;
            loop {
                idx[f] += 1;
                if idx[f] < sub[f].len() {
                    break;
                }
                idx[f] = 0;
                f += 1;
                if f == 7 {
                    return out;
                }
            }
        }
    }
    out
}

// ------------------------------------------------------------------------------------------------
// own lexer (clauses 2 and 4)

#[derive(Clone, Debug, PartialEq, Eq)]
enum Tok {
    Word(String),
    Sym(char),
    Str(String),
    Comment(String),
}

/// Strings `"…"` and comments (`// …` to end of line, nesting `/* … */`) are kept whole,
/// whitespace is dropped, words ([A-Za-z0-9_]+) are ASCII case folded, every other character is
/// a token of its own.
fn lex(text: &str) -> Vec<Tok> {
    let b: Vec<char> = text.chars().collect();
    let n = b.len();
    let at = |i: usize| if i < n { b[i] } else { '\0' };
    let mut out = vec![];
    let mut i = 0;
    while i < n {
        let c = b[i];
        if c.is_whitespace() {
            i += 1;
        } else if c == '/' && at(i + 1) == '/' {
            let mut j = i;
            while j < n && b[j] != '\n' && b[j] != '\r' {
                j += 1;
            }
            out.push(Tok::Comment(b[i..j].iter().collect()));
            i = j;
        } else if c == '/' && at(i + 1) == '*' {
            let mut depth = 1;
            let mut j = i + 2;
            while j < n && depth > 0 {
                if b[j] == '/' && at(j + 1) == '*' {
                    depth += 1;
                    j += 2;
                } else if b[j] == '*' && at(j + 1) == '/' {
                    depth -= 1;
                    j += 2;
                } else {
                    j += 1;
                }
            }
            let j = j.min(n);
            out.push(Tok::Comment(b[i..j].iter().collect()));
            i = j;
        } else if c == '"' {
            let mut j = i + 1;
            while j < n && b[j] != '"' {
                j += 1;
            }
            let j = (j + 1).min(n);
            out.push(Tok::Str(b[i..j].iter().collect()));
            i = j;
        } else if c.is_ascii_alphanumeric() || c == '_' {
            let mut j = i;
            while j < n && (b[j].is_ascii_alphanumeric() || b[j] == '_') {
                j += 1;
            }
            out.push(Tok::Word(b[i..j].iter().collect::<String>().to_ascii_lowercase()));
            i = j;
        } else {
            out.push(Tok::Sym(c));
            i += 1;
        }
    }
    out
}

fn code_tokens(toks: &[Tok]) -> Vec<String> {
    toks.iter()
        .filter_map(|t| match t {
            Tok::Word(w) => Some(w.clone()),
            Tok::Sym(c) => Some(c.to_string()),
            Tok::Str(s) => Some(s.clone()),
            Tok::Comment(_) => None,
        })
        .collect()
}

fn comments(toks: &[Tok]) -> Vec<String> {
    toks.iter()
        .filter_map(|t| match t {
            Tok::Comment(c) => Some(c.split_whitespace().collect::<Vec<_>>().join(" ")),
            _ => None,
        })
        .collect()
}

// ------------------------------------------------------------------------------------------------
// programs

const COMMENT_KINDS: [&str; 9] = ["block", "line", "mblock", "eol-line", "eol-block", "same-line", "same-line-block", "line-colon", "eol-line-colon"];
/// first / second comment text of each kind (distinct texts so that order is observable).
/// Kinds 0-2 are inserted directly before the terminal (after its separator); the `eol` kinds
/// replace a line-break separator, i.e. the comment ends the previous line.
const COMMENT_TEXT: [[&str; 2]; 9] = [
    ["/* c1 */", "/* d1 */"],
    ["// c2\n", "// d2\n"],
    ["/* a\n   b */", "/* e\n   f */"],
    [" // c3\n", " // d3\n"],
    [" /* c4 */\n", " /* d4 */\n"],
    // the statement shares the previous statement's line (no comment / a block comment in between)
    [" ", " "],
    [" /* c5 */ ", " /* d5 */ "],
    // comment text that looks like the end of a label / the start of a block
    ["// c6:\n", "// d6 {\n"],
    [" // c7:\n", " // d7 {\n"],
];

/// kinds that replace the separator before the terminal (the others are inserted after it)
fn replaces_separator(kind: usize) -> bool {
    matches!(kind, 3 | 4 | 5 | 6 | 8)
}

fn comment_dev(slot: (usize, usize), which: usize) -> Dev {
    let text = COMMENT_TEXT[slot.1][which].to_string();
    if replaces_separator(slot.1) {
        Dev::Sep(slot.0, text)
    } else {
        Dev::Insert(slot.0, text)
    }
}

#[derive(Clone, Debug)]
struct Lab {
    construct: String,
    before: String,
    after: String,
    ckind: &'static str,
}

impl Lab {
    fn s(&self) -> String {
        format!("{}:{}|{}:{}", self.construct, self.before, self.after, self.ckind)
    }
}

#[derive(Clone)]
struct Item {
    prog: usize,
    text: String,
    labs: Vec<Lab>,
    /// (terminal index, comment kind) of the comments, for looking up the single-comment results
    keys: Vec<(usize, usize)>,
}

fn term_kind(r: &Rendered, i: usize) -> String {
    let t = &r.terms[i];
    match t.kind {
        Kind::Punct | Kind::Op => format!("'{}'", t.text),
        Kind::Directive | Kind::Keyword => t.text.to_lowercase(),
        k => k.name().to_string(),
    }
}

fn slot_lab(r: &Rendered, i: usize, kind: usize) -> Lab {
    // the terminal before a statement's first terminal belongs to another statement: only its
    // role is kept (start of file, block start / end, label, any other statement = `^`)
    let stmt = r.terms[i].stmt;
    let before = if i == 0 {
        "bof".to_string()
    } else if r.stmts[stmt].first == i && r.terms[i - 1].stmt != stmt {
        match r.terms[i - 1].text.as_str() {
            "{" | "}" | ":" => term_kind(r, i - 1),
            _ => "^".to_string(),
        }
    } else {
        term_kind(r, i - 1)
    };
    Lab {
        construct: r.kinds[stmt].to_string(),
        before,
        after: term_kind(r, i),
        ckind: COMMENT_KINDS[kind],
    }
}

/// (terminal index, comment kind) for every comment slot
fn comment_slots(r: &Rendered) -> Vec<(usize, usize)> {
    let mut out = vec![];
    for (i, t) in r.terms.iter().enumerate() {
        match t.slot {
            Slot::None => {}
            Slot::Ws => out.push((i, 0)),
            Slot::Mws => {
                for k in 0..3 {
                    out.push((i, k));
                }
                out.push((i, 7));
                if t.sep == "\n" {
                    out.push((i, 3));
                    out.push((i, 4));
                    out.push((i, 8));
                }
                if r.joinable(i) {
                    out.push((i, 5));
                    out.push((i, 6));
                }
            }
        }
    }
    out
}

fn extra_programs() -> Vec<Prog> {
    use mvlib::isa::Form;
    let nop = || imp("nop");
    let p = |name: &str, stmts: Vec<Stmt>| Prog {
        name: name.to_string(),
        stmts,
        valid: true,
    };
    vec![
        p(
            "fmt-long-labels",
            vec![
                label("a_label_longer_than_the_label_margin"),
                nop(),
                label("x"),
                nop(),
                label_block("another_quite_long_label_name", vec![nop(), label("inner_label_that_is_long_too"), imp("rts")]),
            ],
        ),
        p(
            "fmt-label-runs",
            vec![
                label("l1"),
                label("l2"),
                nop(),
                label("d1"),
                byte(vec![num(1), num(2)]),
                label("t1"),
                Stmt::Text {
                    encoding: None,
                    value: string("ab"),
                },
                label("e1"),
            ],
        ),
        p(
            "fmt-empty-blocks",
            vec![
                Stmt::Braces(vec![]),
                label_block("e", vec![]),
                Stmt::Loop {
                    count: num(2),
                    body: vec![],
                },
                Stmt::If {
                    cond: num(1),
                    then: vec![],
                    els: Some(vec![]),
                },
                Stmt::Test {
                    name: "t".into(),
                    body: vec![],
                },
                nop(),
            ],
        ),
        p(
            "fmt-mixed-kinds",
            vec![
                konst("c", num(1)),
                konst("d", num(2)),
                ins("lda", Form::Imm, id("c")),
                byte(vec![id("d")]),
                ins("ldx", Form::Imm, id("d")),
                Stmt::Braces(vec![nop()]),
                Stmt::Braces(vec![nop()]),
                Stmt::If {
                    cond: id("c"),
                    then: vec![nop()],
                    els: None,
                },
                label("after_if"),
                imp("rts"),
            ],
        ),
    ]
}

const FILE_VARIANTS: [&str; 11] = [
    "plain",
    "blank-lines",
    "indented",
    "leading-blank",
    "trailing-newline",
    "trailing-blank-lines",
    "crlf",
    "eof-line-comment",
    "eof-block-comment",
    "eof-own-line-comment",
    "eof-mblock-comment",
];

fn file_variant(base: &str, v: &str) -> (String, &'static str) {
    match v {
        "plain" => (base.to_string(), "none"),
        "blank-lines" => (base.replace('\n', "\n\n\n"), "none"),
        "indented" => (format!("  {}", base.replace('\n', "\n\t  ")), "none"),
        "leading-blank" => (format!("\n\n  {}", base), "none"),
        "trailing-newline" => (format!("{}\n", base), "none"),
        "trailing-blank-lines" => (format!("{}\n\n\n", base), "none"),
        "crlf" => (base.replace('\n', "\r\n"), "none"),
        "eof-line-comment" => (format!("{} // c2", base), "line"),
        "eof-block-comment" => (format!("{} /* c1 */", base), "block"),
        "eof-own-line-comment" => (format!("{}\n// c2\n", base), "line"),
        "eof-mblock-comment" => (format!("{}\n/* a\n   b */\n", base), "mblock"),
        _ => unreachable!(),
    }
}

// ------------------------------------------------------------------------------------------------
// evaluation of one program under a list of configurations

type Tree = Arc<ParseTree>;

fn parse_main(text: &str) -> Result<(Option<Tree>, Vec<probe::Diag>), PanicInfo> {
    probe::parse_files(&[("main.asm", text), ("other.asm", OTHER_ASM)])
}

fn fmt_guard(tree: &Tree, cfg: &Cfg) -> Result<String, PanicInfo> {
    let t = tree.clone();
    let o = cfg.opts();
    guard(move || format("main.asm", t, o))
}

struct Orig {
    code: Vec<String>,
    comments: Vec<String>,
    meaning: Meaning,
}

/// a failing clause of one (program, configuration) case
struct Fail {
    cfg: usize,
    /// C12: lost | merged-into-code | reordered | duplicated | parse-error | tokens | bytes |
    /// diagnostics | symbols | panic;  C13: drift | two-cycle | settles | panic
    verdict: String,
    what: String,
}

#[derive(Default)]
struct Stats {
    parsed: bool,
    cases: u64,
    changed: u64,
    unchanged: u64,
    outputs: Vec<u64>,
    second_parse_failed: u64,
    meanings: u64,
    /// the comments of the program are all still there after formatting with the first configuration
    survives: bool,
}

fn show(s: &str) -> String {
    if s.len() > 600 {
        let mut end = 600;
        while !s.is_char_boundary(end) {
            end -= 1;
        }
        format!("{:?}…", &s[..end])
    } else {
        format!("{:?}", s)
    }
}

/// C12 clauses 1-4 for one formatted text
fn analyse12(orig: &Orig, f1: &str, opts: &Opts, stats: &mut Stats) -> Vec<(String, String)> {
    let mut out = vec![];
    let parsed = parse_main(f1);
    let mut parses = false;
    match &parsed {
        Err(p) => out.push((
            "panic".to_string(),
            format!("parser panics on the formatted text: {} at {}; formatted {}", p.message, p.site, show(f1)),
        )),
        Ok((_, d)) if !d.is_empty() => out.push((
            "parse-error".to_string(),
            format!("formatted text does not parse: {}; formatted {}", d[0].short(), show(f1)),
        )),
        Ok((None, _)) => out.push(("parse-error".to_string(), format!("no parse tree for formatted {}", show(f1)))),
        Ok(_) => parses = true,
    }
    let toks = lex(f1);
    let code = code_tokens(&toks);
    let cmts = comments(&toks);
    // a comment of the formatted text that is an original comment plus more text: code was swallowed
    let merged = cmts
        .iter()
        .find(|c| !orig.comments.contains(c) && orig.comments.iter().any(|o| c.starts_with(o.as_str()) && o.starts_with("//")));
    if code != orig.code {
        let pos = code.iter().zip(orig.code.iter()).position(|(a, b)| a != b).unwrap_or(code.len().min(orig.code.len()));
        let ctx_of = |v: &Vec<String>| v[pos.saturating_sub(2)..(pos + 3).min(v.len())].join(" ");
        if let Some(m) = merged {
            out.push((
                "merged-into-code".to_string(),
                format!("code swallowed by comment {:?}: tokens around #{}: original `{}` formatted `{}`; formatted {}", m, pos, ctx_of(&orig.code), ctx_of(&code), show(f1)),
            ));
        } else {
            out.push((
                "tokens".to_string(),
                format!("token string differs at #{}: original `{}` formatted `{}`; formatted {}", pos, ctx_of(&orig.code), ctx_of(&code), show(f1)),
            ));
        }
    }
    if cmts != orig.comments && !(merged.is_some() && code != orig.code) {
        let mut a = orig.comments.clone();
        let mut b = cmts.clone();
        a.sort();
        b.sort();
        let verdict = if a == b {
            "reordered"
        } else {
            // multiset difference
            let mut rest = b.clone();
            let mut missing = false;
            for c in &a {
                match rest.iter().position(|x| x == c) {
                    Some(p) => {
                        rest.remove(p);
                    }
                    None => missing = true,
                }
            }
            if missing {
                "lost"
            } else {
                "duplicated"
            }
        };
        out.push((
            verdict.to_string(),
            format!("comments {:?} became {:?}; formatted {}", orig.comments, cmts, show(f1)),
        ));
    }
    if parses {
        stats.meanings += 1;
        let m = c08::meaning_of(f1, opts);
        if let Some(d) = c08::diff(&orig.meaning, &m) {
            out.push((c08::what_kind(&d).to_string(), format!("{}; formatted {}", d, show(f1))));
        }
    }
    out
}

/// The C12 clauses must flag hand-made violations (and accept a harmless change); otherwise the
/// engine is broken, which is a machinery failure and never a verdict.
fn self_check(opts: &Opts) -> Result<(), String> {
    let cases: [(&str, &str, &[&str]); 7] = [
        ("nop // c2\nlda #1", "nop // c2 lda #1", &["merged-into-code", "bytes"]),
        ("/* c1 */ nop /* d1 */", "/* d1 */ nop /* c1 */", &["reordered"]),
        ("lda #1 /* c1 */", "lda #1", &["lost"]),
        ("lda #1 /* c1 */", "lda #1 /* c1 */ /* c1 */", &["duplicated"]),
        ("lda #1", "lda #2", &["tokens", "bytes"]),
        ("lda #1", "lda #", &["parse-error", "tokens"]),
        ("LDA #1 /* a\n b */", "    lda   #1   /* a\n           b */", &[]),
    ];
    for (orig, formatted, want) in cases {
        let toks = lex(orig);
        let o = Orig {
            code: code_tokens(&toks),
            comments: comments(&toks),
            meaning: c08::meaning_of(orig, opts),
        };
        let mut st = Stats::default();
        let mut got: Vec<String> = analyse12(&o, formatted, opts, &mut st).into_iter().map(|v| v.0).collect();
        got.sort();
        let mut want: Vec<String> = want.iter().map(|s| s.to_string()).collect();
        want.sort();
        if got != want {
            return Err(format!("oracle self-check: {:?} -> {:?} gives {:?}, expected {:?}", orig, formatted, got, want));
        }
    }
    Ok(())
}

struct Mode {
    do12: bool,
    do13: bool,
}

/// Runs one program text through all configurations; returns the failing clauses in
/// configuration order.
fn process(ctx: &Ctx, text: &str, cfgs: &[Cfg], mode: &Mode, opts: &Opts, stats: &mut Stats) -> Vec<Fail> {
    let mut fails = vec![];
    let tree0 = match parse_main(text) {
        Ok((Some(t), d)) if d.is_empty() => t,
        _ => return fails,
    };
    stats.parsed = true;
    let toks = lex(text);
    let orig = Orig {
        code: code_tokens(&toks),
        comments: comments(&toks),
        meaning: if mode.do12 {
            c08::meaning_of(text, opts)
        } else {
            Meaning {
                segs: vec![],
                symbols: BTreeMap::new(),
                messages: vec![],
                panic: None,
            }
        },
    };
    struct Cached {
        tree: Option<Tree>,
        c12: Vec<(String, String)>,
    }
    let mut cache: HashMap<String, Cached> = HashMap::new();
    let th = fnv_str(text);
    for (ci, cfg) in cfgs.iter().enumerate() {
        ctx.eval(|| json!({"main.asm": text, "config": cfg.name()}));
        stats.cases += 1;
        let f1 = match fmt_guard(&tree0, cfg) {
            Ok(f) => f,
            Err(p) => {
                fails.push(Fail {
                    cfg: ci,
                    verdict: "panic".into(),
                    what: format!("formatter panics: {} at {}", p.message, p.site),
                });
                continue;
            }
        };
        if ci == 0 {
            stats.survives = comments(&lex(&f1)) == orig.comments;
        }
        if f1 != text {
            stats.changed += 1;
        } else {
            stats.unchanged += 1;
        }
        if !cache.contains_key(&f1) {
            if f1 != text {
                stats.outputs.push(th ^ fnv_str(&f1).rotate_left(17));
            }
            let c12 = if mode.do12 { analyse12(&orig, &f1, opts, stats) } else { vec![] };
            let tree = if mode.do13 {
                match parse_main(&f1) {
                    Ok((Some(t), d)) if d.is_empty() => Some(t),
                    _ => None,
                }
            } else {
                None
            };
            cache.insert(f1.clone(), Cached { tree, c12 });
        }
        let c = &cache[&f1];
        if mode.do12 {
            for (v, w) in &c.c12 {
                fails.push(Fail {
                    cfg: ci,
                    verdict: v.clone(),
                    what: format!("[{}] {}", cfg.name(), w),
                });
            }
        }
        if mode.do13 {
            let t1 = match &c.tree {
                Some(t) => t.clone(),
                None => {
                    // the formatted text does not parse: C12's business, no verdict here
                    stats.second_parse_failed += 1;
                    continue;
                }
            };
            match fmt_guard(&t1, cfg) {
                Err(p) => fails.push(Fail {
                    cfg: ci,
                    verdict: "panic".into(),
                    what: format!("[{}] second formatting panics: {} at {}; first result {}", cfg.name(), p.message, p.site, show(&f1)),
                }),
                Ok(f2) if f2 == f1 => {}
                Ok(f2) => {
                    // third application: drift or cycle?
                    let f3 = match parse_main(&f2) {
                        Ok((Some(t), d)) if d.is_empty() => fmt_guard(&t, cfg).ok(),
                        _ => None,
                    };
                    let shape = match &f3 {
                        Some(f3) if *f3 == f2 => "settles",
                        Some(f3) if *f3 == f1 => "two-cycle",
                        Some(_) => "drift",
                        None => "second-result-unparsable",
                    };
                    let line = f1
                        .lines()
                        .zip(f2.lines())
                        .position(|(a, b)| a != b)
                        .unwrap_or(f1.lines().count().min(f2.lines().count()));
                    fails.push(Fail {
                        cfg: ci,
                        verdict: shape.into(),
                        what: format!(
                            "[{}] format(format(p)) != format(p) ({}; third application: {}): first differing line {}: {:?} -> {:?}{}; format(p) = {}",
                            cfg.name(),
                            shape,
                            match &f3 {
                                Some(f3) if *f3 == f2 => "equals the second",
                                Some(f3) if *f3 == f1 => "equals the first",
                                Some(_) => "differs again",
                                None => "not possible",
                            },
                            line + 1,
                            f1.lines().nth(line).unwrap_or(""),
                            f2.lines().nth(line).unwrap_or(""),
                            match &f3 {
                                Some(f3) if *f3 != f2 && *f3 != f1 => format!(" -> {:?}", f3.lines().nth(line).unwrap_or("")),
                                _ => String::new(),
                            },
                            show(&f1)
                        ),
                    });
                }
            }
        }
    }
    fails
}

fn case_json(text: &str, prog: &str, cfg: &Cfg) -> Value {
    json!({"kind": "format", "program": prog, "files": {"main.asm": text, "other.asm": OTHER_ASM}, "config": cfg.json()})
}

/// C13: which configuration factor matters (cfgs are ordered default, one-factor deviations, rest)
struct FactorTracker {
    default_fails: bool,
    one_factor: [bool; 7],
}

impl FactorTracker {
    fn new() -> Self {
        FactorTracker {
            default_fails: false,
            one_factor: [false; 7],
        }
    }
    fn factor(&mut self, cfg: &Cfg) -> String {
        let dev = cfg.deviating();
        if dev.is_empty() {
            self.default_fails = true;
        }
        if self.default_fails {
            return "any".into();
        }
        if dev.len() == 1 {
            self.one_factor[dev[0]] = true;
            return FACTORS[dev[0]].into();
        }
        let known: Vec<&str> = dev.iter().filter(|f| self.one_factor[**f]).map(|f| FACTORS[*f]).collect();
        if !known.is_empty() {
            known.join("+")
        } else {
            format!("combination({})", dev.iter().map(|f| FACTORS[*f]).collect::<Vec<_>>().join("+"))
        }
    }
}

// ------------------------------------------------------------------------------------------------
// clause 5: the real binary

struct Project {
    files: Vec<(String, String)>,
    toml: Option<String>,
    cfg: Cfg,
    shape: &'static str,
    /// index of the file with the injected parse error
    error_in: Option<usize>,
}

const PARSE_ERROR: &str = "\nlda #\n.byte ,\n";

fn mos_path(ctx: &Ctx) -> PathBuf {
    std::env::var("MOS_BIN")
        .map(PathBuf::from)
        .unwrap_or_else(|_| ctx.verif_root.join(".build/bin/release/mos"))
}

struct CliObs {
    exit: Option<i32>,
    stderr: String,
    files: Vec<(String, Vec<u8>)>,
}

fn run_cli(mos: &Path, dir: &Path, p: &Project) -> Result<CliObs, String> {
    let _ = std::fs::remove_dir_all(dir);
    std::fs::create_dir_all(dir).map_err(|e| format!("mkdir {}: {}", dir.display(), e))?;
    for (name, text) in &p.files {
        std::fs::write(dir.join(name), text).map_err(|e| format!("write {}: {}", name, e))?;
    }
    if let Some(t) = &p.toml {
        std::fs::write(dir.join("mos.toml"), t).map_err(|e| format!("write mos.toml: {}", e))?;
    }
    let out = Command::new(mos)
        .args(["-e", "Short", "--no-color", "format"])
        .current_dir(dir)
        .env_remove("RUST_LOG")
        .env("RUST_BACKTRACE", "0")
        .stdin(std::process::Stdio::null())
        .output()
        .map_err(|e| format!("cannot run {}: {}", mos.display(), e))?;
    let mut files = vec![];
    for (name, _) in &p.files {
        let bytes = std::fs::read(dir.join(name)).map_err(|e| format!("read {}: {}", name, e))?;
        files.push((name.clone(), bytes));
    }
    Ok(CliObs {
        exit: out.status.code(),
        stderr: String::from_utf8_lossy(&out.stderr).to_string() + &String::from_utf8_lossy(&out.stdout),
    files,
    })
}

/// what the in-process formatter says every file of the project should contain
fn expected_files(p: &Project) -> Result<Option<Vec<(String, String)>>, PanicInfo> {
    let files: Vec<(&str, &str)> = p.files.iter().map(|(n, t)| (n.as_str(), t.as_str())).collect();
    let (tree, diags) = probe::parse_files(&files)?;
    let tree = match tree {
        Some(t) if diags.is_empty() => t,
        _ => return Ok(None),
    };
    let mut out = vec![];
    for (name, _) in &p.files {
        let t = tree.clone();
        let o = p.cfg.opts();
        let n = name.clone();
        if tree.try_get_file(name.as_str()).is_none() {
            // not part of the parse tree: not formatted
            continue;
        }
        out.push((name.clone(), guard(move || format(n, t, o))?));
    }
    Ok(Some(out))
}

fn cli_case_json(p: &Project) -> Value {
    let mut files = serde_json::Map::new();
    for (n, t) in &p.files {
        files.insert(n.clone(), json!(t));
    }
    json!({"kind": "cli", "shape": p.shape, "files": files, "toml": p.toml, "config": p.cfg.json(), "error_in": p.error_in.map(|i| p.files[i].0.clone())})
}

fn projects(pool: &[String], n: usize, full: &[Cfg]) -> Vec<Project> {
    let mut out = vec![];
    let len = pool.len();
    for i in 0..n {
        // (files whose formatted text is shorter than the source: deep indentation, runs of empty lines)
        let bloat = |t: &str| -> String {
            let mut b: String = t.lines().map(|l| format!("{:64}{}", "", l)).collect::<Vec<_>>().join("\n\n\n\n");
            b.push_str("\n\n\n\n");
            b
        };
        let mut x = pool[(i * 131 + 7) % len].clone();
        let mut y = pool[(i * 173 + 11) % len].clone();
        let mut z = pool[(i * 197 + 13) % len].clone();
        match (i / 2) % 3 {
            1 => y = bloat(&y),
            2 => {
                x = bloat(&x);
                y = bloat(&y);
                z = bloat(&z);
            }
            _ => {}
        }
        let (shape, mut files): (&'static str, Vec<(String, String)>) = match i % 4 {
            0 => ("single", vec![("main.asm".into(), x)]),
            1 => (
                "main+other",
                vec![
                    ("main.asm".into(), format!(".import * from \"other.asm\"\n{}", x)),
                    ("other.asm".into(), y),
                ],
            ),
            2 => (
                "chain",
                vec![
                    ("main.asm".into(), format!(".import * from \"other.asm\"\n{}", x)),
                    ("other.asm".into(), format!("{}\n.import * from \"third.asm\"", y)),
                    ("third.asm".into(), z),
                ],
            ),
            _ => (
                "fan",
                vec![
                    ("main.asm".into(), format!(".import * from \"other.asm\"\n{}\n  .import   * from \"third.asm\"", x)),
                    ("other.asm".into(), y),
                    ("third.asm".into(), z),
                ],
            ),
        };
        let error_in = if (i / 4) % 2 == 1 { Some((i / 8) % files.len()) } else { None };
        if let Some(e) = error_in {
            files[e].1.push_str(PARSE_ERROR);
        }
        let (toml, cfg) = match i % 5 {
            0 => (None, Cfg::default()),
            1 => (Some("[build]\nentry = \"main.asm\"\n".to_string()), Cfg::default()),
            2 => {
                let c = full[(i * 37 + 5) % full.len()];
                (Some(c.toml(true)), c)
            }
            _ => {
                let c = full[(i * 41 + 3) % full.len()];
                (Some(c.toml(false)), c)
            }
        };
        out.push(Project {
            files,
            toml,
            cfg,
            shape,
            error_in,
        });
    }
    out
}

/// Returns false on a machinery failure.
fn cli_oracle(ctx: &Ctx, pool: &[String], n: usize, full: &[Cfg]) -> bool {
    let mos = mos_path(ctx);
    if !mos.is_file() {
        eprintln!(
            "C12: MACHINERY: mos executable not found at {} (build it: cd /repo && CARGO_TARGET_DIR=/verif/.build/bin cargo build --release --offline -p mos; or set MOS_BIN)",
            mos.display()
        );
        return false;
    }
    let scratch = ctx.verif_root.join(".build/scratch/c12");
    let counter = AtomicU64::new(0);
    let machinery: Mutex<Option<String>> = Mutex::new(None);
    let mut ps = projects(pool, n, full);
    // the same projects with some of their files formatted already (every non-empty proper subset of the files):
    // whatever state the other files are in, each file ends up holding its formatted text
    let mut pre = vec![];
    for p in ps.iter() {
        if p.error_in.is_some() || p.files.len() < 2 {
            continue;
        }
        let exp = match expected_files(p) {
            Ok(Some(e)) if e.len() == p.files.len() => e,
            _ => continue,
        };
        for mask in 1..(1u32 << p.files.len()) - 1 {
            let mut files = p.files.clone();
            for (k, f) in files.iter_mut().enumerate() {
                if mask & (1 << k) != 0 {
                    if let Some((_, t)) = exp.iter().find(|(n, _)| *n == f.0) {
                        f.1 = t.clone();
                    }
                }
            }
            if files == p.files {
                continue;
            }
            pre.push(Project {
                files,
                toml: p.toml.clone(),
                cfg: p.cfg,
                shape: match p.shape {
                    "main+other" => "main+other:some-files-formatted-already",
                    "chain" => "chain:some-files-formatted-already",
                    _ => "fan:some-files-formatted-already",
                },
                error_in: None,
            });
        }
    }
    ctx.set("cli_projects_with_some_files_formatted_already", json!(pre.len()));
    ps.extend(pre);
    ctx.set("cli_projects", json!(ps.len()));
    par_each(ps, |p: Project| {
        let k = counter.fetch_add(1, Ordering::Relaxed);
        let dir = scratch.join(format!("{}-{}", std::process::id(), k));
        ctx.eval(|| cli_case_json(&p));
        let expected = match expected_files(&p) {
            Ok(e) => e,
            Err(_) => {
                ctx.count("cli_skipped_formatter_panics_in_process");
                return;
            }
        };
        // a project made of the formatter's own output that does not parse: clause (1) of the property, not a problem of
        // the machinery
        if expected.is_none() && p.error_in.is_none() && p.shape.ends_with("formatted-already") {
            ctx.finding(Finding::new(
                format!("fmt:cli:{}:formatted-text-does-not-parse", p.shape),
                format!("a project in which some files hold the formatter's output no longer parses: {:?}", p.files),
                cli_case_json(&p),
            ));
            return;
        }
        // the injected error must be a parse error, and only then
        if expected.is_none() != p.error_in.is_some() {
            *machinery.lock().unwrap() = Some(format!(
                "project {} (error_in {:?}): in-process parse {} diagnostics; files {:?}",
                k,
                p.error_in,
                if expected.is_none() { "has" } else { "has no" },
                p.files
            ));
            return;
        }
        let obs = match run_cli(&mos, &dir, &p) {
            Ok(o) => o,
            Err(e) => {
                *machinery.lock().unwrap() = Some(e);
                return;
            }
        };
        let _ = std::fs::remove_dir_all(&dir);
        ctx.nontrivial(fnv_str(&cli_case_json(&p).to_string()));
        ctx.count(&format!("cli_{}_files", p.files.len()));
        ctx.count(&format!("cli_exit_{}", obs.exit.map(|c| c.to_string()).unwrap_or_else(|| "signal".into())));
        match expected {
            None => {
                ctx.count("cli_with_parse_error");
                for ((name, before), (_, after)) in p.files.iter().zip(obs.files.iter()) {
                    if before.as_bytes() != after.as_slice() {
                        ctx.finding(Finding::new(
                            format!("fmt:cli:{}:touched-on-parse-error", p.shape),
                            format!(
                                "parse error in {} but {} was rewritten: {:?} -> {:?} (exit {:?})",
                                p.files[p.error_in.unwrap()].0,
                                name,
                                before,
                                String::from_utf8_lossy(after),
                                obs.exit
                            ),
                            cli_case_json(&p),
                        ));
                    }
                }
                if obs.exit == Some(0) {
                    ctx.count("cli_parse_error_exit_0");
                }
            }
            Some(exp) => {
                ctx.count("cli_without_error");
                if p.toml.as_deref().map(|t| t.contains("[formatting]")).unwrap_or(false) {
                    ctx.count("cli_with_formatting_section");
                }
                for (name, want) in &exp {
                    let got = obs.files.iter().find(|(n, _)| n == name).map(|(_, b)| b.clone()).unwrap_or_default();
                    if want.as_bytes() != got.as_slice() {
                        ctx.finding(Finding::new(
                            format!("fmt:cli:{}:file-differs", p.shape),
                            format!(
                                "{} after `mos format` is {:?}, in-process format [{}] gives {:?} (exit {:?}, output {:?})",
                                name,
                                String::from_utf8_lossy(&got),
                                p.cfg.name(),
                                want,
                                obs.exit,
                                obs.stderr
                            ),
                            cli_case_json(&p),
                        ));
                    } else {
                        ctx.count("cli_files_equal_to_in_process_format");
                    }
                }
                if exp.len() != p.files.len() {
                    ctx.count("cli_files_not_in_parse_tree");
                }
            }
        }
    });
    if let Some(m) = machinery.lock().unwrap().clone() {
        eprintln!("C12: MACHINERY: {}", m);
        return false;
    }
    true
}

// ------------------------------------------------------------------------------------------------
// replay

fn replay_case(ctx: &Ctx, case: &Value) -> i32 {
    let cfg = Cfg::from_json(&case["config"]);
    if case["kind"] == "cli" {
        let mut files = vec![];
        if let Some(m) = case["files"].as_object() {
            // main.asm first
            for (n, t) in m {
                files.push((n.clone(), t.as_str().unwrap_or("").to_string()));
            }
            files.sort_by_key(|(n, _)| n != "main.asm");
        }
        let p = Project {
            files,
            toml: case["toml"].as_str().map(|s| s.to_string()),
            cfg,
            shape: "replay",
            error_in: None,
        };
        let dir = ctx.verif_root.join(format!(".build/scratch/c12/replay-{}", std::process::id()));
        let obs = match run_cli(&mos_path(ctx), &dir, &p) {
            Ok(o) => o,
            Err(e) => {
                eprintln!("C12: MACHINERY: {}", e);
                return 2;
            }
        };
        let _ = std::fs::remove_dir_all(&dir);
        println!("mos.toml: {:?}\nexit: {:?}\noutput: {}", p.toml, obs.exit, obs.stderr);
        let exp = expected_files(&p);
        for ((name, before), (_, after)) in p.files.iter().zip(obs.files.iter()) {
            println!("--- {} before:\n{}\n--- {} after `mos format`:\n{}", name, before, name, String::from_utf8_lossy(after));
            match &exp {
                Ok(Some(e)) => {
                    if let Some((_, want)) = e.iter().find(|(n, _)| n == name) {
                        println!(
                            "--- in-process format says:\n{}\n=> {}",
                            want,
                            if want.as_bytes() == after.as_slice() { "EQUAL" } else { "DIFFERENT" }
                        );
                    }
                }
                Ok(None) => println!(
                    "=> project has a parse error; file {}",
                    if before.as_bytes() == after.as_slice() { "untouched" } else { "WAS REWRITTEN" }
                ),
                Err(p) => println!("=> in-process formatter panics: {} at {}", p.message, p.site),
            }
        }
        return 0;
    }
    let text = case["files"]["main.asm"].as_str().unwrap_or("");
    println!("configuration: {}\n--- original:\n{}\n---", cfg.name(), text);
    let opts = Opts::default();
    let mut stats = Stats::default();
    let cfgs = [cfg];
    for (name, mode) in [("C12", Mode { do12: true, do13: false }), ("C13", Mode { do12: false, do13: true })] {
        let fails = process(ctx, text, &cfgs, &mode, &opts, &mut stats);
        if !stats.parsed {
            println!("original does not parse without diagnostics: no verdict");
            return 0;
        }
        if name == "C12" {
            if let Ok((Some(t), _)) = parse_main(text) {
                match fmt_guard(&t, &cfg) {
                    Ok(f1) => {
                        println!("--- format(p):\n{}\n---", f1);
                        if let Ok((Some(t1), d)) = parse_main(&f1) {
                            if d.is_empty() {
                                if let Ok(f2) = fmt_guard(&t1, &cfg) {
                                    if f2 != f1 {
                                        println!("--- format(format(p)):\n{}\n---", f2);
                                    }
                                }
                            }
                        }
                    }
                    Err(p) => println!("formatter panics: {} at {}", p.message, p.site),
                }
            }
        }
        if fails.is_empty() {
            println!("{}: holds for this case", name);
        }
        for f in fails {
            println!("{} FAILS ({}): {}", name, f.verdict, f.what);
        }
    }
    0
}

// ------------------------------------------------------------------------------------------------
// signatures: attribution to the uncommented program, reduction, wildcards

fn stmt_children(s: &Stmt) -> Vec<&Vec<Stmt>> {
    match s {
        Stmt::Label { block: Some(b), .. } => vec![b],
        Stmt::Braces(b) => vec![b],
        Stmt::Loop { body, .. } => vec![body],
        Stmt::If { then, els, .. } => {
            let mut v = vec![then];
            if let Some(e) = els {
                v.push(e);
            }
            v
        }
        Stmt::MacroDef { body, .. } => vec![body],
        Stmt::Segment { block: Some(b), .. } => vec![b],
        Stmt::Import { block: Some(b), .. } => vec![b],
        Stmt::Test { body, .. } => vec![body],
        _ => vec![],
    }
}

fn stmt_kind(s: &Stmt) -> String {
    let r = render(std::slice::from_ref(s));
    let k = r.kinds[0].to_string();
    match s {
        Stmt::If { els: Some(_), .. } => "if-else".into(),
        _ => k,
    }
}

/// Smallest statements (rendered alone) that still fail: `fails(text)`.
fn minimal_failing(stmts: &[Stmt], fails: &dyn Fn(&str) -> bool, out: &mut Vec<(String, String)>) {
    for s in stmts {
        let text = stmt_text(s);
        if !fails(&text) {
            continue;
        }
        let before = out.len();
        for c in stmt_children(s) {
            minimal_failing(c, fails, out);
        }
        if out.len() == before {
            out.push((stmt_kind(s), text));
        }
    }
}

/// one evaluated program with its result
struct ItemOut {
    parsed: bool,
    survives: bool,
    fails: Vec<Fail>,
}

/// a single-comment program as a row of the wildcard table
struct Row {
    item: usize,
    construct: String,
    before: String,
    after: String,
    ckind: String,
    eligible: bool,
}

impl Row {
    /// (pattern text, wildcarded: construct, around level 0 none / 1 before / 2 both, ckind)
    fn patterns(&self) -> Vec<(String, bool, u8, bool)> {
        let mut out = vec![];
        for wc in [true, false] {
            for wa in [2u8, 1, 0] {
                for wk in [true, false] {
                    if wc && wa == 0 {
                        // the terminal before a slot is specific to the construct
                        continue;
                    }
                    let c = if wc { "*" } else { self.construct.as_str() };
                    let a = match wa {
                        2 => "*".to_string(),
                        1 => format!("*|{}", self.after),
                        _ => format!("{}|{}", self.before, self.after),
                    };
                    let k = if wk { "*" } else { self.ckind.as_str() };
                    out.push((format!("{}:{}:{}", c, a, k), wc, wa, wk));
                }
            }
        }
        out
    }
}

#[derive(Default)]
struct PatStat {
    eligible: usize,
    constructs: BTreeSet<String>,
    befores: BTreeSet<String>,
    arounds: BTreeSet<String>,
    ckinds: BTreeSet<String>,
    /// tag -> eligible rows failing with it
    failing: BTreeMap<String, usize>,
}

/// Chooses, per failing row and tag, the most general pattern all of whose eligible rows fail
/// with that tag (a component is only wildcarded when at least two of its values were enumerated).
fn wildcard_signatures(rows: &[Row], row_tags: &[BTreeSet<String>]) -> Vec<BTreeMap<String, String>> {
    let mut stats: HashMap<String, PatStat> = HashMap::new();
    for (ri, row) in rows.iter().enumerate() {
        if !row.eligible {
            continue;
        }
        for (p, _, _, _) in row.patterns() {
            let st = stats.entry(p).or_default();
            st.eligible += 1;
            st.constructs.insert(row.construct.clone());
            st.befores.insert(row.before.clone());
            st.arounds.insert(format!("{}|{}", row.before, row.after));
            st.ckinds.insert(row.ckind.clone());
            for t in &row_tags[ri] {
                *st.failing.entry(t.clone()).or_insert(0) += 1;
            }
        }
    }
    let mut out = vec![];
    for (ri, row) in rows.iter().enumerate() {
        let mut m = BTreeMap::new();
        for t in &row_tags[ri] {
            let mut best: Option<(usize, String)> = None;
            let pats = row.patterns();
            for (p, wc, wa, wk) in &pats {
                let specific = !*wc && *wa == 0 && !*wk;
                let ok = match stats.get(p) {
                    Some(st) => {
                        st.failing.get(t).copied().unwrap_or(0) == st.eligible
                            && st.eligible > 0
                            && (!*wc || st.constructs.len() >= 2)
                            && (*wa != 1 || st.befores.len() >= 2)
                            && (*wa != 2 || st.arounds.len() >= 2)
                            && (!*wk || st.ckinds.len() >= 2)
                    }
                    None => false,
                };
                if specific {
                    if best.is_none() {
                        best = Some((0, p.clone()));
                    }
                    break;
                } else if ok && best.is_none() {
                    // patterns come most general first
                    best = Some((stats[p].eligible, p.clone()));
                }
            }
            m.insert(t.clone(), best.unwrap().1);
        }
        out.push(m);
    }
    out
}

// ------------------------------------------------------------------------------------------------

pub fn run(ctx: &Ctx, replay: Option<&Value>) -> i32 {
    if let Some(case) = replay {
        return replay_case(ctx, case);
    }
    let do12 = ctx.id == "C12";
    let prefix = if do12 { "fmt" } else { "idem" };
    let mode = Mode { do12, do13: !do12 };
    let opts = Opts::default();
    let thorough = ctx.tier.is_thorough();
    let isa = Isa::new();
    if let Err(e) = self_check(&opts) {
        eprintln!("{}: MACHINERY: {}", ctx.id, e);
        return 2;
    }

    // (override for timing experiments: VERIF_C12_PRODUCT=quick)
    let full_product = configurations(true, &VALUES);
    let quick_cfgs = configurations(false, &VALUES);
    let use_full = thorough && std::env::var("VERIF_C12_PRODUCT").ok().as_deref() != Some("quick");
    let cfgs: Vec<Cfg> = if use_full { full_product.clone() } else { quick_cfgs.clone() };
    ctx.set("configurations", json!(cfgs.len()));

    let mut progs: Vec<Prog> = c08::all_bases(&isa).into_iter().filter(|p| p.valid).collect();
    progs.extend(extra_programs());
    ctx.set("base_programs", json!(progs.len()));
    let rendered: Vec<Rendered> = progs.iter().map(|p| render(&p.stmts)).collect();
    let bases: Vec<String> = rendered.iter().map(|r| r.text()).collect();

    // the base programs must be what they claim to be (parse and assemble without diagnostics)
    for (i, p) in progs.iter().enumerate() {
        let m = c08::meaning_of(&bases[i], &opts);
        if !m.messages.is_empty() || m.panic.is_some() {
            eprintln!("{}: MACHINERY: base program {} is not valid: {:?} {:?}", ctx.id, p.name, m.messages, m.panic);
            return 2;
        }
    }

    // ---- items: plain + whole-file variants + one comment per slot
    let mut items: Vec<Item> = vec![];
    let mut plain_of: Vec<usize> = vec![];
    let mut slots_total = 0usize;
    for (pi, r) in rendered.iter().enumerate() {
        for v in FILE_VARIANTS.iter() {
            let (text, ckind) = file_variant(&bases[pi], v);
            let (before, after) = if ckind == "none" {
                (String::new(), v.to_string())
            } else {
                (
                    term_kind(r, r.terms.len() - 1),
                    (if v.contains("own-line") || v.contains("mblock") { "eof-own-line" } else { "eof" }).to_string(),
                )
            };
            if *v == "plain" {
                plain_of.push(items.len());
            }
            items.push(Item {
                prog: pi,
                text,
                labs: vec![Lab {
                    construct: "file".into(),
                    before,
                    after,
                    ckind,
                }],
                keys: vec![],
            });
        }
        let slots = comment_slots(r);
        slots_total += r.terms.iter().filter(|t| t.slot != Slot::None).count();
        for (i, k) in slots {
            let text = r.layout(&[comment_dev((i, k), 0)]).text;
            items.push(Item {
                prog: pi,
                text,
                labs: vec![slot_lab(r, i, k)],
                keys: vec![(i, k)],
            });
        }
    }
    ctx.set("trivia_slots", json!(slots_total));
    ctx.set("bound1_programs", json!(items.len()));

    let eval_item = |item: &Item, cfgs: &[Cfg]| -> ItemOut {
        let mut stats = Stats::default();
        let fails = process(ctx, &item.text, cfgs, &mode, &opts, &mut stats);
        if !stats.parsed {
            // not a program that parses without errors: outside the quantifier (C08's subject)
            ctx.count("programs_not_parsing");
            ctx.count(&format!("not_parsing:{}", item.labs.iter().map(|l| l.s()).collect::<Vec<_>>().join("&")));
            return ItemOut {
                parsed: false,
                survives: false,
                fails,
            };
        }
        ctx.count("programs_parsing");
        ctx.count_n("cases", stats.cases);
        ctx.count_n("cases_formatter_changed_the_text", stats.changed);
        ctx.count_n("cases_formatter_left_the_text_unchanged", stats.unchanged);
        ctx.count_n("distinct_formatter_outputs_analysed", stats.outputs.len() as u64);
        ctx.count_n("formatted_texts_assembled", stats.meanings);
        ctx.count_n("c13_formatted_text_does_not_parse_no_verdict", stats.second_parse_failed);
        ctx.nontrivial_many(stats.outputs.iter().copied());
        let failing: BTreeSet<usize> = fails.iter().map(|f| f.cfg).collect();
        ctx.count_n("cases_failing", failing.len() as u64);
        for f in &fails {
            ctx.count(&format!("failing_clause:{}", f.verdict));
        }
        ItemOut {
            parsed: true,
            survives: stats.survives,
            fails,
        }
    };

    // tag of a failure = what the signature ends with: C12 the clause verdict, C13 the factor
    let tags_of = |fails: &[&Fail], cfgs: &[Cfg]| -> Vec<String> {
        let mut tracker = FactorTracker::new();
        fails
            .iter()
            .map(|f| {
                if do12 || f.verdict == "panic" {
                    f.verdict.clone()
                } else {
                    tracker.factor(&cfgs[f.cfg])
                }
            })
            .collect()
    };

    use rayon::prelude::*;
    let outs: Vec<ItemOut> = items.par_iter().map(|it| eval_item(it, &cfgs)).collect();
    ctx.set("wall_s_after_bound1", json!(ctx.wall()));

    // ---- uncommented programs that fail: reduce to the smallest failing statements
    // (prog, cfg, verdict-or-empty) -> signature
    let mut plain_sig: HashMap<(usize, usize, String), String> = HashMap::new();
    for (pi, p) in progs.iter().enumerate() {
        let out = &outs[plain_of[pi]];
        let fr: Vec<&Fail> = out.fails.iter().collect();
        let tags = tags_of(&fr, &cfgs);
        let mut sig_of_tag: BTreeMap<String, String> = BTreeMap::new();
        for (f, t) in fr.iter().zip(tags.iter()) {
            if !sig_of_tag.contains_key(t) {
                // reduce under the first configuration showing this tag
                let cfg1 = [cfgs[f.cfg]];
                let verdict = f.verdict.clone();
                let fails_alone = |text: &str| -> bool {
                    let mut st = Stats::default();
                    process(ctx, text, &cfg1, &mode, &opts, &mut st)
                        .iter()
                        .any(|g| !do12 || g.verdict == verdict)
                };
                let mut mins = vec![];
                minimal_failing(&p.stmts, &fails_alone, &mut mins);
                let mut kinds: Vec<String> = mins.iter().map(|m| m.0.clone()).collect();
                kinds.sort();
                kinds.dedup();
                let construct = if kinds.is_empty() { format!("program-{}", p.name) } else { kinds.join("+") };
                let sig = format!("{}:{}:plain:none:{}", prefix, construct, t);
                // the reduced statements are cases of their own (smallest reproducers)
                for (k, text) in &mins {
                    let mut st = Stats::default();
                    for g in process(ctx, text, &cfg1, &mode, &opts, &mut st) {
                        if !do12 || g.verdict == verdict {
                            ctx.finding(Finding::new(
                                format!("{}:{}:plain:none:{}", prefix, if kinds.len() == 1 { k.clone() } else { construct.clone() }, t),
                                g.what,
                                case_json(text, &format!("{} reduced", p.name), &cfg1[0]),
                            ));
                        }
                    }
                }
                sig_of_tag.insert(t.clone(), sig);
            }
            plain_sig.insert((pi, f.cfg, if do12 { f.verdict.clone() } else { String::new() }), sig_of_tag[t].clone());
        }
    }
    let explained_by_plain = |prog: usize, f: &Fail, cfgs_here: &[Cfg]| -> Option<String> {
        // configurations of the pair run are a prefix of the bound-1 list, same order
        let _ = cfgs_here;
        plain_sig
            .get(&(prog, f.cfg, if do12 { f.verdict.clone() } else { String::new() }))
            .cloned()
    };

    // C13: a program that is not idempotent under the default configuration although its
    // uncommented base is has a defect of its own ('any'); nothing is attributed to the base then
    let own_any = |prog: usize, fails: &[Fail]| -> bool {
        !do12 && fails.iter().any(|f| f.cfg == 0) && !plain_sig.contains_key(&(prog, 0, String::new()))
    };

    // ---- bound-1 signatures
    let mut rows: Vec<Row> = vec![];
    let mut row_fails: Vec<Vec<(usize, String)>> = vec![]; // (index into fails, tag)
    let mut emit: Vec<(String, usize, usize)> = vec![]; // (sig, item, fail index)
    for (ii, (item, out)) in items.iter().zip(outs.iter()).enumerate() {
        if !out.parsed || plain_of[item.prog] == ii {
            if out.parsed {
                for (fi, f) in out.fails.iter().enumerate() {
                    if let Some(sig) = explained_by_plain(item.prog, f, &cfgs) {
                        emit.push((sig, ii, fi));
                    }
                }
            }
            continue;
        }
        let mut residual: Vec<usize> = vec![];
        let own = own_any(item.prog, &out.fails);
        for (fi, f) in out.fails.iter().enumerate() {
            match if own { None } else { explained_by_plain(item.prog, f, &cfgs) } {
                Some(sig) => {
                    ctx.count("failing_clauses_explained_by_the_uncommented_program");
                    emit.push((sig, ii, fi));
                }
                None => residual.push(fi),
            }
        }
        let fr: Vec<&Fail> = residual.iter().map(|fi| &out.fails[*fi]).collect();
        let tags = tags_of(&fr, &cfgs);
        let lab = &item.labs[0];
        if lab.ckind == "none" {
            for (fi, t) in residual.iter().zip(tags.iter()) {
                emit.push((format!("{}:file:{}:none:{}", prefix, lab.after, t), ii, *fi));
            }
            continue;
        }
        rows.push(Row {
            item: ii,
            construct: lab.construct.clone(),
            before: lab.before.clone(),
            after: lab.after.clone(),
            ckind: lab.ckind.to_string(),
            eligible: if do12 { true } else { out.survives },
        });
        row_fails.push(residual.into_iter().zip(tags.into_iter()).collect());
    }
    let row_tags: Vec<BTreeSet<String>> = row_fails.iter().map(|v| v.iter().map(|(_, t)| t.clone()).collect()).collect();
    let row_sigs = wildcard_signatures(&rows, &row_tags);
    // (prog, terminal, comment kind) -> tag -> signature, for the pairs
    let mut single_sig: HashMap<(usize, usize, usize), BTreeMap<String, String>> = HashMap::new();
    // (slot label, tag) -> signature of a single-comment program with that label (any program)
    let mut label_sig: HashMap<(String, String), String> = HashMap::new();
    for (ri, row) in rows.iter().enumerate() {
        let item = &items[row.item];
        let mut m = BTreeMap::new();
        for (fi, t) in &row_fails[ri] {
            let sig = format!("{}:{}:{}", prefix, row_sigs[ri][t], t);
            m.insert(t.clone(), sig.clone());
            emit.push((sig, row.item, *fi));
        }
        for (t, sig) in &m {
            label_sig.entry((item.labs[0].s(), t.clone())).or_insert_with(|| sig.clone());
        }
        if let Some(k) = item.keys.first() {
            single_sig.insert((item.prog, k.0, k.1), m);
        }
    }
    ctx.set("single_comment_programs_eligible_for_wildcards", json!(rows.iter().filter(|r| r.eligible).count()));
    for (sig, ii, fi) in emit {
        let f = &outs[ii].fails[fi];
        if !do12 {
            ctx.count(&format!("shape:{}:{}", sig, f.verdict));
        }
        if std::env::var("VERIF_C12_DUMP").ok().as_deref() == Some(f.verdict.as_str()) {
            eprintln!("DUMP {} {:?} {}", sig, items[ii].text, f.what);
        }
        ctx.finding(Finding::new(sig, f.what.clone(), case_json(&items[ii].text, &progs[items[ii].prog].name, &cfgs[f.cfg])));
    }
    // texts for the projects of clause 5
    let pool: Vec<String> = items
        .iter()
        .zip(outs.iter())
        // (programs with imports of their own would import files the project does not have)
        .filter(|(it, o)| o.parsed && it.keys.len() == 1 && !it.text.to_lowercase().contains(".import"))
        .map(|(it, _)| it.text.clone())
        .collect();
    drop(outs);

    // ---- bound 2 (thorough): all pairs of comment slots at most 6 terminals apart, quick configurations
    if thorough {
        ctx.set("configurations_for_pairs", json!(quick_cfgs.len()));
        let mut pairs: Vec<Item> = vec![];
        for (pi, r) in rendered.iter().enumerate() {
            let slots = comment_slots(r);
            for a in 0..slots.len() {
                for b in a + 1..slots.len() {
                    if slots[b].0 - slots[a].0 > 6 {
                        break;
                    }
                    if slots[a].0 == slots[b].0 && replaces_separator(slots[a].1) && replaces_separator(slots[b].1) {
                        // both would replace the same separator
                        continue;
                    }
                    let text = r.layout(&[comment_dev(slots[a], 0), comment_dev(slots[b], 1)]).text;
                    pairs.push(Item {
                        prog: pi,
                        text,
                        labs: vec![slot_lab(r, slots[a].0, slots[a].1), slot_lab(r, slots[b].0, slots[b].1)],
                        keys: vec![slots[a], slots[b]],
                    });
                }
            }
        }
        ctx.set("pair_programs", json!(pairs.len()));
        pairs.par_iter().for_each(|item| {
            let out = eval_item(item, &quick_cfgs);
            if !out.parsed {
                return;
            }
            let mut residual: Vec<&Fail> = vec![];
            let own = own_any(item.prog, &out.fails);
            for f in &out.fails {
                match if own { None } else { explained_by_plain(item.prog, f, &quick_cfgs) } {
                    Some(sig) => {
                        ctx.count("failing_clauses_explained_by_the_uncommented_program");
                        ctx.finding(Finding::new(sig, f.what.clone(), case_json(&item.text, &progs[item.prog].name, &quick_cfgs[f.cfg])));
                    }
                    None => residual.push(f),
                }
            }
            let tags = tags_of(&residual, &quick_cfgs);
            for (f, t) in residual.iter().zip(tags.iter()) {
                let of = |k: &(usize, usize)| single_sig.get(&(item.prog, k.0, k.1));
                let exact = item.keys.iter().filter_map(|k| of(k).and_then(|m| m.get(t))).next();
                let any = item.keys.iter().filter_map(|k| of(k).and_then(|m| m.values().next())).next();
                // the same kind of slot failing the same way in another program
                let same_label = item.labs.iter().filter_map(|l| label_sig.get(&(l.s(), t.clone()))).next();
                let exact = exact.or(same_label);
                let sig = match (exact, any) {
                    (Some(s), _) => {
                        ctx.count("pair_failures_explained_by_a_single_comment");
                        s.clone()
                    }
                    (None, Some(s)) if !do12 => {
                        ctx.count("pair_failures_explained_by_a_single_comment");
                        s.clone()
                    }
                    _ => format!("{}:pair:{}&{}:{}", prefix, item.labs[0].s(), item.labs[1].s(), t),
                };
                if !do12 {
                    ctx.count(&format!("shape:{}:{}", sig, f.verdict));
                }
                ctx.finding(Finding::new(sig, f.what.clone(), case_json(&item.text, &progs[item.prog].name, &quick_cfgs[f.cfg])));
            }
        });
        ctx.set("wall_s_after_pairs", json!(ctx.wall()));
    }
    ctx.set("comment_bound", json!(if thorough { 2 } else { 1 }));

    // ---- clause 5: the real binary
    if do12 && !cli_oracle(ctx, &pool, if thorough { 500 } else { 50 }, &full_product) {
        return 2;
    }

    let product = if use_full { "full product of 960 configurations" } else { "default + 13 one-factor deviations" };
    let rule = format!(
        "programs = valid base programs (C08 set incl. every statement form of the C01 catalogue + 4 formatter shapes: long labels, label runs, empty blocks, mixed statement kinds) x {{11 whole-file variants (plain, blank lines, indentation, leading/trailing blank lines, CRLF, 4 comments before end of file), one comment at every trivia slot: `/* c1 */` at ws slots; at mws slots also `// c2`, a two-line block comment and, where the slot holds a line break, a line / block comment ending the previous line}} x {}{}; every program that parses without diagnostics is formatted under every configuration. {} non-trivial = distinct (program, formatter output) pair whose output differs from the input{}. Signatures: a failure also shown by the uncommented program under the same configuration is attributed to it (construct = smallest statements failing alone); a component of a slot signature is `*` when every enumerated program matching the rest fails the same way (at least two values enumerated)",
        product,
        if thorough { "; all pairs of comment slots <= 6 terminals apart (distinct texts) x the 14 quick configurations" } else { "" },
        if do12 {
            "Oracle: formatted text parses without diagnostics; code token string (own lexer, case folded) equal; segment bytes, symbols and normalised diagnostics equal; whitespace-normalised comment sequence equal; `mos format` (real binary) on 1-3-file projects leaves exactly the in-process formatter's text in every file, and the original bytes in all files when one file has a parse error."
        } else {
            "Oracle: parse(format(p)) formatted again with the same configuration gives the same text (a third application classifies settles / two-cycle / drift)."
        },
        if do12 { " (plus every executed `mos format` project)" } else { "" }
    );
    ctx.finish(
        "exploration",
        &rule,
        true,
        &[
            "trivia slots are those of the harness grammar (derived by reading the parser); programs whose commented text does not parse without diagnostics are outside the quantifier and only counted",
            "one comment per program (quick), two within 6 terminals (thorough, 14 configurations only)",
            "comment texts are compared after collapsing whitespace; code tokens after ASCII case folding; diagnostics without positions",
            "C13 takes no verdict when format(p) does not parse (that is C12's clause 1); for wildcards in C13 signatures only programs whose comment survives formatting count as enumerated",
            "clause 5 compares file contents only; the exit status of `mos format` is counted, not judged",
        ],
    )
}
