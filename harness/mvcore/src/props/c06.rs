//! C06 – every input terminates cleanly: no crash, no hang, output or located diagnostics.
//!
//! Pipeline per text: parse -> codegen as `mos build` configures it (only when the parse is
//! clean, as the CLI does) -> codegen in the language server's configuration (greedy analysis, run
//! on every tree, also with parse errors, as the server does) -> bank images -> format -> listing (1 and 8 bytes
//! per line). Non-termination is decided deterministically with the pass observer (hook H1): a
//! recurring block of pass digests = cycle; fuel exhausted = unbounded work.

use crate::probe::{self, diags_of, Diag, Opts, Stop};
use crate::textspace::{self, Item};
use mos_core::formatting::{format, FormattingOptions};
use mos_core::io::to_listing;
use mos_core::parser::parse;
use mvlib::grammar::*;
use mvlib::isa::Form;
use mvlib::panics::guard;
use mvlib::{fnv_str, Ctx, Finding};
use rayon::prelude::*;
use serde_json::{json, Value};
use std::path::Path;
use std::process::Command;

#[derive(Debug, Default, Clone)]
pub struct Outcome {
    /// (stage, signature, detail)
    pub problems: Vec<(String, String, String)>,
    pub caps: Vec<String>,
    pub parse_clean: bool,
    pub built: bool,
}

fn check_locations(stage: &str, diags: &[Diag], files: &[(String, String)], out: &mut Outcome) {
    for d in diags {
        if let Some((file, line, _col, eline, _ecol)) = &d.loc {
            let name = Path::new(file)
                .file_name()
                .map(|n| n.to_string_lossy().to_string())
                .unwrap_or_default();
            match files.iter().find(|(n, _)| *n == name) {
                None => out.problems.push((
                    stage.into(),
                    "location:unknown-file".into(),
                    format!("diagnostic {:?} points into {:?} which is not a file of the project", d.message, file),
                )),
                Some((_, text)) => {
                    let lines = text.split('\n').count().max(1);
                    if *line >= lines || *eline >= lines + 1 {
                        out.problems.push((
                            stage.into(),
                            "location:beyond-file".into(),
                            format!("diagnostic {:?} at line {} of a {}-line file", d.message, line + 1, lines),
                        ));
                    }
                }
            }
        }
    }
}

/// Runs the whole pipeline on one project (first file = entry).
pub fn pipeline(files: &[(String, String)], fuel: i64) -> Outcome {
    let mut out = Outcome::default();
    crate::util::watchdog::enter(&files[0].1, "parse");
    let out2 = pipeline_inner(files, fuel, &mut out);
    crate::util::watchdog::leave();
    let _ = out2;
    out
}

fn pipeline_inner(files: &[(String, String)], fuel: i64, out: &mut Outcome) {
    let src = textspace::by_name(files);
    let main = files[0].0.clone();
    let parsed = guard(move || {
        let (tree, errs) = parse(Path::new(&main), src);
        let d = diags_of(&errs);
        (tree, d)
    });
    let (tree, pdiags) = match parsed {
        Ok(x) => x,
        Err(p) => {
            out.problems.push(("parse".into(), format!("panic:{}", p.site), p.message));
            return;
        }
    };
    check_locations("parse", &pdiags, files, out);
    out.parse_clean = pdiags.is_empty();
    let tree = match tree {
        Some(t) => t,
        None => {
            if pdiags.is_empty() {
                out.problems.push(("parse".into(), "silent:no-tree".into(), "no tree and no diagnostic".into()));
            }
            return;
        }
    };
    for (stage, greedy, pc) in [("codegen-build", false, 0x2000usize), ("codegen-lsp", true, 0xc000)] {
        crate::util::watchdog::stage(stage);
        if !greedy && !pdiags.is_empty() {
            // `mos build` stops after a parse error
            continue;
        }
        let opts = Opts {
            pc,
            greedy,
            move_macro: false,
            keep_ctx: true,
            fuel,
            max_passes: 64,
            ..Default::default()
        };
        match probe::codegen_tree(tree.clone(), &opts) {
            Err(p) => out.problems.push((stage.into(), format!("panic:{}", p.site), p.message)),
            Ok(g) => {
                match g.stop {
                    Stop::None => {}
                    Stop::Cycle { first, again } => out.problems.push((
                        stage.into(),
                        "cycle".into(),
                        format!("pass states {}.. recur from pass {} on: the pass loop never terminates", first, again),
                    )),
                    Stop::Fuel => out.problems.push((
                        stage.into(),
                        "fuel".into(),
                        format!("more than {} tokens emitted for a tiny input", fuel),
                    )),
                    Stop::PassBudget(n) => out.caps.push(format!("{}: still changing after {} passes, no cycle seen", stage, n)),
                }
                if g.stop != Stop::None {
                    continue;
                }
                check_locations(stage, &g.diags, files, out);
                if g.diags.is_empty() {
                    match &g.ctx {
                        None => out.problems.push((stage.into(), "silent:no-binary".into(), "no diagnostics and no code".into())),
                        Some(ctx) => {
                            if !greedy {
                                out.built = true;
                            }
                            if !greedy {
                                // what `mos build` does next: the segments are merged into the bank images
                                crate::util::watchdog::stage("bank-images");
                                let r = guard(|| {
                                    let mut bw = mos_core::io::BinaryWriter {};
                                    bw.merge_segments(ctx).map(|b| b.len()).map_err(|e| diags_of(&e))
                                });
                                match r {
                                    Err(p) => out.problems.push(("bank-images".into(), format!("panic:{}", p.site), p.message)),
                                    Ok(Err(d)) => {
                                        out.built = false;
                                        if d.is_empty() {
                                            out.problems.push(("bank-images".into(), "silent:no-binary".into(), "merging the segments failed without a diagnostic".into()));
                                        }
                                        check_locations("bank-images", &d, files, out)
                                    }
                                    Ok(Ok(_)) => {}
                                }
                            }
                            crate::util::watchdog::stage("listing");
                            for n in [1usize, 8] {
                                let r = guard(|| to_listing(ctx, n).map(|m| m.len()).map_err(|e| diags_of(&e)));
                                match r {
                                    Err(p) => out.problems.push((format!("listing-{}", n), format!("panic:{}", p.site), p.message)),
                                    Ok(Err(d)) => check_locations("listing", &d, files, out),
                                    Ok(Ok(_)) => {}
                                }
                            }
                        }
                    }
                }
            }
        }
    }
    crate::util::watchdog::stage("format");
    if pdiags.is_empty() {
        let t = tree.clone();
        let names: Vec<std::path::PathBuf> = tree.files.keys().cloned().collect();
        for name in names {
            let t2 = t.clone();
            let r = guard(move || format(name, t2, FormattingOptions::default()).len());
            if let Err(p) = r {
                out.problems.push(("format".into(), format!("panic:{}", p.site), p.message));
            }
        }
    }
}

/// Signature of a pipeline problem: a panic is identified by its site alone (stage and input
/// family go into the description); non-termination by the construct family.
fn problem_sig(sig: &str, stage: &str, family: &str) -> String {
    if sig.starts_with("panic:") {
        sig.to_string()
    } else if sig == "fuel" || sig == "cycle" {
        format!("{}:{}", sig, family)
    } else {
        format!("{}@{}", sig, stage)
    }
}

fn report(ctx: &Ctx, origin: &str, files: &[(String, String)], out: &Outcome) {
    for c in &out.caps {
        ctx.count("pass_budget_cap");
        let _ = c;
    }
    for (stage, sig, detail) in &out.problems {
        let fm: serde_json::Map<String, Value> = files.iter().map(|(n, t)| (n.clone(), json!(t))).collect();
        ctx.finding(Finding::new(
            problem_sig(sig, stage, origin),
            format!("{}: {} — input {:?}", stage, detail, files[0].1),
            json!({"kind": "pipeline", "origin": origin, "entry": files[0].0, "files": fm}),
        ));
    }
    ctx.count(if out.built {
        "built"
    } else if out.parse_clean {
        "parse_clean_rejected"
    } else {
        "parse_diagnosed"
    });
}

fn run_item(ctx: &Ctx, item: &Item, fuel: i64) {
    let mut files = vec![("main.asm".to_string(), item.text.to_string())];
    files.extend(item.side.iter().cloned());
    ctx.eval(|| json!(item.text));
    let out = pipeline(&files, fuel);
    if out.parse_clean {
        ctx.nontrivial(fnv_str(item.text));
    }
    report(ctx, item.origin, &files, &out);
}

fn int_values() -> Vec<String> {
    let mut v: Vec<String> = vec![
        "0", "1", "2", "255", "256", "65535", "65536", "2147483648", "4294967296",
        "9223372036854775807", "0-1", "0-2", "0-256", "0-9223372036854775807", "0-9223372036854775807-1",
        "$7fffffffffffffff", "$ffffffffffffffff", "%1111111111111111111111111111111111111111111111111111111111111111",
        "63", "64", "65", "0-64",
    ]
    .into_iter()
    .map(String::from)
    .collect();
    for digits in [20usize, 40, 100] {
        v.push("9".repeat(digits));
        v.push(format!("${}", "f".repeat(digits)));
        v.push(format!("%{}", "1".repeat(digits)));
    }
    v
}

fn int_programs() -> Vec<(String, String)> {
    let vals = int_values();
    let mut out = vec![];
    for n in &vals {
        for (k, t) in [
            ("align", format!("nop\n.align {}\nnop", n)),
            ("loop-empty", format!(".loop {} {{ }}", n)),
            ("loop-nop", format!(".loop {} {{ nop }}", n)),
            ("pcset", format!("* = {}\nnop", n)),
            ("shl", format!(".dword 1 << {}", n)),
            ("shr", format!(".dword 1 >> ({})", n)),
            ("byte", format!(".byte {}", n)),
            ("imm", format!("lda #{}", n)),
            ("abs", format!("lda {}", n)),
            ("neg", format!(".dword -({})", n)),
            ("mul", format!(".dword ({}) * ({})", n, n)),
            ("add", format!(".dword ({}) + ({})", n, n)),
            ("seg-start", format!(".define segment {{ name = \"s\" start = {} }}\nnop", n)),
            ("seg-pc", format!(".define segment {{ name = \"s\" start = $1000 pc = {} }}\nl: jmp l", n)),
            ("bank-size", format!(".define bank {{ name = \"b\" size = {} fill = 0 }}\n.define segment {{ name = \"s\" start = $1000 bank = \"b\" }}\nnop", n)),
            ("bank-fill", format!(".define bank {{ name = \"b\" size = 4 fill = {} }}\n.define segment {{ name = \"s\" start = $1000 bank = \"b\" }}\nnop", n)),
            ("if", format!(".if {} {{ nop }} else {{ brk }}", n)),
        ] {
            out.push((k.to_string(), t));
        }
        for m in &vals {
            out.push(("div".into(), format!(".dword ({}) / ({})", m, n)));
            out.push(("mod".into(), format!(".dword ({}) % ({})", m, n)));
        }
    }
    // names
    for name in ["a.b", "a b", "", "1a", "-", "super", "a-b", "é"] {
        out.push(("segment-name".into(), format!(".define segment {{ name = \"{}\" start = $1000 }}\nnop", name)));
        out.push(("bank-name".into(), format!(".define bank {{ name = \"{}\" }}\nnop", name)));
        out.push(("test-name".into(), format!(".test \"{}\" {{ brk }}", name)));
        out.push(("segment-use".into(), format!(".segment \"{}\" {{ nop }}", name)));
    }
    out
}

/// (d) convergence stress.
fn stress_programs() -> Vec<(String, Vec<Stmt>)> {
    let mut out = vec![];
    // anti-monotone operand at the zero-page boundary
    for base in ["$00fc", "$00fd", "$00fe", "$00ff"] {
        for k in 0..4 {
            let mut p = vec![Stmt::PcSet(lit(base))];
            for _ in 0..=k {
                p.push(ins("lda", Form::Plain, bin(lit("$200"), "-", id("fwd"))));
            }
            p.push(label("fwd"));
            p.push(imp("nop"));
            out.push(("anti-monotone".to_string(), p));
        }
    }
    // mutually dependent segment starts
    for n in 2..=3 {
        let names = ["sa", "sb", "sc"];
        let mut p = vec![];
        for i in 0..n {
            p.push(Stmt::Define {
                kind: "segment",
                pairs: vec![
                    ("name".into(), string(names[i])),
                    ("start".into(), id(&format!("segments.{}.end", names[(i + 1) % n]))),
                ],
            });
        }
        for i in 0..n {
            p.push(Stmt::Segment {
                name: string(names[i]),
                block: Some(vec![imp("nop")]),
            });
        }
        out.push(("segment-cycle".to_string(), p));
    }
    // forward branches slightly out of / in range, nested in loops
    for pad in 120..=132 {
        for loops in 1..=2 {
            let mut body = vec![ins("bne", Form::Plain, id("fwd"))];
            for _ in 0..pad {
                body.push(imp("nop"));
            }
            let mut inner = Stmt::Braces(vec![
                Stmt::Loop { count: num(loops), body: vec![Stmt::Braces(vec![ins("beq", Form::Plain, id("+")), imp("nop")])] },
            ]);
            for _ in 1..loops {
                inner = Stmt::Loop { count: num(2), body: vec![inner] };
            }
            let mut p = body;
            p.push(inner);
            p.push(label("fwd"));
            p.push(imp("rts"));
            out.push(("near-limit-branch".to_string(), p));
        }
    }
    // two segments of one bank whose written ranges relate in every way (disjoint, adjacent, overlapping, one
    // enclosing the other, equal), in both definition orders; the second range made with a pc assignment
    {
        let ranges: [(i64, i64); 6] = [(0x1000, 0x1004), (0x1004, 0x1008), (0x1002, 0x1006), (0x0ff0, 0x1010), (0x1001, 0x1003), (0x2000, 0x2002)];
        for (ai, a) in ranges.iter().enumerate() {
            for (bi, b) in ranges.iter().enumerate() {
                let seg = |name: &str, r: &(i64, i64)| -> Vec<Stmt> {
                    vec![
                        Stmt::Define { kind: "segment", pairs: vec![("name".into(), string(name)), ("start".into(), hex(r.0))] },
                    ]
                };
                let body = |name: &str, r: &(i64, i64)| -> Stmt {
                    // first and last byte of the range are written, the program counter jumps in between
                    Stmt::Segment {
                        name: string(name),
                        block: Some(vec![byte(vec![num(1)]), Stmt::PcSet(hex(r.1 - 1)), byte(vec![num(2)])]),
                    }
                };
                let mut p = seg("sa", a);
                p.extend(seg("sb", b));
                p.push(body("sa", a));
                p.push(body("sb", b));
                let _ = (ai, bi);
                out.push(("segment-ranges".to_string(), p));
            }
        }
    }
    // a segment whose first byte is not at its configured start (pc moved up / down first), a segment that stays
    // empty, a segment name that is defined twice
    for (start, first) in [(0x0000i64, 0x0002i64), (0x1000, 0x1010), (0x1000, 0x0ff0), (0x0002, 0x0000)] {
        out.push((
            "segment-first-byte".to_string(),
            vec![
                Stmt::Define { kind: "segment", pairs: vec![("name".into(), string("z")), ("start".into(), hex(start))] },
                Stmt::Segment { name: string("z"), block: Some(vec![Stmt::PcSet(hex(first)), imp("nop"), ins("lda", Form::Plain, id("segments.z.start"))]) },
            ],
        ));
    }
    out.push((
        "segment-defined-twice".to_string(),
        vec![
            Stmt::Define { kind: "segment", pairs: vec![("name".into(), string("z")), ("start".into(), hex(0x1000))] },
            Stmt::Define { kind: "segment", pairs: vec![("name".into(), string("z")), ("start".into(), hex(0x2000))] },
            Stmt::Segment { name: string("z"), block: Some(vec![imp("nop")]) },
        ],
    ));
    out.push((
        "segment-empty".to_string(),
        vec![
            Stmt::Define { kind: "segment", pairs: vec![("name".into(), string("a")), ("start".into(), hex(0x1000))] },
            Stmt::Define { kind: "segment", pairs: vec![("name".into(), string("z")), ("start".into(), hex(0x3000))] },
            Stmt::Segment { name: string("a"), block: Some(vec![ins("lda", Form::Plain, id("segments.z.start")), ins("ldx", Form::Plain, id("segments.z.end"))]) },
        ],
    ));
    // label whose position depends on a conditional that depends on the label
    for t in ["$2003", "$2004", "$2005"] {
        out.push((
            "self-dependent-if".to_string(),
            vec![
                Stmt::If { cond: bin(id("l"), "==", lit(t)), then: vec![imp("nop")], els: None },
                ins("jmp", Form::Plain, id("l")),
                label("l"),
            ],
        ));
        out.push((
            "self-dependent-loop".to_string(),
            vec![
                Stmt::Loop {
                    count: bin(paren(bin(id("l"), "==", lit(t))), "+", num(1)),
                    body: vec![imp("nop")],
                },
                ins("jmp", Form::Plain, id("l")),
                label("l"),
            ],
        ));
    }
    out
}

/// (f) structural nests: every nest of block constructs up to `depth` around a leaf, each level
/// followed by a statement of its own (`W { <inner> nop }`), plus self- and mutually recursive macros.
fn nest_programs(depth: usize) -> Vec<(String, String)> {
    const WRAPPERS: [(&str, &str, &str); 14] = [
        ("if0", ".if 0 {", "}"),
        ("if1", ".if 1 {", "}"),
        ("if0-else", ".if 0 { inx } else {", "}"),
        ("if1-else", ".if 1 { inx } else {", "}"),
        ("if-undefined", ".if undefined_q {", "}"),
        ("segment", ".segment \"default\" {", "}"),
        ("braces", "{", "}"),
        ("label-block", "lb@: {", "}"),
        ("loop2", ".loop 2 {", "}"),
        ("loop0", ".loop 0 {", "}"),
        ("macro-invoked", ".macro mi@() {", "}\nmi@()"),
        ("macro-uninvoked", ".macro mu@() {", "}"),
        ("test", ".test \"t@\" {", "}"),
        ("import-block", ".import * from \"other.asm\" {", "}"),
    ];
    const LEAVES: [(&str, &str); 3] = [("nop", "nop"), ("undefined", "lda undefined_q"), ("branch", "bne -")];
    let mut out = vec![];
    let n = WRAPPERS.len();
    for d in 1..=depth {
        for code in 0..n.pow(d as u32) {
            let mut c = code;
            let mut ws = vec![];
            for _ in 0..d {
                ws.push(c % n);
                c /= n;
            }
            for (ln, leaf) in LEAVES.iter() {
                let mut text = String::new();
                for (i, w) in ws.iter().enumerate() {
                    text.push_str(&WRAPPERS[*w].1.replace('@', &i.to_string()));
                    text.push('\n');
                }
                text.push_str(leaf);
                text.push('\n');
                for (i, w) in ws.iter().enumerate().rev() {
                    text.push_str(&WRAPPERS[*w].2.replace('@', &i.to_string()));
                    text.push_str("\nnop\n");
                }
                let kind = format!("nest:{}:{}", ws.iter().map(|w| WRAPPERS[*w].0).collect::<Vec<_>>().join("/"), ln);
                out.push((kind, text));
            }
        }
    }
    // names the assembler generates or uses itself, taken by the user; functions inside their own arguments
    for (k, t) in [
        ("generated-name:segments-start", "segments: { default: { start: nop } }"),
        ("generated-name:segments-end", "segments: { default: { end: nop } }\nlda segments.default.end"),
        ("generated-name:segments-label", "segments: nop\nlda segments.default.start"),
        ("generated-name:segments-const", ".const segments = 1\nnop"),
        ("generated-name:dummy-segment", ".define segment {\nname = \"$dummy\"\nstart = $1000\n}\n.if 0 { nop }\nnop\n.if 0 { .if 0 { nop } }\nnop"),
        ("generated-name:brace-dummy-segment", ".define segment {\nname = \"dummy\"\nstart = $1000\n}\n.if 0 { nop }\nnop"),
        ("generated-name:scope", "$scope_1: nop\n{ nop }"),
        ("generated-name:index", ".const index = 5\n.loop 2 { lda #index }"),
        ("generated-name:minus", ".loop 2 { - : nop }"),
        ("function-nesting:defined-defined", ".byte defined(defined(x))"),
        ("function-nesting:if-defined-defined", ".if defined(defined(u)) { nop }\nrts"),
        ("function-nesting:defined-of-call", ".byte defined(nofn(1))"),
        ("function-nesting:three", ".byte defined(defined(defined(1)))"),
    ] {
        out.push((k.to_string(), t.to_string()));
    }
    // recursive macros: k self-invocations, unguarded / guarded by a parameter that counts down /
    // guarded by a condition that never turns false; direct and mutual; invoked once or twice
    for k in 1..=3 {
        let calls = |name: &str, arg: &str| (0..k).map(|_| format!("{}({})", name, arg)).collect::<Vec<_>>().join("\n");
        for top in 1..=2 {
            let tops = |inv: &str| (0..top).map(|_| inv.to_string()).collect::<Vec<_>>().join("\n");
            out.push((format!("macro-recursion:self{}x{}", k, top), format!(".macro m() {{\n{}\n}}\n{}\n", calls("m", ""), tops("m()"))));
            out.push((
                format!("macro-recursion:countdown{}x{}", k, top),
                format!(".macro m(p) {{\n.if p > 0 {{\nnop\n{}\n}}\n}}\n{}\n", calls("m", "p - 1"), tops("m(3)")),
            ));
            out.push((
                format!("macro-recursion:always{}x{}", k, top),
                format!(".macro m(p) {{\n.if p < 9 {{\nnop\n{}\n}}\n}}\n{}\n", calls("m", "p - 1"), tops("m(3)")),
            ));
            out.push((
                format!("macro-recursion:mutual{}x{}", k, top),
                format!(".macro a() {{\n{}\n}}\n.macro b() {{\n{}\n}}\n{}\n", calls("b", ""), calls("a", ""), tops("a()")),
            ));
            out.push((format!("macro-recursion:uninvoked{}x{}", k, top), format!(".macro m() {{\n{}\n}}\nnop\n", calls("m", ""))));
        }
    }
    out
}

/// Imports spelled with dot segments (`"./f1.asm"`) name the same files.
static DOTTED: std::sync::atomic::AtomicBool = std::sync::atomic::AtomicBool::new(false);

fn graph_files(n: usize, code: u64, with_missing: bool) -> Vec<(String, String)> {
    let dotted = DOTTED.load(std::sync::atomic::Ordering::SeqCst);
    // bit (i * width + j): file i imports file j; j == n means the missing file
    let width = if with_missing { n + 1 } else { n };
    let mut files = vec![];
    for i in 0..n {
        let mut text = String::new();
        for j in 0..width {
            if code >> (i * width + j) & 1 == 1 {
                if j == n {
                    text.push_str(".import * from \"missing.asm\"\n");
                } else {
                    text.push_str(&format!(".import * as ns{} from \"{}f{}.asm\"\n", j, if dotted { "./" } else { "" }, j));
                }
            }
        }
        text.push_str(&format!("l{}: nop\n", i));
        files.push((format!("f{}.asm", i), text));
    }
    files
}

fn graph_class(n: usize, code: u64, with_missing: bool) -> String {
    let width = if with_missing { n + 1 } else { n };
    let edge = |i: usize, j: usize| code >> (i * width + j) & 1 == 1;
    // reachable from f0
    let mut reach = vec![false; n];
    let mut stack = vec![0usize];
    reach[0] = true;
    while let Some(i) = stack.pop() {
        for j in 0..n {
            if edge(i, j) && !reach[j] {
                reach[j] = true;
                stack.push(j);
            }
        }
    }
    let self_loop = (0..n).any(|i| reach[i] && edge(i, i));
    // cycle among reachable
    let mut cyc = false;
    for s in 0..n {
        if !reach[s] {
            continue;
        }
        let mut seen = vec![false; n];
        let mut st: Vec<usize> = (0..n).filter(|j| edge(s, *j)).collect();
        while let Some(i) = st.pop() {
            if i == s {
                cyc = true;
                break;
            }
            if seen[i] {
                continue;
            }
            seen[i] = true;
            for j in 0..n {
                if edge(i, j) {
                    st.push(j);
                }
            }
        }
    }
    if self_loop {
        "self-import".into()
    } else if cyc {
        "import-cycle".into()
    } else {
        "acyclic".into()
    }
}

/// Children run the pipeline on a 4 MiB thread: a runaway recursion then overflows quickly
/// (the process aborts, which the parent classifies) instead of crawling through a deep stack.
fn on_small_stack(files: Vec<(String, String)>) -> Outcome {
    std::thread::Builder::new()
        .stack_size(4 * 1024 * 1024)
        .spawn(move || pipeline(&files, 300_000))
        .unwrap()
        .join()
        .unwrap_or_default()
}

/// Child mode: `mvcore C06 --graph n code missing` – prints one JSON line.
fn graph_child(n: usize, code: u64, with_missing: bool) -> i32 {
    let files = graph_files(n, code, with_missing);
    let out = on_small_stack(files);
    let probs: Vec<Value> = out
        .problems
        .iter()
        .map(|(a, b, c)| json!([a, b, c]))
        .collect();
    println!("{}", json!({"problems": probs, "built": out.built, "parse_clean": out.parse_clean}));
    0
}

/// Child mode: `mvcore C06 --text <program>` – prints one JSON line.
fn text_child(text: &str) -> i32 {
    let files = vec![
        ("main.asm".to_string(), text.to_string()),
        ("other.asm".to_string(), mvlib::progs::OTHER_ASM.to_string()),
    ];
    let out = on_small_stack(files);
    let probs: Vec<Value> = out
        .problems
        .iter()
        .map(|(a, b, c)| json!([a, b, c]))
        .collect();
    println!("{}", json!({"problems": probs, "built": out.built, "parse_clean": out.parse_clean, "caps": out.caps}));
    0
}

/// Runs one single-file program in a child process (allocation failure and stack overflow
/// abort the process and cannot be caught in-process).
fn run_isolated(ctx: &Ctx, origin: &str, kind: &str, text: &str) {
    let exe = std::env::current_exe().unwrap();
    ctx.eval(|| json!(text));
    ctx.nontrivial(fnv_str(text));
    let case = json!({"kind": "pipeline", "origin": origin, "entry": "main.asm", "files": {"main.asm": text}});
    match Command::new(&exe).arg("C06").arg("--text").arg(text).output() {
        Err(e) => ctx.cap(format!("cannot spawn child: {}", e)),
        Ok(o) => {
            if !o.status.success() {
                use std::os::unix::process::ExitStatusExt;
                let err = String::from_utf8_lossy(&o.stderr);
                let why = if err.contains("overflowed its stack") {
                    "stack-overflow"
                } else if err.contains("memory allocation of") {
                    "allocation-failure"
                } else if o.status.code() == Some(3) {
                    "hang"
                } else {
                    "abnormal-exit"
                };
                ctx.finding(Finding::new(
                    format!("abort:{}:{}", why, kind),
                    format!("process died (signal {:?}, status {:?}) on {:?}: {}", o.status.signal(), o.status.code(), text, err.lines().last().unwrap_or("")),
                    case,
                ));
                return;
            }
            let line = String::from_utf8_lossy(&o.stdout);
            if let Ok(v) = serde_json::from_str::<Value>(line.trim()) {
                ctx.count(if v["built"] == true { "isolated_built" } else { "isolated_rejected" });
                for p in v["problems"].as_array().cloned().unwrap_or_default() {
                    ctx.finding(Finding::new(
                        problem_sig(p[1].as_str().unwrap_or("?"), p[0].as_str().unwrap_or("?"), kind),
                        format!("{}: {} — input {:?}", p[0].as_str().unwrap_or(""), p[2].as_str().unwrap_or(""), text),
                        case.clone(),
                    ));
                }
            }
        }
    }
}

fn run_graphs(ctx: &Ctx, n: usize, with_missing: bool) {
    let width = if with_missing { n + 1 } else { n };
    let total: u64 = 1 << (n * width);
    let exe = std::env::current_exe().unwrap();
    (0..total).into_par_iter().for_each(|code| {
        let files = graph_files(n, code, with_missing);
        ctx.eval(|| json!({"import_graph": {"files": n, "code": code}}));
        ctx.nontrivial(fnv_str(&format!("g{}:{}:{}:{}", n, code, with_missing, DOTTED.load(std::sync::atomic::Ordering::SeqCst))));
        let outp = Command::new(&exe)
            .arg("C06")
            .arg("--graph")
            .arg(n.to_string())
            .arg(code.to_string())
            .arg(if with_missing { "1" } else { "0" })
            .arg(if DOTTED.load(std::sync::atomic::Ordering::SeqCst) { "dotted" } else { "plain" })
            .output();
        let fm: serde_json::Map<String, Value> = files.iter().map(|(n, t)| (n.clone(), json!(t))).collect();
        let case = json!({"kind": "pipeline", "origin": "import-graph", "entry": "f0.asm", "files": fm});
        let class = graph_class(n, code, with_missing);
        match outp {
            Err(e) => ctx.cap(format!("cannot spawn child: {}", e)),
            Ok(o) => {
                if !o.status.success() {
                    use std::os::unix::process::ExitStatusExt;
                    let sig = o.status.signal();
                    let err = String::from_utf8_lossy(&o.stderr);
                    let why = if err.contains("overflowed its stack") {
                        "stack-overflow"
                    } else if o.status.code() == Some(3) {
                        "hang"
                    } else {
                        "abnormal-exit"
                    };
                    ctx.finding(Finding::new(
                        format!("abort:{}:{}", why, class),
                        format!("process died (signal {:?}, status {:?}) on an import graph of class {}: {}", sig, o.status.code(), class, err.lines().next().unwrap_or("")),
                        case,
                    ));
                    return;
                }
                let line = String::from_utf8_lossy(&o.stdout);
                if let Ok(v) = serde_json::from_str::<Value>(line.trim()) {
                    ctx.count(&format!("graphs_{}", class));
                    for p in v["problems"].as_array().cloned().unwrap_or_default() {
                        ctx.finding(Finding::new(
                            problem_sig(p[1].as_str().unwrap_or("?"), p[0].as_str().unwrap_or("?"), &class),
                            format!("import graph ({}): {}", class, p[2].as_str().unwrap_or("")),
                            case.clone(),
                        ));
                    }
                }
            }
        }
    });
}

fn real_binary_cases(ctx: &Ctx) {
    let bin = std::env::var("MOS_BIN").unwrap_or_else(|_| "/verif/.build/bin/release/mos".into());
    if !Path::new(&bin).exists() {
        ctx.note("real binary not available: invalid UTF-8 / unreadable / directory-entry cases skipped");
        return;
    }
    let root = ctx.verif_root.join(".build/scratch/c06").join(std::process::id().to_string());
    let cases: Vec<(&str, Box<dyn Fn(&Path)>)> = vec![
        ("invalid-utf8", Box::new(|d: &Path| std::fs::write(d.join("main.asm"), b"lda #1\n\xff\xfe\nnop").unwrap())),
        ("invalid-utf8-import", Box::new(|d: &Path| {
            std::fs::write(d.join("main.asm"), b".import * from \"o.asm\"\nnop").unwrap();
            std::fs::write(d.join("o.asm"), b"\xc3\x28").unwrap();
        })),
        ("entry-is-directory", Box::new(|d: &Path| std::fs::create_dir(d.join("main.asm")).unwrap())),
        ("entry-missing", Box::new(|_d: &Path| {})),
        ("import-is-directory", Box::new(|d: &Path| {
            std::fs::write(d.join("main.asm"), b".import * from \"o.asm\"\nnop").unwrap();
            std::fs::create_dir(d.join("o.asm")).unwrap();
        })),
        ("unreadable", Box::new(|d: &Path| {
            use std::os::unix::fs::PermissionsExt;
            std::fs::write(d.join("main.asm"), b"nop").unwrap();
            std::fs::set_permissions(d.join("main.asm"), std::fs::Permissions::from_mode(0o000)).unwrap();
        })),
        ("bad-toml", Box::new(|d: &Path| {
            std::fs::write(d.join("main.asm"), b"nop").unwrap();
            std::fs::write(d.join("mos.toml"), b"[build\nentry=").unwrap();
        })),
        ("file-directive-missing", Box::new(|d: &Path| std::fs::write(d.join("main.asm"), b".file \"nope.bin\"").unwrap())),
    ];
    for (i, (name, setup)) in cases.iter().enumerate() {
        let dir = root.join(format!("{}", i));
        let _ = std::fs::remove_dir_all(&dir);
        std::fs::create_dir_all(&dir).unwrap();
        setup(&dir);
        for sub in ["build", "format"] {
            ctx.eval(|| json!({"real_binary": name, "subcommand": sub}));
            ctx.nontrivial(fnv_str(&format!("real:{}:{}", name, sub)));
            let o = Command::new(&bin)
                .args(["-e", "Short", "--no-color", sub])
                .current_dir(&dir)
                .output();
            match o {
                Err(e) => ctx.cap(format!("cannot run mos: {}", e)),
                Ok(o) => {
                    use std::os::unix::process::ExitStatusExt;
                    let code = o.status.code();
                    let text = format!("{}{}", String::from_utf8_lossy(&o.stdout), String::from_utf8_lossy(&o.stderr));
                    // root may read 0o000 files: then the build simply succeeds
                    let clean = match code {
                        Some(0) => true,
                        Some(1) => !text.contains("panicked at"),
                        _ => false,
                    };
                    if !clean || o.status.signal().is_some() {
                        ctx.finding(Finding::new(
                            format!("abort:real-binary:{}:{}", name, sub),
                            format!("`mos {}` on {}: status {:?} signal {:?}: {}", sub, name, code, o.status.signal(), text.lines().find(|l| l.contains("panicked")).unwrap_or("")),
                            json!({"kind": "real-binary", "case": name, "subcommand": sub}),
                        ));
                    }
                }
            }
        }
        // restore permissions so the directory can be removed
        use std::os::unix::fs::PermissionsExt;
        let _ = std::fs::set_permissions(dir.join("main.asm"), std::fs::Permissions::from_mode(0o644));
    }
    let _ = std::fs::remove_dir_all(&root);
}

fn start_watchdog() {
    crate::util::watchdog::start(
        30.0,
        Box::new(|text, stage| {
            eprintln!("[c06 hang] stage={} text={:?}", stage, text);
            if let Ok(j) = std::env::var("C06_JOURNAL") {
                use std::io::Write;
                if let Ok(mut f) = std::fs::OpenOptions::new().create(true).append(true).open(j) {
                    let _ = writeln!(f, "{}", json!({"stage": stage, "text": text}));
                }
            }
        }),
    );
}

pub fn run(ctx: &Ctx, replay: Option<&Value>, rest: &[String]) -> i32 {
    if rest.len() >= 2 && rest[0] == "--text" {
        start_watchdog();
        return text_child(&rest[1]);
    }
    if rest.len() >= 4 && rest[0] == "--graph" {
        DOTTED.store(rest.get(4).map(|x| x == "dotted").unwrap_or(false), std::sync::atomic::Ordering::SeqCst);
        start_watchdog();
        return graph_child(rest[1].parse().unwrap(), rest[2].parse().unwrap(), rest[3] == "1");
    }
    if let Some(case) = replay {
        if case["kind"] == "real-binary" {
            println!("real-binary case {}: re-run `./check C06`", case["case"]);
            return 0;
        }
        let entry = case["entry"].as_str().unwrap_or("main.asm").to_string();
        let mut files: Vec<(String, String)> = vec![];
        if let Some(m) = case["files"].as_object() {
            if let Some(t) = m.get(&entry) {
                files.push((entry.clone(), t.as_str().unwrap_or("").to_string()));
            }
            for (k, v) in m {
                if *k != entry {
                    files.push((k.clone(), v.as_str().unwrap_or("").to_string()));
                }
            }
        }
        println!("replaying pipeline on {:?} (a stack overflow will kill this process)", files);
        let out = pipeline(&files, 300_000);
        println!("{:#?}", out);
        return 0;
    }
    let thorough = ctx.tier.is_thorough();
    let fuel = 300_000;
    start_watchdog();
    // (a) text spaces of C05 through the whole pipeline
    let syn = textspace::synthetic_corpus();
    let f = |item: Item| run_item(ctx, &item, fuel);
    textspace::single_edits(&syn, &textspace::edit_chars(thorough), &f);
    ctx.set("after_synthetic_edits", json!(ctx.evals()));
    eprintln!("[c06] synthetic edits done: {} evals, {:.1}s", ctx.evals(), ctx.wall());
    let ex = textspace::example_corpus();
    let small: Vec<_> = ex.iter().filter(|e| thorough || e.name == "ex-unit-testing").cloned().collect();
    if thorough {
        textspace::single_edits(&small, &[')', '}', '{', '\r', '"', '/', '#', '.', '0', 'é'], &f);
    } else {
        textspace::single_edits(&small, &[')', '}', '\r', '"'], &f);
    }
    ctx.set("after_example_edits", json!(ctx.evals()));
    eprintln!("[c06] example edits done: {} evals, {:.1}s", ctx.evals(), ctx.wall());
    textspace::token_strings(if thorough { 4 } else { 3 }, &f);
    textspace::operand_strings(if thorough { 5 } else { 4 }, &f);
    ctx.set("after_token_strings", json!(ctx.evals()));
    eprintln!("[c06] token strings done: {} evals, {:.1}s", ctx.evals(), ctx.wall());
    // (b) integer sweep
    let ints = int_programs();
    ctx.set("integer_programs", json!(ints.len()));
    ints.par_iter().for_each(|(kind, text)| run_isolated(ctx, "integers", kind, text));
    eprintln!("[c06] integers done: {} evals, {:.1}s", ctx.evals(), ctx.wall());
    // (d) convergence stress
    let stress = stress_programs();
    ctx.set("stress_programs", json!(stress.len()));
    stress.par_iter().for_each(|(kind, prog)| run_isolated(ctx, "stress", kind, &program_text(prog)));
    eprintln!("[c06] stress done: {} evals, {:.1}s", ctx.evals(), ctx.wall());
    // (f) structural nests and recursive macros
    let nests = nest_programs(if thorough { 4 } else { 3 });
    ctx.set("nest_programs", json!(nests.len()));
    nests.par_iter().for_each(|(kind, text)| {
        // (the signature keeps the family only: the nest itself is in the replay)
        let family = if kind.starts_with("nest:") {
            "nest"
        } else if kind.starts_with("generated-name:") {
            "generated-name"
        } else if kind.starts_with("function-nesting:") {
            "function-nesting"
        } else {
            "macro-recursion"
        };
        run_isolated(ctx, kind, family, text)
    });
    eprintln!("[c06] nests done: {} evals, {:.1}s", ctx.evals(), ctx.wall());
    // (c) import graphs, one child process per graph (a stack overflow cannot be caught)
    run_graphs(ctx, 2, true);
    run_graphs(ctx, 3, thorough);
    // the same graphs with every import spelled "./fN.asm"
    DOTTED.store(true, std::sync::atomic::Ordering::SeqCst);
    run_graphs(ctx, 2, true);
    run_graphs(ctx, 3, false);
    DOTTED.store(false, std::sync::atomic::Ordering::SeqCst);
    if thorough {
        run_graphs(ctx, 4, false);
    }
    ctx.set("after_import_graphs", json!(ctx.evals()));
    eprintln!("[c06] import graphs done: {} evals, {:.1}s", ctx.evals(), ctx.wall());
    // (e)
    real_binary_cases(ctx);
    ctx.finish(
        "exploration",
        "(a) every single-character edit of the production-covering corpus and (reduced) of the examples, all token strings up to length 3/4, each pushed through parse -> codegen(build) -> codegen(language-server mode) -> format -> listing(1, 8); (b) 17 directive/operator positions x 31 integer arguments incl. 0, negatives, 2^63-1 and literals of 20/40/100 digits in each radix, all pairs for / and %; names with dots/spaces; (c) all import graphs over 2 and 3 files (each file may import any subset incl. itself and a missing file; 4 files without missing file in thorough), also with every import spelled `./name`, one child process per graph; (d) convergence stress programs and all pairs of 6 segment ranges in one bank (disjoint, adjacent, overlapping, enclosing, equal; both orders), followed by the bank image merge; (f) every nest of depth <= 3 (quick) / 4 (thorough) over 14 block constructs (taken / untaken / undefined conditionals, segment, scopes, loops incl. 0 iterations, invoked and uninvoked macros, test, import with block) x 3 leaves, each level followed by a statement of its own, names the assembler generates taken by the user, functions inside their own arguments, and macros that invoke themselves or each other 1-3 times (unguarded, counting down, never ending; invoked once, twice or never); (e) invalid UTF-8 / directory / missing / unreadable files through the real binary. Non-termination is decided by recurring pass-state digests and a fuel counter, never by a clock. non-trivial = distinct input that parses without diagnostics (so that code generation, formatting and listing run) or any import-graph / integer / stress case",
        true,
        &[
            "not all byte strings: single edits of a corpus, short token strings, finite menus",
            "pass budget 64: a run that is still changing without a recurring state is reported as a cap, not a verdict",
            "fuel 300,000 emitted tokens/scopes per assembly pass (a 64 KiB loop of single-byte instructions needs 131,072)",
            "release arithmetic profile (debug-only overflow panics are not verdicts)",
            "a stack overflow in the in-process sweeps would kill the engine (machinery exit); only import graphs are isolated in child processes",
        ],
    )
}
