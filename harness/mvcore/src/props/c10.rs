//! C10 – builds are reproducible.
//!
//! Owned nondeterminism: the seeds of every `RandomState` in the real `mos` process are a harness
//! choice (LD_PRELOAD shim replacing libc's getrandom, VERIF_HASH_SEED). Every project of the
//! enumerated space is built once per seed in a fresh process and a fresh directory; stdout and
//! every file in the target directory must be byte-identical over all seeds.

use mvlib::{fnv_str, Ctx, Finding};
use rayon::prelude::*;
use serde_json::{json, Value};
use std::collections::{BTreeMap, BTreeSet};
use std::path::{Path, PathBuf};
use std::process::Command;

const ALPHABET: [&str; 17] = [
    "lda d",
    "lda u",
    "lda v",
    ".byte u",
    ".byte w",
    "jmp u",
    "nomacro()",
    ".import * from \"f1.asm\"",
    ".import b as bb from \"f1.asm\"",
    ".import * as ns from \"f2.asm\"",
    // several imports per file: more files to discover, and files that do not exist
    ".import * as n3 from \"f3.asm\"",
    ".import * as n4 from \"f4.asm\"",
    ".import * from \"missing1.asm\"",
    ".import * from \"missing2.asm\"",
    "d: nop",
    ".const c = 1",
    "ma(1)",
];

const F1: &str = "a: nop\nb: rts\n.macro ma(p) { lda #p }\n";
const F1_ERR: &str = "a: nop\nb: rts\nlda u\nlda zz\nlda u\n.macro ma(p) { lda #p }\n";
const F2: &str = "x: nop\n.import * as inner from \"f1.asm\"\ny: jmp x\n";
const F3: &str = "p: nop\n";
const F4: &str = "q: nop\n.import * as deep from \"f3.asm\"\n";
/// every imported file has a syntax error of its own (and f4 two imports that cannot be found)
const F1_SYN: &str = "a: nop\nlda #\nb: rts\n.macro ma(p) { lda #p }\n";
const F2_SYN: &str = "x: nop\n.import * as inner from \"f1.asm\"\n.byte ,\ny: jmp x\n";
const F3_SYN: &str = "p: nop\nsta (\n";
const F4_SYN: &str = "q: nop\n.import * as deep from \"f3.asm\"\n.import * from \"gone1.asm\"\n.import * from \"gone2.asm\"\n)\n";

#[derive(Clone, Debug)]
struct Project {
    files: Vec<(String, String)>,
    toml: String,
}

fn shim() -> PathBuf {
    let root = std::env::var("VERIF_ROOT").unwrap_or_else(|_| "/verif".into());
    Path::new(&root).join(".build/getrandom_shim.so")
}

fn mos_bin() -> String {
    std::env::var("MOS_BIN").unwrap_or_else(|_| "/verif/.build/bin/release/mos".into())
}

/// Builds the project under `seed`; returns artefact name -> bytes ("stdout", "exit", files).
fn build(p: &Project, seed: Option<u64>, dir: &Path) -> BTreeMap<String, Vec<u8>> {
    let _ = std::fs::remove_dir_all(dir);
    std::fs::create_dir_all(dir).unwrap();
    for (n, t) in &p.files {
        if let Some(parent) = dir.join(n).parent() {
            std::fs::create_dir_all(parent).unwrap();
        }
        std::fs::write(dir.join(n), t).unwrap();
    }
    if !p.toml.is_empty() {
        std::fs::write(dir.join("mos.toml"), &p.toml).unwrap();
    }
    let mut cmd = Command::new(mos_bin());
    cmd.args(["-e", "Short", "--no-color", "build"]).current_dir(dir);
    if let Some(s) = seed {
        cmd.env("LD_PRELOAD", shim()).env("VERIF_HASH_SEED", s.to_string());
    }
    let mut out = BTreeMap::new();
    match cmd.output() {
        Ok(o) => {
            out.insert("stdout".to_string(), o.stdout);
            out.insert("stderr".to_string(), o.stderr);
            out.insert("exit".to_string(), format!("{:?}", o.status.code()).into_bytes());
        }
        Err(e) => {
            out.insert("spawn-error".to_string(), e.to_string().into_bytes());
        }
    }
    // every file below target/, by relative path
    let mut stack = vec![dir.join("target")];
    while let Some(d) = stack.pop() {
        if let Ok(rd) = std::fs::read_dir(&d) {
            for e in rd.flatten() {
                let path = e.path();
                if path.is_dir() {
                    stack.push(path);
                } else if path.is_file() {
                    let rel = path.strip_prefix(dir).map(|r| r.to_string_lossy().to_string()).unwrap_or_default();
                    out.insert(rel, std::fs::read(&path).unwrap_or_default());
                }
            }
        }
    }
    let _ = std::fs::remove_dir_all(dir);
    out
}

fn projects(max_len: usize) -> Vec<Project> {
    let mut out = vec![];
    let n = ALPHABET.len();
    for len in 1..=max_len {
        for code in 0..n.pow(len as u32) {
            let mut c = code;
            let mut lines = vec![];
            for _ in 0..len {
                lines.push(ALPHABET[c % n]);
                c /= n;
            }
            let main = lines.join("\n") + "\n";
            let imports = main.contains(".import");
            for variant in 0..3 {
                // the erroneous files only matter when something is imported
                if variant > 0 && !imports {
                    continue;
                }
                let (f1, f2, f3, f4) = match variant {
                    0 => (F1, F2, F3, F4),
                    1 => (F1_ERR, F2, F3, F4),
                    _ => (F1_SYN, F2_SYN, F3_SYN, F4_SYN),
                };
                let files = vec![
                    ("main.asm".to_string(), main.clone()),
                    ("f1.asm".to_string(), f1.to_string()),
                    ("f2.asm".to_string(), f2.to_string()),
                    ("f3.asm".to_string(), f3.to_string()),
                    ("f4.asm".to_string(), f4.to_string()),
                ];
                out.push(Project {
                    files: files.clone(),
                    toml: String::new(),
                });
            }
        }
    }
    out
}

/// Projects in which one source line emits into several segments (a file imported, a macro
/// invoked, a loop body switching segments), built with listing and symbols.
fn segment_projects(max_len: usize) -> Vec<Project> {
    const PROLOGUE: &str = ".define segment {\nname = \"sa\"\nstart = $4000\n}\n.define segment {\nname = \"sb\"\nstart = $5000\n}\n.define segment {\nname = \"sc\"\nstart = $6000\n}\n.macro m3() {\nlda #3\n}\n";
    const ITEMS: [&str; 9] = [
        ".segment \"sa\" { .import * as i1 from \"f3.asm\" }",
        ".segment \"sb\" { .import * as i2 from \"f3.asm\" }",
        ".segment \"sc\" { .import * as i3 from \"f3.asm\" }",
        ".segment \"sa\" { m3() }",
        ".segment \"sb\" { m3() }",
        ".segment \"sc\" { m3() }",
        ".loop 3 { .segment \"sa\" { nop } .segment \"sb\" { nop } .segment \"sc\" { nop } }",
        "m3()",
        "nop",
    ];
    let mut out = vec![];
    let n = ITEMS.len();
    for len in 1..=max_len {
        for code in 0..n.pow(len as u32) {
            let mut c = code;
            let mut lines = vec![];
            for _ in 0..len {
                lines.push(ITEMS[c % n]);
                c /= n;
            }
            // (an import alias can be defined once only)
            if (0..3).any(|k| lines.iter().filter(|l| **l == ITEMS[k]).count() > 1) {
                continue;
            }
            let main = format!("{}{}\n", PROLOGUE, lines.join("\n"));
            out.push(Project {
                files: vec![
                    ("main.asm".to_string(), main),
                    ("f1.asm".to_string(), F1.to_string()),
                    ("f2.asm".to_string(), F2.to_string()),
                    ("f3.asm".to_string(), F3.to_string()),
                    ("f4.asm".to_string(), F4.to_string()),
                ],
                toml: "[build]\nlisting = true\nsymbols = [\"vice\"]\n".into(),
            });
        }
    }
    out
}

/// Projects whose imported files share a file name in different directories (and one that differs in
/// the extension only), built with listings: every file's listing has to come out, the same in every run.
fn same_stem_projects() -> Vec<Project> {
    let mut out = vec![];
    let toml = "[build]\nlisting = true\nsymbols = [\"vice\"]\n".to_string();
    for variant in 0..6 {
        let (main, files): (&str, Vec<(&str, &str)>) = match variant {
            // the same stem with another extension; files outside the directory of the entry file (variant 5: the
            // entry file is src/main.asm)
            4 => (".import * as a from \"util.asm\"\n.import * as b from \"util.inc\"\nnop\n", vec![("util.asm", "ux: lda #1\n"), ("util.inc", "uy: ldx #2\nrts\n")]),
            5 => (".import * as a from \"../x/util.asm\"\n.import * as b from \"../y/util.asm\"\nnop\n", vec![("x/util.asm", "ux: lda #1\n"), ("y/util.asm", "uy: ldx #2\nrts\n")]),
            0 => (".import * as a from \"x/util.asm\"\n.import * as b from \"y/util.asm\"\nnop\n", vec![("x/util.asm", "ux: lda #1\n"), ("y/util.asm", "uy: ldx #2\nrts\n")]),
            1 => (".import * as a from \"x/util.asm\"\n.import * as b from \"y/util.asm\"\n.import * as c from \"util.asm\"\nnop\n", vec![("x/util.asm", "ux: lda #1\n"), ("y/util.asm", "uy: ldx #2\nrts\n"), ("util.asm", "u0: ldy #3\n")]),
            2 => (".import * as a from \"lib/main.asm\"\nnop\n", vec![("lib/main.asm", "lm: lda #1\n")]),
            _ => (".import * as a from \"x/y/util.asm\"\n.import * as b from \"x/util.asm\"\nnop\n", vec![("x/y/util.asm", "ux: lda #1\n"), ("x/util.asm", "uy: ldx #2\nrts\n")]),
        };
        let mut fs = vec![(if variant == 5 { "src/main.asm" } else { "main.asm" }.to_string(), main.to_string())];
        // (the positions 1..4 are what the non-triviality key of the main loop looks at)
        for (n, t) in &files {
            fs.push((n.to_string(), t.to_string()));
        }
        while fs.len() < 5 {
            fs.push((format!("unused{}.asm", fs.len()), "nop\n".to_string()));
        }
        let toml = if variant == 5 { toml.replace("[build]\n", "[build]\nentry = \"src/main.asm\"\n") } else { toml.clone() };
        out.push(Project { files: fs, toml });
    }
    out
}

/// Projects with several banks whose `filename` options name the same output file in different spellings (not at
/// all = the default name of the build, that name written out, with `./` in front) or different files.
fn bank_projects() -> Vec<Project> {
    const NAMES: [Option<&str>; 6] = [None, Some("main.bin"), Some("main.prg"), Some("./main.bin"), Some("./main.prg"), Some("x.bin")];
    let mut out = vec![];
    for format in [None, Some("bin")] {
        for (a, na) in NAMES.iter().enumerate() {
            for (b, nb) in NAMES.iter().enumerate() {
                for third in [false, true] {
                    // (three banks: only along the diagonal and next to it)
                    if third && a.abs_diff(b) > 1 {
                        continue;
                    }
                    let bank = |name: &str, f: &Option<&str>| match f {
                        Some(f) => format!(".define bank {{\nname = \"{}\"\nfilename = \"{}\"\n}}\n", name, f),
                        None => format!(".define bank {{\nname = \"{}\"\n}}\n", name),
                    };
                    let mut main = String::new();
                    main.push_str(&bank("ba", na));
                    main.push_str(&bank("bb", nb));
                    if third {
                        main.push_str(&bank("bc", &None));
                    }
                    main.push_str(".define segment {\nname = \"sa\"\nbank = \"ba\"\nstart = $1000\n}\n.define segment {\nname = \"sb\"\nbank = \"bb\"\nstart = $2000\n}\n");
                    if third {
                        main.push_str(".define segment {\nname = \"sc\"\nbank = \"bc\"\nstart = $3000\n}\n");
                    }
                    main.push_str(".segment \"sa\" {\nlda tbl\nrts\n}\n.segment \"sb\" {\ntbl: .byte 5, 6, 7\n}\n");
                    if third {
                        main.push_str(".segment \"sc\" {\n.byte 9\n}\n");
                    }
                    let mut fs = vec![("main.asm".to_string(), main)];
                    while fs.len() < 5 {
                        fs.push((format!("unused{}.asm", fs.len()), "nop\n".to_string()));
                    }
                    let toml = match format {
                        Some(f) => format!("[build]\nlisting = true\nsymbols = [\"vice\"]\noutput-format = \"{}\"\n", f),
                        None => "[build]\nlisting = true\nsymbols = [\"vice\"]\n".to_string(),
                    };
                    out.push(Project { files: fs, toml });
                }
            }
        }
    }
    out
}

fn artefact_kind(name: &str) -> String {
    if name == "stdout" || name == "stderr" || name == "exit" {
        name.to_string()
    } else {
        Path::new(name)
            .extension()
            .map(|e| e.to_string_lossy().to_string())
            .unwrap_or_else(|| "file".into())
    }
}

fn what_is_permuted(a: &[u8], b: &[u8]) -> String {
    let (sa, sb) = (String::from_utf8_lossy(a), String::from_utf8_lossy(b));
    let mut la: Vec<&str> = sa.lines().collect();
    let mut lb: Vec<&str> = sb.lines().collect();
    let first_diff = la
        .iter()
        .zip(lb.iter())
        .find(|(x, y)| x != y)
        .map(|(x, _)| x.to_string())
        .unwrap_or_default();
    la.sort();
    lb.sort();
    if la == lb {
        // same lines, other order: name the message family
        let fam = if first_diff.contains("unknown identifier") {
            "unknown-identifier-lines"
        } else if first_diff.contains("error") {
            "diagnostic-lines"
        } else {
            "lines"
        };
        format!("line-order:{}", fam)
    } else {
        "content".to_string()
    }
}

/// Child mode for the canary: prints the iteration order of a HashSet built in this process.
fn canary(k: usize) -> i32 {
    let mut s = std::collections::HashSet::new();
    for i in 0..k {
        s.insert(format!("key{}", i));
    }
    let order: Vec<String> = s.into_iter().collect();
    println!("{}", order.join(","));
    0
}

pub fn run(ctx: &Ctx, replay: Option<&Value>, rest: &[String]) -> i32 {
    if rest.len() >= 2 && rest[0] == "--canary" {
        return canary(rest[1].parse().unwrap_or(4));
    }
    let scratch = ctx.verif_root.join(".build/scratch/c10").join(std::process::id().to_string());
    if let Some(case) = replay {
        let files: Vec<(String, String)> = case["files"]
            .as_object()
            .map(|m| m.iter().map(|(k, v)| (k.clone(), v.as_str().unwrap_or("").to_string())).collect())
            .unwrap_or_default();
        let p = Project {
            files,
            toml: case["toml"].as_str().unwrap_or("").to_string(),
        };
        for seed in 0..8u64 {
            let o = build(&p, Some(seed), &scratch.join("replay"));
            println!("seed {}: exit {} stdout:\n{}", seed, String::from_utf8_lossy(&o["exit"]), String::from_utf8_lossy(&o["stdout"]));
        }
        let _ = std::fs::remove_dir_all(&scratch);
        return 0;
    }
    if !shim().exists() {
        eprintln!("MACHINERY: {} missing (run ./setup.sh)", shim().display());
        return 2;
    }
    let thorough = ctx.tier.is_thorough();
    let n_seeds: u64 = if thorough { 32 } else { 8 };
    // ---- canary: the shim really controls iteration orders
    let exe = std::env::current_exe().unwrap();
    for k in [2usize, 3, 4] {
        let mut orders = BTreeSet::new();
        for seed in 0..n_seeds.max(32) {
            let o = Command::new(&exe)
                .args(["C10", "--canary", &k.to_string()])
                .env("LD_PRELOAD", shim())
                .env("VERIF_HASH_SEED", seed.to_string())
                .output();
            if let Ok(o) = o {
                orders.insert(String::from_utf8_lossy(&o.stdout).trim().to_string());
            }
        }
        ctx.set(&format!("canary_orders_of_{}_keys", k), json!(orders.len()));
        if orders.len() < 2 {
            eprintln!("MACHINERY: the getrandom shim does not influence HashSet iteration order");
            return 2;
        }
    }
    // same seed twice must give the same canary order
    {
        let run = |seed: u64| {
            Command::new(&exe)
                .args(["C10", "--canary", "4"])
                .env("LD_PRELOAD", shim())
                .env("VERIF_HASH_SEED", seed.to_string())
                .output()
                .map(|o| o.stdout)
                .unwrap_or_default()
        };
        if run(5) != run(5) {
            eprintln!("MACHINERY: the same hash seed gives different orders: nondeterminism is not owned");
            return 2;
        }
    }

    let mut projs = projects(if thorough { 3 } else { 2 });
    projs.extend(segment_projects(if thorough { 4 } else { 3 }));
    projs.extend(same_stem_projects());
    projs.extend(bank_projects());
    // valid projects additionally with listing and symbols
    let extra: Vec<Project> = projs
        .iter()
        .filter(|p| !p.files[0].1.contains(" u") && !p.files[0].1.contains(" v") && !p.files[0].1.contains(" w") && !p.files[0].1.contains("nomacro") && !p.files[0].1.contains("missing"))
        .map(|p| Project {
            files: p.files.clone(),
            toml: "[build]\nlisting = true\nsymbols = [\"vice\"]\n".into(),
        })
        .collect();
    projs.extend(extra);
    ctx.set("projects", json!(projs.len()));
    ctx.set("seeds_per_project", json!(n_seeds));
    let variants_total = std::sync::atomic::AtomicU64::new(0);
    let runs = std::sync::atomic::AtomicU64::new(0);
    projs.par_iter().enumerate().for_each(|(pi, p)| {
        let mut seen: BTreeMap<String, Vec<Vec<u8>>> = BTreeMap::new();
        let mut first: Option<BTreeMap<String, Vec<u8>>> = None;
        let mut differing: Option<(String, u64, Vec<u8>, Vec<u8>)> = None;
        for seed in 0..n_seeds {
            // (the same directory for every seed: "file not found" messages carry absolute paths)
            let o = build(p, Some(seed), &scratch.join(format!("p{}", pi)));
            runs.fetch_add(1, std::sync::atomic::Ordering::Relaxed);
            ctx.eval(|| json!({"main.asm": p.files[0].1, "toml": p.toml, "seed": seed}));
            for (k, v) in &o {
                let e = seen.entry(k.clone()).or_default();
                if !e.contains(v) {
                    e.push(v.clone());
                }
            }
            match &first {
                None => first = Some(o),
                Some(f) => {
                    if differing.is_none() {
                        let keys: BTreeSet<&String> = f.keys().chain(o.keys()).collect();
                        for k in keys {
                            if f.get(k) != o.get(k) {
                                differing = Some((k.clone(), seed, f.get(k).cloned().unwrap_or_default(), o.get(k).cloned().unwrap_or_default()));
                                break;
                            }
                        }
                    }
                }
            }
        }
        let nvar: usize = seen.values().map(|v| v.len()).max().unwrap_or(1);
        variants_total.fetch_add(nvar as u64, std::sync::atomic::Ordering::Relaxed);
        ctx.nontrivial(fnv_str(&format!("{}|{}|{}|{}", p.files[0].1, p.files[1].1.len(), p.files[3].1.len(), p.toml)));
        let ok = first.as_ref().map_or(false, |f| f.get("exit").map(|e| e == b"Some(0)").unwrap_or(false));
        ctx.count(if ok { "projects_building" } else { "projects_with_errors" });
        if let Some((artefact, seed, a, b)) = differing {
            let fm: serde_json::Map<String, Value> = p.files.iter().map(|(n, t)| (n.clone(), json!(t))).collect();
            ctx.finding(Finding::new(
                format!("order:{}:{}", artefact_kind(&artefact), what_is_permuted(&a, &b)),
                format!(
                    "{} differs between hash seed 0 and seed {} ({} distinct variants over {} seeds): {:?} vs {:?}",
                    artefact, seed, seen[&artefact].len(), n_seeds,
                    String::from_utf8_lossy(&a).chars().take(300).collect::<String>(),
                    String::from_utf8_lossy(&b).chars().take(300).collect::<String>()
                ),
                json!({"kind": "project", "files": fm, "toml": p.toml}),
            ));
        }
    });
    // sampled tripwire (labelled, never the reason for "holds"): a few runs with the OS's own seeds
    let mut tripwire = 0;
    for p in projs.iter().step_by((projs.len() / 40).max(1)).take(40) {
        // (same directory: diagnostics carry absolute paths)
        let a = build(p, None, &scratch.join("trip"));
        let b = build(p, None, &scratch.join("trip"));
        tripwire += 1;
        if a != b {
            let fm: serde_json::Map<String, Value> = p.files.iter().map(|(n, t)| (n.clone(), json!(t))).collect();
            ctx.finding(Finding::new(
                "order:unseeded-runs-differ",
                "two runs with fresh OS hash seeds produced different output (sampled tripwire)".to_string(),
                json!({"kind": "project", "files": fm, "toml": p.toml}),
            ));
        }
    }
    ctx.set("sampled_tripwire_pairs_without_shim", json!(tripwire));
    let states = variants_total.load(std::sync::atomic::Ordering::Relaxed);
    let r = runs.load(std::sync::atomic::Ordering::Relaxed);
    ctx.set("states", json!(states.max(1)));
    ctx.set("transitions", json!(r.max(1)));
    ctx.set("traces_validated_against_impl", json!(r));
    let _ = std::fs::remove_dir_all(&scratch);
    ctx.finish(
        "model_checking",
        "every project (all statement sequences up to the length bound over 17 statements with defined/undefined names, macros, five import forms over four importable files (two of which import further files) and imports of two missing files, x clean imported files / a semantic error in one / syntax errors and missing imports in all of them, valid ones also with listing+VICE symbols; plus all sequences up to length 3 (quick) / 4 (thorough) over 9 statements in which one source line emits into up to three segments - a file imported, a macro invoked, a loop body switching segments - with listing+VICE symbols) x every hash seed 0..N-1 fed to every RandomState of the real `mos` process by an LD_PRELOAD getrandom shim; states = distinct (project, output variant) pairs; transitions = process runs; every run is the implementation itself",
        true,
        &[
            "exhaustive over (project, seed < N) only: the 2^128 seed space cannot be enumerated; the canary counters show how many iteration orders of a 2/3/4-element HashSet the N seeds produce",
            "the shim owns std's RandomState via libc getrandom/getentropy; other entropy sources (none known in mos) would escape it - hence the labelled, sampled tripwire without the shim",
        ],
    )
}
