//! C01 – every instruction is encoded exactly as the 6502 ISA prescribes.
//!
//! (a) mnemonic x syntactic form x operand value class x radix x case, against the ISA model;
//! (b) branch distance sweep -140..140 x shape x base address;
//! (c) neighbour independence: ordered pairs of statement forms x separators (differential).

use crate::probe::{self, Built};
use crate::util::{hex_bytes, par_each, pick};
use mvlib::grammar::*;
use mvlib::isa::{is_branch, Expect, Form, Isa, BRANCHES, FORMS, MNEMONICS};
use mvlib::{fnv_str, Ctx, Finding};
use serde_json::{json, Value};

fn value_class(v: u64) -> &'static str {
    match v {
        0 => "0",
        1..=255 => "1..255",
        256..=65535 => "256..65535",
        _ => ">65535",
    }
}

fn operand_values(seed: u64) -> Vec<u64> {
    vec![
        0,
        1,
        127,
        128,
        254,
        255,
        256,
        257,
        pick(seed, 1, 258, 4095),
        32767,
        32768,
        65534,
        65535,
        65536,
        65537,
        pick(seed, 2, 65538, 1 << 32),
        1 << 31,
        1 << 32,
        (1u64 << 63) - 1,
    ]
}

fn run_text(text: &str) -> Result<Built, mvlib::panics::PanicInfo> {
    probe::asm(text)
}

fn case_json(kind: &str, text: &str) -> Value {
    json!({"kind": kind, "files": {"main.asm": text}})
}

/// Part (a): one instruction, compare with the ISA model.
fn check_enc(ctx: &Ctx, isa: &Isa, m: &str, form: Form, v: u64, radix: u8, upper: bool) {
    let vtext = match radix {
        16 => format!("${:x}", v),
        2 => format!("%{:b}", v),
        _ => format!("{}", v),
    };
    let mn = if upper {
        m.to_ascii_uppercase()
    } else {
        m.to_string()
    };
    let operand = form.render(&vtext, upper);
    let text = if operand.is_empty() {
        mn.clone()
    } else {
        format!("{} {}", mn, operand)
    };
    ctx.eval(|| json!(text));
    let built = match run_text(&text) {
        Ok(b) => b,
        Err(p) => {
            ctx.finding(Finding::new(
                format!("enc:panic:{}", p.site),
                format!("`{}` panics: {} at {}", text, p.message, p.site),
                case_json("enc", &text),
            ));
            return;
        }
    };
    let expect = if is_branch(m) {
        if form == Form::Plain {
            // numeric target, instruction at $2000
            let d = v as i128 - 0x2002;
            if (-128..=127).contains(&d) {
                Expect::Bytes(vec![isa.branch_opcode(m), (d as i8) as u8])
            } else {
                Expect::Reject
            }
        } else {
            Expect::Reject
        }
    } else {
        isa.encode(m, form, v)
    };
    let sig_base = format!("{}:{}:{}", m, form.name(), value_class(v));
    match expect {
        Expect::Bytes(bytes) => {
            ctx.nontrivial(fnv_str(&format!("{}|{}|{}", m, form.name(), v)));
            ctx.count("a_legal");
            if !built.ok() {
                ctx.finding(Finding::new(
                    format!("enc:rejected-legal:{}", sig_base),
                    format!(
                        "`{}` is legal (expected {}) but was rejected: {:?}",
                        text,
                        hex_bytes(&bytes),
                        built.messages()
                    ),
                    case_json("enc", &text),
                ));
            } else if built.bytes() != bytes {
                ctx.finding(Finding::new(
                    format!("enc:wrong-bytes:{}", sig_base),
                    format!(
                        "`{}` assembled to {} but the ISA prescribes {}",
                        text,
                        hex_bytes(&built.bytes()),
                        hex_bytes(&bytes)
                    ),
                    case_json("enc", &text),
                ));
            }
        }
        Expect::Reject => {
            ctx.nontrivial(fnv_str(&format!("{}|{}|{}", m, form.name(), value_class(v))));
            ctx.count("a_illegal");
            if built.ok() {
                let sig = if is_branch(m) && form == Form::Plain {
                    format!("branch:numeric:accepted-out-of-range:target-{}", value_class(v))
                } else {
                    format!("enc:accepted-illegal:{}", sig_base)
                };
                ctx.finding(Finding::new(
                    sig,
                    format!(
                        "`{}` must be rejected but assembled to {}",
                        text,
                        hex_bytes(&built.bytes())
                    ),
                    case_json("enc", &text),
                ));
            }
        }
        Expect::Unspecified => {
            ctx.count(if built.ok() {
                "a_unspecified_accepted"
            } else {
                "a_unspecified_rejected"
            });
        }
    }
}

#[derive(Clone, Debug)]
struct BranchCase {
    m: &'static str,
    d: i64,
    /// 0 label+padding, 1 label via `* =`, 2 numeric target
    shape: u8,
    forward: bool,
    /// address of the branch instruction
    b: i64,
}

fn branch_text(c: &BranchCase) -> Option<String> {
    let t = c.b + 2 + c.d;
    if t < 0 || t > 0xfff0 || c.b < 0 || c.b > 0xfff0 {
        return None;
    }
    Some(match c.shape {
        0 => {
            if c.forward {
                if c.d < 0 {
                    return None;
                }
                let mut s = format!("* = ${:04x}\n{} l\n", c.b, c.m);
                for _ in 0..c.d {
                    s.push_str(".byte 0\n");
                }
                s.push_str("l: nop");
                s
            } else {
                if c.d > -2 {
                    return None;
                }
                let k = -c.d - 2;
                let mut s = format!("* = ${:04x}\nl:\n", t);
                for _ in 0..k {
                    s.push_str(".byte 0\n");
                }
                s.push_str(&format!("{} l", c.m));
                s
            }
        }
        1 => {
            if c.forward {
                format!("* = ${:04x}\n{} l\n* = ${:04x}\nl:", c.b, c.m, t)
            } else {
                format!("* = ${:04x}\nl:\n* = ${:04x}\n{} l", t, c.b, c.m)
            }
        }
        _ => {
            if !c.forward {
                return None;
            }
            format!("* = ${:04x}\n{} {}", c.b, c.m, t)
        }
    })
}


/// Part (d): a branch inside a relocated segment (`pc` differs from `start`). The displacement is a
/// matter of run addresses only, so the segment's bytes equal those of the same body assembled in
/// place (expected bytes computed here, not taken from another run).
fn check_relocated_branch(ctx: &Ctx, isa: &Isa, m: &'static str, d: i64, forward: bool, start: i64, pc: i64) {
    let mut body = String::new();
    let mut expect: Vec<u8> = vec![];
    if forward {
        if d < 0 {
            return;
        }
        body.push_str(&format!("{} l\n", m));
        expect.push(isa.branch_opcode(m));
        expect.push(d as u8);
        for _ in 0..d {
            body.push_str(".byte 0\n");
            expect.push(0);
        }
        body.push_str("l: nop\n");
        expect.push(0xea);
    } else {
        if d > -2 {
            return;
        }
        body.push_str("l:\n");
        for _ in 0..(-d - 2) {
            body.push_str(".byte 0\n");
            expect.push(0);
        }
        body.push_str(&format!("{} l\n", m));
        expect.push(isa.branch_opcode(m));
        expect.push((d as i8) as u8);
    }
    let text = format!(".define segment {{\nname = \"r\"\nstart = ${:04x}\npc = ${:04x}\n}}\n.segment \"r\" {{\n{}}}\n", start, pc, body);
    ctx.eval(|| json!(text));
    ctx.nontrivial(fnv_str(&format!("reloc|{}|{}|{}|{:x}|{:x}", m, d, forward, start, pc)));
    let dir = if forward { "fwd" } else { "bwd" };
    let built = match run_text(&text) {
        Ok(b) => b,
        Err(p) => {
            ctx.finding(Finding::new(format!("branch:panic:{}", p.site), format!("panic {} at {} for {:?}", p.message, p.site, text), case_json("branch", &text)));
            return;
        }
    };
    let in_range = (-128..=127).contains(&d);
    if in_range {
        let got = built.segs.iter().find(|s| s.name == "r").map(|s| s.bytes.clone());
        if !built.ok() || got.as_ref() != Some(&expect) {
            ctx.finding(Finding::new(
                format!("branch:{}:{}:relocated-segment:{}", if built.ok() { "wrong-bytes" } else { "rejected" }, dir, d),
                format!("in a segment stored at ${:04x} that runs at ${:04x} a branch with distance {} must assemble to {}; got ok={} {:?} {}", start, pc, d, hex_bytes(&expect), built.ok(), built.messages(), got.map(|g| hex_bytes(&g)).unwrap_or_default()),
                case_json("branch", &text),
            ));
        }
    } else if built.ok() {
        ctx.finding(Finding::new(
            format!("branch:accepted-out-of-range:{}:relocated-segment", dir),
            format!("branch distance {} is outside -128..127 but the build succeeded (segment stored at ${:04x}, running at ${:04x})", d, start, pc),
            case_json("branch", &text),
        ));
    }
}

fn check_branch(ctx: &Ctx, isa: &Isa, c: &BranchCase) {
    let text = match branch_text(c) {
        Some(t) => t,
        None => return,
    };
    ctx.eval(|| json!(text));
    ctx.nontrivial(fnv_str(&format!(
        "{}|{}|{}|{}|{:x}",
        c.m, c.d, c.shape, c.forward, c.b
    )));
    let t = c.b + 2 + c.d;
    let shape = ["label+padding", "label+pcset", "numeric"][c.shape as usize];
    let dir = if c.forward { "fwd" } else { "bwd" };
    let tclass = if t == 0 { "target-0" } else { "target-nonzero" };
    let built = match run_text(&text) {
        Ok(b) => b,
        Err(p) => {
            ctx.finding(Finding::new(
                format!("branch:panic:{}", p.site),
                format!("panic {} at {} for {:?}", p.message, p.site, text),
                case_json("branch", &text),
            ));
            return;
        }
    };
    let in_range = (-128..=127).contains(&c.d);
    if in_range {
        ctx.count("b_in_range");
        // the branch bytes sit at address b
        let seg = built.segs.first();
        let ok = built.ok()
            && seg.map_or(false, |s| {
                let off = c.b as usize;
                off >= s.start
                    && off + 2 <= s.end
                    && s.bytes[off - s.start] == isa.branch_opcode(c.m)
                    && s.bytes[off - s.start + 1] == (c.d as i8) as u8
            });
        if !ok {
            let what = if !built.ok() { "rejected" } else { "wrong-bytes" };
            ctx.finding(Finding::new(
                format!("branch:{}:{}:{}:{}:{}", what, dir, shape, c.d, tclass),
                format!(
                    "branch with distance {} must encode {:02x} {:02x}; got ok={} {:?} segs={:?}",
                    c.d,
                    isa.branch_opcode(c.m),
                    (c.d as i8) as u8,
                    built.ok(),
                    built.messages(),
                    built
                        .segs
                        .iter()
                        .map(|s| format!("{:04x}:{}", s.start, hex_bytes(&s.bytes)))
                        .collect::<Vec<_>>()
                ),
                case_json("branch", &text),
            ));
        } else if c.shape == 0 {
            // image = exactly the bytes in source order
            let s = &built.segs[0];
            let mut expect = vec![];
            if c.forward {
                expect.push(isa.branch_opcode(c.m));
                expect.push(c.d as u8);
                expect.extend(std::iter::repeat(0).take(c.d as usize));
                expect.push(0xea);
            } else {
                expect.extend(std::iter::repeat(0).take((-c.d - 2) as usize));
                expect.push(isa.branch_opcode(c.m));
                expect.push((c.d as i8) as u8);
            }
            if s.bytes != expect {
                ctx.finding(Finding::new(
                    format!("branch:image:{}:{}:{}", dir, shape, c.d),
                    format!("image {} expected {}", hex_bytes(&s.bytes), hex_bytes(&expect)),
                    case_json("branch", &text),
                ));
            }
        }
    } else {
        ctx.count("b_out_of_range");
        if built.ok() {
            ctx.finding(Finding::new(
                format!("branch:accepted-out-of-range:{}:{}:{}", dir, shape, tclass),
                format!(
                    "branch distance {} is outside -128..127 but the build succeeded: {:?}",
                    c.d,
                    built
                        .segs
                        .iter()
                        .map(|s| format!("{:04x}:{}", s.start, hex_bytes(&s.bytes)))
                        .collect::<Vec<_>>()
                ),
                case_json("branch", &text),
            ));
        }
    }
}

/// Catalogue of position independent statement forms; `n` makes the names unique.
pub fn catalogue(isa: &Isa, n: usize) -> Vec<(String, Vec<Stmt>)> {
    let mut out: Vec<(String, Vec<Stmt>)> = vec![];
    for m in MNEMONICS.iter() {
        for f in FORMS.iter() {
            if !isa.legal_form(m, *f) {
                continue;
            }
            if is_branch(m) {
                out.push((format!("instr:{}:rel", m), vec![ins(m, Form::Plain, Expr::Pc)]));
                continue;
            }
            if *f == Form::Implied {
                let acc = ["asl", "lsr", "rol", "ror"].contains(m);
                out.push((
                    format!("instr:{}:{}", m, if acc { "acc-implied" } else { "implied" }),
                    vec![imp(m)],
                ));
                continue;
            }
            let mut seen = std::collections::BTreeSet::new();
            for v in [0x10u64, 0x1234] {
                if let Expect::Bytes(b) = isa.encode(m, *f, v) {
                    if seen.insert(b[0]) {
                        out.push((
                            format!("instr:{}:{}:{}", m, f.name(), if v < 256 { "zp" } else { "abs" }),
                            vec![ins(m, *f, hex(v as i64))],
                        ));
                    }
                }
            }
        }
    }
    let nop = || vec![imp("nop")];
    let l = format!("l{}", n);
    let c = format!("c{}", n);
    let v = format!("v{}", n);
    let mname = format!("m{}", n);
    out.push(("data:.byte".into(), vec![byte(vec![num(1)])]));
    out.push(("data:.word".into(), vec![word(vec![hex(0x1234)])]));
    out.push(("data:.dword".into(), vec![dword(vec![num(1)])]));
    out.push((
        "text".into(),
        vec![Stmt::Text {
            encoding: None,
            value: string("a"),
        }],
    ));
    out.push(("label".into(), vec![label(&l)]));
    out.push(("label-block".into(), vec![label_block(&l, nop())]));
    out.push(("braces".into(), vec![Stmt::Braces(nop())]));
    out.push(("const".into(), vec![konst(&c, num(1))]));
    out.push((
        "var".into(),
        vec![Stmt::Var {
            name: v,
            value: num(1),
        }],
    ));
    out.push((
        "loop".into(),
        vec![Stmt::Loop {
            count: num(2),
            body: nop(),
        }],
    ));
    out.push((
        "if".into(),
        vec![Stmt::If {
            cond: num(1),
            then: nop(),
            els: None,
        }],
    ));
    out.push((
        "if-else".into(),
        vec![Stmt::If {
            cond: num(0),
            then: nop(),
            els: Some(vec![imp("brk")]),
        }],
    ));
    out.push((
        "macrodef+call".into(),
        vec![
            Stmt::MacroDef {
                name: mname.clone(),
                params: vec![],
                body: nop(),
            },
            Stmt::MacroCall {
                name: mname,
                args: vec![],
            },
        ],
    ));
    out.push((
        "assert".into(),
        vec![Stmt::Assert {
            cond: num(1),
            msg: None,
        }],
    ));
    out.push(("trace".into(), vec![Stmt::Trace(None)]));
    out
}

const SEPS: [(&str, &str); 4] = [
    ("newline", "\n"),
    ("blank-line", "\n\n"),
    ("line-comment", "\n// c\n"),
    ("block-comment", "\n/* c */\n"),
];

fn pair_text(a: &[Stmt], b: &[Stmt], sep: &str) -> String {
    let mut prog = a.to_vec();
    prog.extend(b.iter().cloned());
    let r = render(&prog);
    // first terminal of the first statement of b
    let first_b = r.stmts.iter().enumerate().filter(|(_, e)| e.parent.is_none()).nth(a.len()).map(|(_, e)| e.first).unwrap();
    r.layout(&[Dev::Sep(first_b, sep.to_string())]).text
}

fn check_pair(
    ctx: &Ctx,
    a: &(String, Vec<Stmt>, Option<Vec<u8>>),
    b: &(String, Vec<Stmt>, Option<Vec<u8>>),
    sep: (&str, &str),
) {
    let (ba, bb) = match (&a.2, &b.2) {
        (Some(x), Some(y)) => (x, y),
        _ => return,
    };
    let text = pair_text(&a.1, &b.1, sep.1);
    ctx.eval(|| json!(text));
    let mut expect = ba.clone();
    expect.extend(bb.iter());
    let class = |k: &str| -> String {
        // instr:<m>:<form>[:zp|abs] -> instr:<form>, keep acc-implied apart
        let parts: Vec<&str> = k.split(':').collect();
        if parts[0] == "instr" {
            format!("instr:{}", parts[2])
        } else {
            k.to_string()
        }
    };
    match run_text(&text) {
        Ok(built) => {
            if !built.ok() {
                ctx.finding(Finding::new(
                    format!("adjacent:rejected:{}→{}:{}", class(&a.0), class(&b.0), sep.0),
                    format!(
                        "both statements assemble alone, together they are rejected: {:?}: {:?}",
                        text,
                        built.messages()
                    ),
                    case_json("pair", &text),
                ));
            } else if built.bytes() != expect {
                ctx.finding(Finding::new(
                    format!("adjacent:bytes:{}→{}:{}", class(&a.0), class(&b.0), sep.0),
                    format!(
                        "{:?} assembles to {} instead of the concatenation {}",
                        text,
                        hex_bytes(&built.bytes()),
                        hex_bytes(&expect)
                    ),
                    case_json("pair", &text),
                ));
            }
        }
        Err(p) => ctx.finding(Finding::new(
            format!("adjacent:panic:{}", p.site),
            format!("{:?} panics: {} at {}", text, p.message, p.site),
            case_json("pair", &text),
        )),
    }
}

fn replay(ctx: &Ctx, case: &Value) -> i32 {
    let text = case["files"]["main.asm"].as_str().unwrap_or("").to_string();
    println!("replaying C01 case on the real assembler:\n{}\n---", text);
    match run_text(&text) {
        Ok(b) => {
            println!("ok={} diagnostics={:?}", b.ok(), b.all_diags().iter().map(|d| d.short()).collect::<Vec<_>>());
            for s in &b.segs {
                println!("segment {} ${:04x}: {}", s.name, s.start, hex_bytes(&s.bytes));
            }
        }
        Err(p) => println!("PANIC {} at {}", p.message, p.site),
    }
    let _ = ctx;
    0
}

pub fn run(ctx: &Ctx, replay_case: Option<&Value>) -> i32 {
    if let Some(c) = replay_case {
        return replay(ctx, c);
    }
    let isa = Isa::new();
    let thorough = ctx.tier.is_thorough();
    ctx.set("isa_rows", json!(isa.rows.len()));
    ctx.set("legal_form_rows", json!(isa.legal_form_rows()));

    // ---- (a)
    let values = operand_values(ctx.seed);
    let mut enc_cases: Vec<(&'static str, Form, u64, u8, bool)> = vec![];
    for m in MNEMONICS.iter() {
        for f in FORMS.iter() {
            if *f == Form::Implied {
                enc_cases.push((m, *f, 0, 10, false));
                enc_cases.push((m, *f, 0, 10, true));
                continue;
            }
            for v in &values {
                for radix in [10u8, 16, 2] {
                    if radix == 2 && !thorough && *v > 65537 {
                        continue;
                    }
                    for upper in [false, true] {
                        enc_cases.push((m, *f, *v, radix, upper));
                    }
                }
            }
        }
    }
    ctx.set("part_a_cases", json!(enc_cases.len()));
    par_each(enc_cases, |(m, f, v, radix, upper)| {
        check_enc(ctx, &isa, m, f, v, radix, upper)
    });

    // ---- (b)
    let distances: Vec<i64> = if thorough {
        (-140..=140).collect()
    } else {
        vec![
            -140, -130, -129, -128, -127, -126, -64, -3, -2, -1, 0, 1, 2, 64, 125, 126, 127, 128,
            129, 130, 140,
        ]
    };
    let mut bcases = vec![];
    for m in BRANCHES.iter() {
        for d in &distances {
            for shape in 0..3u8 {
                for forward in [true, false] {
                    // anchors: branch at A, or target at A
                    for a in [0x2000i64, 0x0000, 0xff00] {
                        bcases.push(BranchCase {
                            m,
                            d: *d,
                            shape,
                            forward,
                            b: a,
                        });
                        bcases.push(BranchCase {
                            m,
                            d: *d,
                            shape,
                            forward,
                            b: a - 2 - *d,
                        });
                    }
                }
            }
        }
    }
    ctx.set("part_b_distances", json!(distances.len()));
    par_each(bcases, |c| check_branch(ctx, &isa, &c));

    // ---- (d) relocated segments
    let mut rcases = vec![];
    for m in BRANCHES.iter() {
        for d in &distances {
            for forward in [true, false] {
                for (start, pc) in [(0x1000i64, 0x9000i64), (0x1000, 0x1010), (0x3000, 0x0200), (0x1000, 0x0fff)] {
                    rcases.push((*m, *d, forward, start, pc));
                }
            }
        }
    }
    ctx.set("part_d_cases", json!(rcases.len()));
    par_each(rcases, |(m, d, forward, start, pc)| check_relocated_branch(ctx, &isa, m, d, forward, start, pc));

    // ---- (e) operand shapes that are no form of the ISA at all: two register suffixes, a suffix on an immediate
    // (the table of part (a) has one suffix position per form; a parser that reads more than it stores accepts these)
    {
        let shapes: [&str; 12] = ["(V,x),y", "(V,x),x", "(V,y),x", "(V,y),y", "(V),y,x", "(V),y,y", "V,x,y", "V,y,x", "V,x,x", "#V,x", "#V,y", "(V,x,y)"];
        let mut cases = vec![];
        for m in MNEMONICS.iter() {
            for sh in shapes.iter() {
                for v in ["$10", "$1234", "16"] {
                    for upper in [false, true] {
                        let operand = sh.replace('V', v);
                        let operand = if upper { operand.replace(",x", ",X").replace(",y", ",Y") } else { operand };
                        cases.push((*m, *sh, format!("{} {}", m, operand)));
                    }
                }
            }
        }
        ctx.set("part_e_cases", json!(cases.len()));
        par_each(cases, |(m, sh, text)| {
            ctx.eval(|| json!(text));
            ctx.nontrivial(fnv_str(&text));
            match run_text(&text) {
                Err(p) => ctx.finding(Finding::new(format!("enc:panic:{}", p.site), format!("`{}` panics: {} at {}", text, p.message, p.site), case_json("enc", &text))),
                Ok(b) => {
                    if b.ok() {
                        ctx.finding(Finding::new(
                            format!("enc:accepted-illegal-shape:{}:{}", m, sh),
                            format!("`{}` is no form of the instruction set but assembled to {}", text, hex_bytes(&b.bytes())),
                            case_json("enc", &text),
                        ));
                    } else {
                        ctx.count("e_rejected");
                    }
                }
            }
        });
    }

    // ---- (c)
    let cat1 = catalogue(&isa, 1);
    let cat2 = catalogue(&isa, 2);
    let alone = |cat: Vec<(String, Vec<Stmt>)>| -> Vec<(String, Vec<Stmt>, Option<Vec<u8>>)> {
        cat.into_iter()
            .map(|(k, s)| {
                let text = program_text(&s);
                ctx.eval(|| json!(text));
                let bytes = match run_text(&text) {
                    Ok(b) if b.ok() => Some(b.bytes()),
                    Ok(b) => {
                        ctx.finding(Finding::new(
                            format!("catalogue:rejected:{}", k),
                            format!("catalogue form {:?} rejected alone: {:?}", text, b.messages()),
                            case_json("alone", &text),
                        ));
                        None
                    }
                    Err(p) => {
                        ctx.finding(Finding::new(
                            format!("catalogue:panic:{}", p.site),
                            format!("catalogue form {:?} panics", text),
                            case_json("alone", &text),
                        ));
                        None
                    }
                };
                (k, s, bytes)
            })
            .collect()
    };
    let cat1 = alone(cat1);
    let cat2 = alone(cat2);
    ctx.set("part_c_forms", json!(cat1.len()));
    let mut pairs = vec![];
    for i in 0..cat1.len() {
        for j in 0..cat2.len() {
            for s in 0..SEPS.len() {
                pairs.push((i, j, s));
            }
        }
    }
    ctx.set("part_c_pairs", json!(pairs.len()));
    par_each(pairs, |(i, j, s)| {
        ctx.nontrivial(fnv_str(&format!("pair|{}|{}|{}", i, j, s)));
        check_pair(ctx, &cat1[i], &cat2[j], SEPS[s]);
    });

    ctx.finish(
        "exploration",
        "(a) every (mnemonic, syntactic form, operand value class representative, radix, case) run through the real parser+codegen and compared with an ISA model generated from the opcode bit structure; non-trivial = distinct (mnemonic, form, value) with a defined expectation. (b) branch distance sweep x 3 shapes x direction x 6 anchors. (d) the same distances inside a segment whose run address (`pc`) differs from its storage address, 4 (start, pc) pairs. (c) all ordered pairs of the statement-form catalogue x 4 separators, expected = concatenation of the bytes each form assembles to alone (differential)",
        true,
        &[
            "operand values are boundary classes + 2 seed-chosen representatives, not all integers",
            "operands above 65535 on absolute forms and negative operands are outside the statement: executed, counted, no verdict",
            "ISA model generated from the documented aaabbbcc opcode structure is trusted (self-checked: 151 rows, no duplicate opcode, 14 anchor opcodes)",
            "release arithmetic profile",
        ],
    )
}
