//! Small helpers shared by the property modules.

use rayon::prelude::*;

/// Runs `f` on every case on the global pool.
pub fn par_each<T: Send, F: Fn(T) + Sync + Send>(cases: Vec<T>, f: F) {
    cases.into_par_iter().for_each(f);
}

pub fn hex_bytes(b: &[u8]) -> String {
    b.iter().map(|x| format!("{:02x}", x)).collect::<Vec<_>>().join(" ")
}

/// xorshift; only used to pick *representatives* of value classes from VERIF_SEED
pub fn pick(seed: u64, salt: u64, lo: u64, hi: u64) -> u64 {
    let mut x = seed ^ salt.wrapping_mul(0x9E3779B97F4A7C15) ^ 0xD1B54A32D192ED03;
    x ^= x << 13;
    x ^= x >> 7;
    x ^= x << 17;
    x ^= x >> 31;
    lo + x % (hi - lo)
}


/// Watchdog for stages that have no pass observer (parser, formatter, listing): every worker
/// publishes what it is working on; a monitor thread reports a case that has been running for
/// longer than the horizon and ends the process with exit status 3 (the supervisor restarts the
/// sweep with that input on its skip list).
pub mod watchdog {
    use std::sync::Mutex;
    use std::time::Instant;

    pub struct Slot {
        pub text: String,
        pub stage: &'static str,
        pub since: Instant,
    }

    static SLOTS: Mutex<Vec<Option<Slot>>> = Mutex::new(Vec::new());

    thread_local! {
        static MY: std::cell::Cell<usize> = std::cell::Cell::new(usize::MAX);
    }

    fn my_index() -> usize {
        MY.with(|m| {
            if m.get() == usize::MAX {
                let mut s = SLOTS.lock().unwrap();
                s.push(None);
                m.set(s.len() - 1);
            }
            m.get()
        })
    }

    pub fn enter(text: &str, stage: &'static str) {
        let i = my_index();
        SLOTS.lock().unwrap()[i] = Some(Slot {
            text: text.to_string(),
            stage,
            since: Instant::now(),
        });
    }

    pub fn stage(stage: &'static str) {
        let i = my_index();
        if let Some(s) = SLOTS.lock().unwrap()[i].as_mut() {
            s.stage = stage;
            s.since = Instant::now();
        }
    }

    pub fn leave() {
        let i = my_index();
        SLOTS.lock().unwrap()[i] = None;
    }

    /// Starts the monitor; `on_hang(text, stage)` is called once, then the process exits with 3.
    pub fn start(horizon_s: f64, on_hang: Box<dyn Fn(&str, &str) + Send>) {
        std::thread::spawn(move || loop {
            std::thread::sleep(std::time::Duration::from_millis(250));
            let s = SLOTS.lock().unwrap();
            for slot in s.iter().flatten() {
                if slot.since.elapsed().as_secs_f64() > horizon_s {
                    on_hang(&slot.text, slot.stage);
                    std::process::exit(3);
                }
            }
        });
    }
}
