//! Small helpers shared by the property modules.

use rayon::prelude::*;

/// Runs `f` on every case on the global pool.
pub fn par_each<T: Send, F: Fn(T) + Sync + Send>(cases: Vec<T>, f: F) {
    cases.into_par_iter().for_each(f);
}

pub fn hex_bytes(b: &[u8]) -> String {
    b.iter().map(|x| format!("{:02x}", x)).collect::<Vec<_>>().join(" ")
}

/// xorshift; only used to pick *representatives* of value classes from VERIF_SEED
pub fn pick(seed: u64, salt: u64, lo: u64, hi: u64) -> u64 {
    let mut x = seed ^ salt.wrapping_mul(0x9E3779B97F4A7C15) ^ 0xD1B54A32D192ED03;
    x ^= x << 13;
    x ^= x >> 7;
    x ^= x << 17;
    x ^= x >> 31;
    lo + x % (hi - lo)
}
