//! `mvcore <ID> [--tier quick|thorough] [--replay FILE]` – bounded-exhaustive checks that only
//! need `mos-core` (parser, code generator, formatter, listing, binary writer).

mod cert;
mod probe;
mod textspace;
mod props;
mod util;

use mvlib::{Ctx, Tier};

fn main() {
    let args: Vec<String> = std::env::args().collect();
    if args.len() < 2 {
        eprintln!("usage: mvcore <ID> [--tier quick|thorough] [--replay FILE]");
        std::process::exit(2);
    }
    let id = args[1].clone();
    let mut tier = match std::env::var("VERIF_TIER").ok().as_deref() {
        Some("thorough") => Tier::Thorough,
        _ => Tier::Quick,
    };
    let mut replay: Option<String> = None;
    let mut rest: Vec<String> = vec![];
    let mut i = 2;
    while i < args.len() {
        match args[i].as_str() {
            "--tier" => {
                i += 1;
                tier = match args.get(i).map(|s| s.as_str()) {
                    Some("thorough") => Tier::Thorough,
                    Some("quick") => Tier::Quick,
                    other => {
                        eprintln!("bad tier {:?}", other);
                        std::process::exit(2);
                    }
                };
            }
            "--replay" => {
                i += 1;
                replay = args.get(i).cloned();
            }
            other => rest.push(other.to_string()),
        }
        i += 1;
    }
    mvlib::panics::install_quiet_hook();
    let threads = std::env::var("VERIF_THREADS")
        .ok()
        .and_then(|s| s.parse().ok())
        .unwrap_or(16usize);
    rayon::ThreadPoolBuilder::new()
        .num_threads(threads)
        .stack_size(64 * 1024 * 1024)
        .build_global()
        .ok();
    let mut ctx = Ctx::new(&id, tier);
    let replay_case = match &replay {
        Some(path) => {
            ctx.replay_only = true;
            let text = match std::fs::read_to_string(path) {
                Ok(t) => t,
                Err(e) => {
                    eprintln!("cannot read replay file {}: {}", path, e);
                    std::process::exit(2);
                }
            };
            let v: serde_json::Value = match serde_json::from_str(&text) {
                Ok(v) => v,
                Err(e) => {
                    eprintln!("replay file is not JSON: {}", e);
                    std::process::exit(2);
                }
            };
            Some(v.get("case").cloned().unwrap_or(v))
        }
        None => None,
    };
    let code = props::dispatch(&ctx, replay_case.as_ref(), &rest);
    std::process::exit(code);
}
