//! The text spaces shared by C05 (lossless parse) and C06 (clean termination):
//! (a) every single-character edit of a corpus that contains every grammar production,
//! (b) all token strings up to a length bound over a 26-token alphabet,
//! (c) concatenations of a prefix and a suffix of the example sources cut at line boundaries.

use mos_core::errors::CoreResult;
use mos_core::parser::source::ParsingSource;
use mvlib::grammar::*;
use mvlib::isa::Form;
use rayon::prelude::*;
use std::collections::HashMap;
use std::path::Path;
use std::sync::{Arc, Mutex};

/// Parsing source that resolves any path by its file name (so that `../shared/c64.asm` works
/// without a file system).
pub struct ByName {
    pub files: HashMap<String, String>,
}

impl ParsingSource for ByName {
    fn get_contents(&self, path: &Path) -> CoreResult<String> {
        let name = path
            .file_name()
            .map(|n| n.to_string_lossy().to_string())
            .unwrap_or_default();
        match self.files.get(&name) {
            Some(s) => Ok(s.clone()),
            None => Err(codespan_reporting::diagnostic::Diagnostic::error()
                .with_message(format!("file not found: '{}'", path.to_string_lossy()))
                .into()),
        }
    }
}

pub fn by_name(files: &[(String, String)]) -> Arc<Mutex<dyn ParsingSource>> {
    let mut m = HashMap::new();
    for (k, v) in files {
        m.insert(k.clone(), v.clone());
    }
    Arc::new(Mutex::new(ByName { files: m }))
}

/// One corpus entry: main text plus side files (imports).
#[derive(Clone, Debug)]
pub struct Entry {
    pub name: String,
    pub text: String,
    pub side: Vec<(String, String)>,
}

pub const OTHER_ASM: &str = "foo: nop\nbar: { baz: rts }\n.const k = 3\n.macro mm(p) { lda #p }";

fn e(name: &str, text: &str) -> Entry {
    Entry {
        name: name.to_string(),
        text: text.to_string(),
        side: vec![("other.asm".to_string(), OTHER_ASM.to_string())],
    }
}

/// One rendering of every grammar production.
pub fn synthetic_corpus() -> Vec<Entry> {
    let mut out = vec![];
    // every addressing form, one per form
    for (i, f) in [
        Form::Imm,
        Form::Plain,
        Form::PlainX,
        Form::PlainY,
        Form::IndX,
        Form::IndY,
    ]
    .iter()
    .enumerate()
    {
        out.push(e(
            &format!("form{}", i),
            &stmt_text(&ins("lda", *f, hex(0x10))),
        ));
    }
    out.push(e("ind", "jmp ($1234)"));
    out.push(e("implied", "nop\nasl\nrts"));
    out.push(e("upper", "LDA #$FF\nSTA $D020,X"));
    // expressions: every operator, modifiers, parens, radixes, pc, calls, strings
    for (i, op) in [
        "*", "/", "%", "<<", ">>", "^", "+", "-", "==", "!=", ">=", "<=", ">", "<", "&&", "||",
    ]
    .iter()
    .enumerate()
    {
        out.push(e(&format!("op{}", i), &format!(".byte 6 {} 2", op)));
    }
    out.push(e("expr1", ".word (1 + 2) * 3, <lbl, >lbl, !x, -x, *\nlbl: x: nop"));
    out.push(e("expr2", ".byte %101, $ff, 007, true, false"));
    out.push(e("expr3", ".if defined(a) && !defined(b) { nop }"));
    out.push(e("expr4", ".const s = \"ab\" + \"cd\"\n.text \"x{s}y\""));
    out.push(e("paths", "a: { b: { lda super.a\nlda a.b\nlda super.super.a } }"));
    out.push(e("scopeids", "{ bne -\nbeq +\n}\nl: { jmp l.- }"));
    // statements
    out.push(e("data", ".byte 1, 2, 3\n.word $1234\n.dword 1"));
    out.push(e("text", ".text \"hello\"\n.text ascii \"a\"\n.text petscii \"b\"\n.text petscreen \"c\""));
    out.push(e("label", "l:\nm: nop\nn: { nop }"));
    out.push(e("braces", "{ nop }\n{\n  { brk }\n}"));
    out.push(e("const", ".const c = 1\n.var v = c + 1\n.var v = 3"));
    out.push(e("pc", "* = $1000\nnop\n* = * + 2"));
    out.push(e("align", ".align 4\nnop\n.align 256"));
    out.push(e("loop", ".loop 3 { lda #index }"));
    out.push(e("if", ".if 1 { nop } else { brk }\n.if 0 {\n nop\n}\nelse\n{\n brk\n}"));
    out.push(e("macro", ".macro m(a, b) { lda #a\nldx #b }\nm(1, 2)\n.macro z() { }\nz()"));
    out.push(e(
        "define",
        ".define bank { name = \"b\" size = 16 fill = 0 filename = \"a.bin\" }\n.define segment {\n name = \"s\"\n start = $1000\n pc = $2000\n write = true\n bank = \"b\"\n}\n.segment \"s\" { nop }\n.segment \"s\"\nnop",
    ));
    out.push(e(
        "import",
        ".import * from \"other.asm\"\n.import foo as f2, bar from \"other.asm\" { .const q = 1 }\n.import * as ns from \"other.asm\"",
    ));
    out.push(e(
        "test",
        ".test \"t\" { lda #1\n.assert cpu.a == 1\n.assert cpu.a == 2 \"msg {x}\"\n.trace\n.trace (cpu.a, 1)\nbrk }",
    ));
    out.push(e("file", ".file \"x.bin\""));
    out.push(e(
        "comments",
        "nop // c\n/* block */ nop\n/* a /* nested */ b */\nlda /* in */ #1 // tail\n// only",
    ));
    out.push(e("crlf", "nop\r\nlda #1\r\n{\r\n}\r\n"));
    out.push(e("blank", "\n\n  \n\tnop\n\n"));
    out
}

pub fn example_corpus() -> Vec<Entry> {
    let mut out = vec![];
    let read = |p: &str| std::fs::read_to_string(p).ok();
    let shared = read("/repo/examples/c64/shared/c64.asm");
    let atari = read("/repo/examples/atari800/colors/atari800.asm");
    let mut side = vec![("other.asm".to_string(), OTHER_ASM.to_string())];
    if let Some(s) = &shared {
        side.push(("c64.asm".to_string(), s.clone()));
    }
    if let Some(s) = &atari {
        side.push(("atari800.asm".to_string(), s.clone()));
    }
    for (name, p) in [
        ("ex-unit-testing", "/repo/examples/c64/unit-testing/main.asm"),
        ("ex-scroller", "/repo/examples/c64/scroller/main.asm"),
        ("ex-cartridge", "/repo/examples/c64/cartridge/main.asm"),
        ("ex-atari", "/repo/examples/atari800/colors/main.asm"),
        ("ex-shared", "/repo/examples/c64/shared/c64.asm"),
    ] {
        if let Some(t) = read(p) {
            out.push(Entry {
                name: name.to_string(),
                text: t,
                side: side.clone(),
            });
        }
    }
    out
}

pub fn edit_chars(full: bool) -> Vec<char> {
    let mut v: Vec<char> = vec![];
    if full {
        for c in 0x20u8..0x7f {
            v.push(c as char);
        }
        v.extend(['\t', '\n', '\r', '\0', '\x1b', 'é', '→', '💾']);
    } else {
        v.extend([
            ')', '(', '}', '{', '\r', '\n', '"', '/', '*', '#', ',', ':', '.', '=', '$', '%', 'x',
            '1', ' ', '!', '-', '+', '<', '\0', 'é', '💾',
        ]);
    }
    v
}

pub const TOKENS: [&str; 26] = [
    "nop", "lda", "asl", "#", "1", "$", "(", ")", "{", "}", ",", "x", ":", "a", "\"", "\n", "\r",
    " ", "/*", "*/", "//", "=", ".byte", "*", "+", ".",
];

/// A text of the space together with where it came from.
pub struct Item<'a> {
    pub origin: &'a str,
    pub text: &'a str,
    pub side: &'a [(String, String)],
}

fn char_positions(s: &str) -> Vec<usize> {
    let mut v: Vec<usize> = s.char_indices().map(|(i, _)| i).collect();
    v.push(s.len());
    v
}

/// (a) single character edits. `f` is called for every text (in parallel over positions).
pub fn single_edits<F: Fn(Item) + Sync>(entries: &[Entry], chars: &[char], f: F) {
    let mut work: Vec<(usize, usize)> = vec![];
    for (ei, en) in entries.iter().enumerate() {
        for pi in 0..char_positions(&en.text).len() {
            work.push((ei, pi));
        }
    }
    work.into_par_iter().for_each(|(ei, pi)| {
        let en = &entries[ei];
        let pos = char_positions(&en.text);
        let at = pos[pi];
        let next = if pi + 1 < pos.len() { pos[pi + 1] } else { at };
        let mut buf = String::with_capacity(en.text.len() + 8);
        if pi == 0 {
            // the unedited text itself
            f(Item {
                origin: &en.name,
                text: &en.text,
                side: &en.side,
            });
        }
        // delete
        if next > at {
            buf.clear();
            buf.push_str(&en.text[..at]);
            buf.push_str(&en.text[next..]);
            f(Item {
                origin: &en.name,
                text: &buf,
                side: &en.side,
            });
        }
        for c in chars {
            // insert
            buf.clear();
            buf.push_str(&en.text[..at]);
            buf.push(*c);
            buf.push_str(&en.text[at..]);
            f(Item {
                origin: &en.name,
                text: &buf,
                side: &en.side,
            });
            // replace
            if next > at {
                buf.clear();
                buf.push_str(&en.text[..at]);
                buf.push(*c);
                buf.push_str(&en.text[next..]);
                f(Item {
                    origin: &en.name,
                    text: &buf,
                    side: &en.side,
                });
            }
        }
    });
}

/// (b) all token strings of length 1..=n.
pub fn token_strings<F: Fn(Item) + Sync>(n: usize, f: F) {
    let side: Vec<(String, String)> = vec![];
    let k = TOKENS.len();
    // parallel over the first two tokens
    let heads: Vec<(usize, usize)> = (0..k).flat_map(|a| (0..k).map(move |b| (a, b))).collect();
    // length 1
    for t in TOKENS.iter() {
        f(Item {
            origin: "tokens",
            text: t,
            side: &side,
        });
    }
    if n < 2 {
        return;
    }
    heads.into_par_iter().for_each(|(a, b)| {
        let mut buf = String::new();
        let head = format!("{}{}", TOKENS[a], TOKENS[b]);
        f(Item {
            origin: "tokens",
            text: &head,
            side: &side,
        });
        buf.push_str(&head);
        rec(&mut buf, n - 2, &side, &f);
    });
}

fn rec<F: Fn(Item) + Sync>(buf: &mut String, remaining: usize, side: &[(String, String)], f: &F) {
    if remaining == 0 {
        return;
    }
    for t in TOKENS.iter() {
        let l = buf.len();
        buf.push_str(t);
        f(Item {
            origin: "tokens",
            text: buf,
            side,
        });
        rec(buf, remaining - 1, side, f);
        buf.truncate(l);
    }
}

/// (b') operand shapes: `lda ` followed by every string of length 1..=n over the tokens an operand is
/// made of (parentheses, index suffixes inside and outside them, values, blanks, a comment).
pub const OPERAND_TOKENS: [&str; 10] = ["(", ")", ",x", ",y", "$10", "#", "a", ",", " ", "/* c */"];

pub fn operand_strings<F: Fn(Item) + Sync>(n: usize, f: F) {
    let side: Vec<(String, String)> = vec![];
    let k = OPERAND_TOKENS.len();
    (0..k).into_par_iter().for_each(|a| {
        fn rec2<F: Fn(Item) + Sync>(buf: &mut String, remaining: usize, side: &[(String, String)], f: &F) {
            f(Item { origin: "operand-shapes", text: buf, side });
            if remaining == 0 {
                return;
            }
            for t in OPERAND_TOKENS.iter() {
                let l = buf.len();
                buf.push_str(t);
                rec2(buf, remaining - 1, side, f);
                buf.truncate(l);
            }
        }
        let mut buf = format!("lda {}", OPERAND_TOKENS[a]);
        rec2(&mut buf, n - 1, &side, &f);
    });
}

/// (c) prefix(i) + suffix(j) of each example, cut at line starts; `step` thins i and j.
pub fn splices<F: Fn(Item) + Sync>(entries: &[Entry], step: usize, f: F) {
    let mut work = vec![];
    for (ei, en) in entries.iter().enumerate() {
        let mut starts: Vec<usize> = vec![0];
        for (i, b) in en.text.bytes().enumerate() {
            if b == b'\n' {
                starts.push(i + 1);
            }
        }
        let starts: Vec<usize> = starts.into_iter().step_by(step).collect();
        for i in 0..starts.len() {
            work.push((ei, starts.clone(), i));
        }
    }
    work.into_par_iter().for_each(|(ei, starts, i)| {
        let en = &entries[ei];
        let mut buf = String::new();
        for j in &starts {
            buf.clear();
            buf.push_str(&en.text[..starts[i]]);
            buf.push_str(&en.text[*j..]);
            f(Item {
                origin: &en.name,
                text: &buf,
                side: &en.side,
            });
        }
    });
}
