//! Fixed-point certificate checker (C02, used by C07 and C11 as well).
//!
//! It does *not* assemble. It walks the program AST once with a cursor and checks the
//! implementation's own final result for self-consistency: every label / block start / block end
//! symbol equals the cursor's target address, every statement's bytes are what that statement
//! must produce *under the implementation's final symbol table* (ISA model + own evaluator + own
//! scoping resolver), and the segment images consist of exactly those bytes. A program with
//! several valid fixed points therefore never raises an alarm.

use crate::probe::{Built, Sym};
use mvlib::grammar::*;
use mvlib::isa::{is_branch, Expect, Form, Isa};
use std::collections::{BTreeMap, HashMap, HashSet};

#[derive(Clone, Debug)]
pub struct Chunk {
    /// identity of the emitting statement (address of the `Stmt` in the AST)
    pub stmt: *const Stmt,
    /// innermost macro invocation statement this emission happened under
    pub invocation: Option<*const Stmt>,
    pub seg: String,
    /// address inside the segment (not relocated)
    pub addr: usize,
    /// relocated (target) address
    pub target: usize,
    pub bytes: Vec<u8>,
}

unsafe impl Send for Chunk {}
unsafe impl Sync for Chunk {}

#[derive(Clone, Debug, PartialEq, Eq)]
pub enum Problem {
    /// symbol value differs from the address the cursor has at its definition
    Label {
        path: String,
        kind: &'static str,
        expected: i64,
        actual: Option<i64>,
    },
    /// constant value differs from its expression under the final symbols
    Const { path: String, expected: String, actual: String },
    /// bytes in the image differ from what the statements produce
    Bytes {
        seg: String,
        addr: usize,
        expected: Vec<u8>,
        actual: Vec<u8>,
        stmt_kind: String,
    },
    /// bytes in the image that no statement accounts for
    Extra { seg: String, addr: usize, byte: u8 },
    /// the segment's reported range does not cover the statements' bytes
    Range { seg: String, expected: (usize, usize), actual: (usize, usize) },
    /// build succeeded although a statement cannot be encoded under the final symbols
    Unencodable { stmt_kind: String, why: String },
    /// `segments.x.start/end` differ from the segment's range
    SegmentSymbol { path: String, expected: i64, actual: Option<i64> },
}

#[derive(Debug, Default)]
pub struct Cert {
    pub chunks: Vec<Chunk>,
    pub problems: Vec<Problem>,
    /// constructs the checker does not model were met: no verdict possible
    pub unsupported: Vec<String>,
    pub forward_refs: usize,
    pub cross_segment_refs: usize,
    pub refs: usize,
}

#[derive(Clone, Debug, PartialEq)]
pub enum V {
    Num(i64),
    Str(String),
    Undef,
}

struct SegState {
    start: i64,
    pc: i64,
    offset: i64,
    /// address -> byte, later writes win
    mem: BTreeMap<usize, u8>,
}

pub struct Walker<'a> {
    isa: &'a Isa,
    syms: BTreeMap<String, Sym>,
    sym_types: BTreeMap<String, &'static str>,
    nodes: HashSet<String>,
    segs: Vec<(String, SegState)>,
    cur_seg: Option<usize>,
    scope: Vec<String>,
    anon: HashMap<*const Stmt, usize>,
    macros: Vec<(Vec<String>, &'a Stmt)>,
    macro_k: usize,
    invocation: Option<*const Stmt>,
    align_full: bool,
    out: Cert,
    /// label paths defined so far (to classify forward references)
    defined_labels: HashSet<String>,
    label_segment: HashMap<String, String>,
    default_pc: i64,
}

fn parse_num(t: &str) -> Option<i64> {
    let l = t.to_ascii_lowercase();
    if l == "true" {
        return Some(1);
    }
    if l == "false" {
        return Some(0);
    }
    if let Some(h) = t.strip_prefix('$') {
        return i64::from_str_radix(h, 16).ok();
    }
    if let Some(b) = t.strip_prefix('%') {
        return i64::from_str_radix(b, 2).ok();
    }
    t.parse::<i64>().ok()
}

fn number_anon(stmts: &[Stmt], counter: &mut usize, out: &mut HashMap<*const Stmt, usize>) {
    for s in stmts {
        match s {
            Stmt::Braces(b) => {
                number_anon(b, counter, out);
                *counter += 1;
                out.insert(s as *const Stmt, *counter);
            }
            Stmt::Loop { body, .. } => {
                number_anon(body, counter, out);
                *counter += 1;
                out.insert(s as *const Stmt, *counter);
            }
            Stmt::Import { block, .. } => {
                if let Some(b) = block {
                    number_anon(b, counter, out);
                }
                *counter += 1;
                out.insert(s as *const Stmt, *counter);
            }
            Stmt::Label { block: Some(b), .. } => number_anon(b, counter, out),
            Stmt::If { then, els, .. } => {
                number_anon(then, counter, out);
                if let Some(e) = els {
                    number_anon(e, counter, out);
                }
            }
            Stmt::MacroDef { body, .. } => number_anon(body, counter, out),
            // (an invocation gets its scope when it is parsed, like a block or a loop)
            Stmt::MacroCall { .. } => {
                *counter += 1;
                out.insert(s as *const Stmt, *counter);
            }
            Stmt::Segment { block: Some(b), .. } => number_anon(b, counter, out),
            Stmt::Test { body, .. } => number_anon(body, counter, out),
            _ => {}
        }
    }
}

impl<'a> Walker<'a> {
    pub fn new(isa: &'a Isa, built: &Built, prog: &'a [Stmt], align_full: bool) -> Walker<'a> {
        let mut syms = BTreeMap::new();
        let mut sym_types = BTreeMap::new();
        let mut nodes = HashSet::new();
        for (path, (v, ty)) in &built.symbols {
            syms.insert(path.clone(), v.clone());
            sym_types.insert(path.clone(), *ty);
            let parts: Vec<&str> = path.split('.').collect();
            for i in 1..=parts.len() {
                nodes.insert(parts[..i].join("."));
            }
        }
        let mut anon = HashMap::new();
        let mut counter = 0;
        number_anon(prog, &mut counter, &mut anon);
        Walker {
            isa,
            syms,
            sym_types,
            nodes,
            segs: vec![],
            cur_seg: None,
            scope: vec![],
            anon,
            macros: vec![],
            macro_k: 0,
            invocation: None,
            align_full,
            out: Cert::default(),
            defined_labels: HashSet::new(),
            label_segment: HashMap::new(),
            default_pc: 0x2000,
        }
    }

    fn scope_path(&self, name: &str) -> String {
        if self.scope.is_empty() {
            name.to_string()
        } else {
            format!("{}.{}", self.scope.join("."), name)
        }
    }

    /// Scoping resolver: innermost enclosing scope outward; `super` = parent; no bubbling when
    /// the path contains `super`.
    fn resolve(&self, path: &str) -> Option<(String, Option<Sym>)> {
        let parts: Vec<&str> = path.split('.').collect();
        let has_super = parts.iter().any(|p| *p == "super");
        let mut scope = self.scope.clone();
        loop {
            let mut cur = scope.clone();
            let mut ok = true;
            for p in &parts {
                if *p == "super" {
                    if cur.pop().is_none() {
                        ok = false;
                        break;
                    }
                } else {
                    cur.push(p.to_string());
                    if !self.nodes.contains(&cur.join(".")) {
                        ok = false;
                        break;
                    }
                }
            }
            if ok {
                let full = cur.join(".");
                return Some((full.clone(), self.syms.get(&full).cloned()));
            }
            if has_super || scope.is_empty() {
                return None;
            }
            scope.pop();
        }
    }

    fn target_pc(&self) -> Option<i64> {
        self.cur_seg.map(|i| self.segs[i].1.pc + self.segs[i].1.offset)
    }

    pub fn eval(&mut self, e: &Expr) -> V {
        match e {
            Expr::Num(t) => parse_num(t).map(V::Num).unwrap_or(V::Undef),
            Expr::Ident { modifier, path } => {
                self.out.refs += 1;
                match self.resolve(path) {
                    Some((full, Some(sym))) => {
                        if self.sym_types.get(&full) == Some(&"label") || path == "-" || path == "+" || path.ends_with(".-") || path.ends_with(".+") {
                            if !self.defined_labels.contains(&full) {
                                self.out.forward_refs += 1;
                            }
                            if let (Some(ls), Some(cs)) = (self.label_segment.get(&full), self.cur_seg) {
                                if *ls != self.segs[cs].0 {
                                    self.out.cross_segment_refs += 1;
                                }
                            }
                        }
                        match sym {
                            Sym::Num(n) => match modifier {
                                Some('<') => V::Num(n & 255),
                                Some('>') => V::Num((n >> 8) & 255),
                                _ => V::Num(n),
                            },
                            Sym::Str(s) => V::Str(s),
                            _ => V::Undef,
                        }
                    }
                    _ => V::Undef,
                }
            }
            Expr::Pc => V::Num(self.target_pc().unwrap_or(0)),
            Expr::Paren(i) => self.eval(i),
            Expr::Not(i) => match self.eval(i) {
                V::Num(n) => V::Num((n == 0) as i64),
                v => v,
            },
            Expr::Neg(i) => match self.eval(i) {
                V::Num(n) => V::Num(n.wrapping_neg()),
                v => v,
            },
            Expr::Bin(l, op, r) => {
                let (a, b) = (self.eval(l), self.eval(r));
                match (a, b) {
                    (V::Num(a), V::Num(b)) => V::Num(match *op {
                        "+" => a.wrapping_add(b),
                        "-" => a.wrapping_sub(b),
                        "*" => a.wrapping_mul(b),
                        "/" => {
                            if b == 0 {
                                return V::Undef;
                            } else {
                                a.wrapping_div(b)
                            }
                        }
                        "%" => {
                            if b == 0 {
                                return V::Undef;
                            } else {
                                a.wrapping_rem(b)
                            }
                        }
                        "<<" => a.wrapping_shl(b as u32),
                        ">>" => a.wrapping_shr(b as u32),
                        "^" => a ^ b,
                        "==" => (a == b) as i64,
                        "!=" => (a != b) as i64,
                        ">" => (a > b) as i64,
                        ">=" => (a >= b) as i64,
                        "<" => (a < b) as i64,
                        "<=" => (a <= b) as i64,
                        "&&" => (a != 0 && b != 0) as i64,
                        "||" => (a != 0 || b != 0) as i64,
                        _ => return V::Undef,
                    }),
                    (V::Str(a), V::Str(b)) => match *op {
                        "+" => V::Str(a + &b),
                        "==" => V::Num((a == b) as i64),
                        "!=" => V::Num((a != b) as i64),
                        _ => V::Undef,
                    },
                    _ => V::Undef,
                }
            }
            Expr::Call(name, args) => {
                if name == "defined" && args.len() == 1 {
                    let saved = (self.out.refs, self.out.forward_refs, self.out.cross_segment_refs);
                    let v = self.eval(&args[0]);
                    self.out.refs = saved.0;
                    self.out.forward_refs = saved.1;
                    self.out.cross_segment_refs = saved.2;
                    V::Num(!matches!(v, V::Undef) as i64)
                } else {
                    self.out.unsupported.push(format!("call:{}", name));
                    V::Undef
                }
            }
            Expr::Str(s) => {
                // interpolation {name}
                let mut out = String::new();
                let mut rest = s.as_str();
                while let Some(p) = rest.find('{') {
                    out.push_str(&rest[..p]);
                    let q = match rest[p..].find('}') {
                        Some(q) => p + q,
                        None => return V::Undef,
                    };
                    let name = &rest[p + 1..q];
                    match self.resolve(name.trim()) {
                        Some((_, Some(Sym::Num(n)))) => out.push_str(&n.to_string()),
                        Some((_, Some(Sym::Str(t)))) => out.push_str(&t),
                        _ => return V::Undef,
                    }
                    rest = &rest[q + 1..];
                }
                out.push_str(rest);
                V::Str(out)
            }
        }
    }

    fn emit(&mut self, stmt: &Stmt, bytes: Vec<u8>) {
        let i = match self.cur_seg {
            Some(i) => i,
            None => return,
        };
        let (name, st) = &mut self.segs[i];
        let addr = st.pc as usize;
        for (k, b) in bytes.iter().enumerate() {
            st.mem.insert(addr + k, *b);
        }
        self.out.chunks.push(Chunk {
            stmt: stmt as *const Stmt,
            invocation: self.invocation,
            seg: name.clone(),
            addr,
            target: (st.pc + st.offset) as usize,
            bytes: bytes.clone(),
        });
        st.pc += bytes.len() as i64;
    }

    fn check_label(&mut self, name: &str, kind: &'static str) {
        if let Some(pc) = self.target_pc() {
            let path = self.scope_path(name);
            let actual = match self.syms.get(&path) {
                Some(Sym::Num(n)) => Some(*n),
                _ => None,
            };
            if actual != Some(pc) {
                self.out.problems.push(Problem::Label {
                    path: path.clone(),
                    kind,
                    expected: pc,
                    actual,
                });
            }
            self.defined_labels.insert(path.clone());
            if let Some(cs) = self.cur_seg {
                self.label_segment.insert(path, self.segs[cs].0.clone());
            }
        }
    }

    fn with_scope(&mut self, name: &str, block_symbols: bool, body: &'a [Stmt]) {
        self.scope.push(name.to_string());
        if block_symbols {
            self.check_label("-", "block-start");
        }
        self.walk(body);
        if block_symbols {
            self.check_label("+", "block-end");
        }
        self.scope.pop();
    }

    fn find_macro(&self, name: &str) -> Option<&'a Stmt> {
        // innermost scope outward
        let mut scope = self.scope.clone();
        loop {
            for (sc, def) in &self.macros {
                if *sc == scope {
                    if let Stmt::MacroDef { name: n, .. } = def {
                        if n == name {
                            return Some(*def);
                        }
                    }
                }
            }
            if scope.is_empty() {
                return None;
            }
            scope.pop();
        }
    }

    fn register_macros(&mut self, stmts: &'a [Stmt], scope: &mut Vec<String>) {
        for s in stmts {
            match s {
                Stmt::MacroDef { .. } => self.macros.push((scope.clone(), s)),
                Stmt::Label { name, block: Some(b) } => {
                    scope.push(name.clone());
                    self.register_macros(b, scope);
                    scope.pop();
                }
                Stmt::Braces(b) => {
                    scope.push(format!("$scope_{}", self.anon[&(s as *const Stmt)]));
                    self.register_macros(b, scope);
                    scope.pop();
                }
                Stmt::If { then, els, .. } => {
                    self.register_macros(then, scope);
                    if let Some(e) = els {
                        self.register_macros(e, scope);
                    }
                }
                Stmt::Segment { block: Some(b), .. } => self.register_macros(b, scope),
                _ => {}
            }
        }
    }

    fn set_overlay(&mut self, path: &str, v: Sym) {
        let parts: Vec<&str> = path.split('.').collect();
        for i in 1..=parts.len() {
            self.nodes.insert(parts[..i].join("."));
        }
        self.syms.insert(path.to_string(), v);
    }

    pub fn walk(&mut self, stmts: &'a [Stmt]) {
        for s in stmts {
            self.stmt(s);
        }
    }

    fn ensure_default_segment(&mut self) {
        if self.segs.is_empty() {
            self.segs.push((
                "default".into(),
                SegState {
                    start: self.default_pc,
                    pc: self.default_pc,
                    offset: 0,
                    mem: BTreeMap::new(),
                },
            ));
            self.cur_seg = Some(0);
        }
    }

    fn stmt(&mut self, s: &'a Stmt) {
        // a default segment exists as soon as something other than a definition is assembled
        match s {
            Stmt::Define { .. } => {}
            _ => {
                if self.segs.is_empty() {
                    self.ensure_default_segment();
                }
            }
        }
        match s {
            Stmt::Instr {
                mnemonic,
                form,
                operand,
            } => {
                let m = mnemonic.to_ascii_lowercase();
                let v = match operand {
                    Some(e) => match self.eval(e) {
                        V::Num(n) => n,
                        other => {
                            self.out.problems.push(Problem::Unencodable {
                                stmt_kind: "instr".into(),
                                why: format!("operand of `{}` evaluates to {:?} under the final symbols", m, other),
                            });
                            return;
                        }
                    },
                    None => 0,
                };
                if is_branch(&m) {
                    if *form != Form::Plain {
                        self.out.problems.push(Problem::Unencodable {
                            stmt_kind: "instr".into(),
                            why: format!("branch `{}` with form {}", m, form.name()),
                        });
                        return;
                    }
                    let pc = self.target_pc().unwrap_or(0);
                    let d = v - (pc + 2);
                    if !(-128..=127).contains(&d) {
                        self.out.problems.push(Problem::Unencodable {
                            stmt_kind: "branch".into(),
                            why: format!("branch distance {} from ${:04x} to ${:04x}", d, pc + 2, v),
                        });
                        // keep the cursor in step with a 2-byte instruction
                        self.emit(s, vec![self.isa.branch_opcode(&m), 0]);
                        return;
                    }
                    self.emit(s, vec![self.isa.branch_opcode(&m), (d as i8) as u8]);
                    return;
                }
                if v < 0 {
                    self.out.unsupported.push("negative-operand".into());
                    return;
                }
                match self.isa.encode(&m, *form, v as u64) {
                    Expect::Bytes(b) => self.emit(s, b),
                    Expect::Reject => self.out.problems.push(Problem::Unencodable {
                        stmt_kind: "instr".into(),
                        why: format!("`{} {}` with value {} has no encoding", m, form.name(), v),
                    }),
                    Expect::Unspecified => self.out.unsupported.push("operand>65535".into()),
                }
            }
            Stmt::Data { size, values } => {
                for e in values {
                    match self.eval(e) {
                        V::Num(n) => {
                            let b = match *size {
                                ".byte" => vec![n as u8],
                                ".word" => (n as u16).to_le_bytes().to_vec(),
                                _ => (n as u32).to_le_bytes().to_vec(),
                            };
                            self.emit(s, b);
                        }
                        other => self.out.problems.push(Problem::Unencodable {
                            stmt_kind: "data".into(),
                            why: format!("data item evaluates to {:?}", other),
                        }),
                    }
                }
            }
            Stmt::Text { encoding, value } => match (encoding, self.eval(value)) {
                (None, V::Str(t)) | (Some("ascii"), V::Str(t)) => self.emit(s, t.into_bytes()),
                (_, V::Str(_)) => self.out.unsupported.push("text-encoding".into()),
                (_, other) => self.out.problems.push(Problem::Unencodable {
                    stmt_kind: "text".into(),
                    why: format!("text evaluates to {:?}", other),
                }),
            },
            Stmt::Label { name, block } => {
                self.check_label(name, "label");
                if let Some(b) = block {
                    self.with_scope(name, true, b);
                }
            }
            Stmt::Braces(b) => {
                let n = self.anon[&(s as *const Stmt)];
                self.with_scope(&format!("$scope_{}", n), true, b);
            }
            Stmt::Const { name, value } => {
                let v = self.eval(value);
                let path = self.scope_path(name);
                let actual = self.syms.get(&path).cloned();
                let same = match (&v, &actual) {
                    (V::Num(a), Some(Sym::Num(b))) => a == b,
                    (V::Str(a), Some(Sym::Str(b))) => a == b,
                    _ => false,
                };
                if !same {
                    self.out.problems.push(Problem::Const {
                        path,
                        expected: format!("{:?}", v),
                        actual: format!("{:?}", actual),
                    });
                }
            }
            Stmt::Var { name, value } => {
                let v = self.eval(value);
                let path = self.scope_path(name);
                match v {
                    V::Num(n) => self.set_overlay(&path, Sym::Num(n)),
                    V::Str(t) => self.set_overlay(&path, Sym::Str(t)),
                    V::Undef => self.out.unsupported.push("var-undefined".into()),
                }
            }
            Stmt::PcSet(e) => match self.eval(e) {
                V::Num(n) => {
                    if let Some(i) = self.cur_seg {
                        self.segs[i].1.pc = n;
                    }
                }
                _ => self.out.problems.push(Problem::Unencodable {
                    stmt_kind: "pcset".into(),
                    why: "program counter expression not a number".into(),
                }),
            },
            Stmt::Align(e) => match self.eval(e) {
                V::Num(n) if n > 0 => {
                    let pc = self.target_pc().unwrap_or(0);
                    let pad = if self.align_full {
                        n - pc % n
                    } else {
                        (n - pc % n) % n
                    };
                    self.emit(s, vec![0u8; pad as usize]);
                }
                _ => self.out.unsupported.push("align-arg".into()),
            },
            Stmt::Loop { count, body } => match self.eval(count) {
                V::Num(n) if (0..=64).contains(&n) => {
                    let an = self.anon[&(s as *const Stmt)];
                    for i in 0..n {
                        // every iteration has its own scope `$scope_<n>_<index>`
                        let scope_name = format!("$scope_{}_{}", an, i);
                        let idx_path = self.scope_path(&format!("{}.index", scope_name));
                        self.set_overlay(&idx_path, Sym::Num(i));
                        self.with_scope(&scope_name, true, body);
                        self.syms.remove(&idx_path);
                        self.nodes.remove(&idx_path);
                    }
                }
                _ => self.out.unsupported.push("loop-count".into()),
            },
            Stmt::If { cond, then, els } => match self.eval(cond) {
                V::Num(n) => {
                    if n != 0 {
                        self.walk(then);
                    } else if let Some(e) = els {
                        self.walk(e);
                    }
                }
                _ => self.out.unsupported.push("if-cond".into()),
            },
            Stmt::MacroDef { .. } => {}
            Stmt::MacroCall { name, args } => {
                let def = match self.find_macro(name) {
                    Some(d) => d,
                    None => {
                        self.out.unsupported.push("macro-not-found".into());
                        return;
                    }
                };
                if let Stmt::MacroDef { params, body, .. } = def {
                    if params.len() != args.len() {
                        self.out.problems.push(Problem::Unencodable {
                            stmt_kind: "macrocall".into(),
                            why: "argument count".into(),
                        });
                        return;
                    }
                    self.macro_k += 1;
                    let scope_name = format!("$scope_{}", self.anon[&(s as *const Stmt)]);
                    // arguments are evaluated in the new scope (which is empty: same as caller's)
                    self.scope.push(scope_name.clone());
                    for (p, a) in params.iter().zip(args.iter()) {
                        let v = self.eval(a);
                        let path = self.scope_path(p);
                        match v {
                            V::Num(n) => self.set_overlay(&path, Sym::Num(n)),
                            V::Str(t) => self.set_overlay(&path, Sym::Str(t)),
                            V::Undef => self.out.unsupported.push("macro-arg-undefined".into()),
                        }
                    }
                    let saved = self.invocation;
                    if self.invocation.is_none() {
                        self.invocation = Some(s as *const Stmt);
                    }
                    self.nodes.insert(self.scope.join("."));
                    self.walk(body);
                    self.invocation = saved;
                    self.scope.pop();
                }
            }
            Stmt::Define { kind, pairs } => {
                if *kind != "segment" {
                    self.out.unsupported.push("define-bank".into());
                    return;
                }
                let mut name = None;
                let mut start = 0i64;
                let mut pc = None;
                for (k, v) in pairs {
                    match k.as_str() {
                        "name" => {
                            if let V::Str(n) = self.eval(v) {
                                name = Some(n);
                            }
                        }
                        "start" => match self.eval(v) {
                            V::Num(n) => start = n,
                            _ => self.out.problems.push(Problem::Unencodable {
                                stmt_kind: "define-segment".into(),
                                why: "start does not evaluate under the final symbols".into(),
                            }),
                        },
                        "pc" => {
                            if let V::Num(n) = self.eval(v) {
                                pc = Some(n);
                            }
                        }
                        _ => {}
                    }
                }
                if let Some(n) = name {
                    self.segs.push((
                        n,
                        SegState {
                            start,
                            pc: start,
                            offset: pc.map(|p| p - start).unwrap_or(0),
                            mem: BTreeMap::new(),
                        },
                    ));
                    if self.cur_seg.is_none() {
                        self.cur_seg = Some(self.segs.len() - 1);
                    }
                }
            }
            Stmt::Segment { name, block } => {
                let n = match self.eval(name) {
                    V::Str(n) => n,
                    _ => {
                        self.out.unsupported.push("segment-name".into());
                        return;
                    }
                };
                let idx = match self.segs.iter().position(|(sn, _)| *sn == n) {
                    Some(i) => i,
                    None => {
                        self.out.problems.push(Problem::Unencodable {
                            stmt_kind: "segment".into(),
                            why: format!("unknown segment {}", n),
                        });
                        return;
                    }
                };
                match block {
                    Some(b) => {
                        let old = self.cur_seg;
                        self.cur_seg = Some(idx);
                        self.walk(b);
                        self.cur_seg = old;
                    }
                    None => self.cur_seg = Some(idx),
                }
            }
            Stmt::Assert { .. } | Stmt::Trace(_) => {}
            Stmt::Test { .. } => {}
            Stmt::Import { .. } => self.out.unsupported.push("import".into()),
            Stmt::File(_) => self.out.unsupported.push("file".into()),
            Stmt::Raw(_) => self.out.unsupported.push("raw".into()),
        }
    }

    /// Compares the model memory with the implementation's segments.
    fn finish(mut self, built: &Built) -> Cert {
        for (name, st) in &self.segs {
            let seg = match built.seg(name) {
                Some(s) => s,
                None => {
                    if !st.mem.is_empty() {
                        self.out.problems.push(Problem::Range {
                            seg: name.clone(),
                            expected: (
                                *st.mem.keys().next().unwrap(),
                                *st.mem.keys().next_back().unwrap() + 1,
                            ),
                            actual: (0, 0),
                        });
                    }
                    continue;
                }
            };
            if st.mem.is_empty() {
                if seg.bytes.iter().any(|b| *b != 0) {
                    self.out.problems.push(Problem::Extra {
                        seg: name.clone(),
                        addr: seg.start,
                        byte: *seg.bytes.iter().find(|b| **b != 0).unwrap(),
                    });
                }
                continue;
            }
            let lo = *st.mem.keys().next().unwrap();
            let hi = *st.mem.keys().next_back().unwrap() + 1;
            if seg.start > lo || seg.end < hi {
                self.out.problems.push(Problem::Range {
                    seg: name.clone(),
                    expected: (lo, hi),
                    actual: (seg.start, seg.end),
                });
                continue;
            }
            // every modelled byte
            let mut first_bad: Option<usize> = None;
            for (a, b) in &st.mem {
                if seg.bytes[*a - seg.start] != *b && first_bad.is_none() {
                    first_bad = Some(*a);
                }
            }
            if let Some(a) = first_bad {
                // report the chunk that owns this address (last writer)
                let owner = self
                    .out
                    .chunks
                    .iter()
                    .rev()
                    .find(|c| c.seg == *name && c.addr <= a && a < c.addr + c.bytes.len());
                let (addr, expected, kind) = match owner {
                    Some(c) => (c.addr, c.bytes.clone(), unsafe { stmt_kind(&*c.stmt) }),
                    None => (a, vec![st.mem[&a]], "?".to_string()),
                };
                let end = (addr + expected.len()).min(seg.end);
                self.out.problems.push(Problem::Bytes {
                    seg: name.clone(),
                    addr,
                    expected,
                    actual: seg.bytes[addr - seg.start..end - seg.start].to_vec(),
                    stmt_kind: kind,
                });
            }
            // bytes nobody accounts for
            for (i, b) in seg.bytes.iter().enumerate() {
                let a = seg.start + i;
                if *b != 0 && !st.mem.contains_key(&a) {
                    self.out.problems.push(Problem::Extra {
                        seg: name.clone(),
                        addr: a,
                        byte: *b,
                    });
                    break;
                }
            }
            // range must be exactly the statements' range
            if (seg.start, seg.end) != (lo, hi) {
                // zero-length emissions can legitimately widen the range: only a *narrower*
                // range is wrong, handled above; a wider one is reported when it holds no model byte
                // and is not explained by an empty emission – conservatively not judged
            }
            // segments.<name>.start / end
            for (suffix, val) in [("start", seg.start as i64), ("end", seg.end as i64)] {
                let path = format!("segments.{}.{}", name, suffix);
                let actual = match self.syms.get(&path) {
                    Some(Sym::Num(n)) => Some(*n),
                    _ => None,
                };
                if actual != Some(val) {
                    self.out.problems.push(Problem::SegmentSymbol {
                        path,
                        expected: val,
                        actual,
                    });
                }
            }
        }
        self.out
    }
}

pub fn stmt_kind(s: &Stmt) -> String {
    match s {
        Stmt::Instr { mnemonic, form, .. } => {
            if is_branch(&mnemonic.to_ascii_lowercase()) {
                "branch".to_string()
            } else {
                format!("instr:{}", form.name())
            }
        }
        Stmt::Data { size, .. } => format!("data:{}", size),
        Stmt::Text { .. } => "text".into(),
        Stmt::Align(_) => "align".into(),
        _ => "other".into(),
    }
}

/// Runs the certificate check. `.align` is accepted with either padding convention.
pub fn certify<'a>(isa: &'a Isa, built: &Built, prog: &'a [Stmt]) -> Cert {
    let mut best: Option<Cert> = None;
    for align_full in [true, false] {
        let mut w = Walker::new(isa, built, prog, align_full);
        let mut scope = vec![];
        w.register_macros(prog, &mut scope);
        w.walk(prog);
        let c = w.finish(built);
        let has_align = contains_align(prog);
        if c.problems.is_empty() || !has_align {
            return c;
        }
        if best.is_none() {
            best = Some(c);
        }
    }
    best.unwrap()
}

fn contains_align(stmts: &[Stmt]) -> bool {
    stmts.iter().any(|s| match s {
        Stmt::Align(_) => true,
        Stmt::Braces(b) | Stmt::Loop { body: b, .. } | Stmt::MacroDef { body: b, .. } | Stmt::Test { body: b, .. } => contains_align(b),
        Stmt::Label { block: Some(b), .. } | Stmt::Segment { block: Some(b), .. } => contains_align(b),
        Stmt::If { then, els, .. } => contains_align(then) || els.as_ref().map_or(false, |e| contains_align(e)),
        _ => false,
    })
}
