//! Shared plumbing of the mos verification harness: run context (counters, evidence,
//! findings protocol), panic capture, ISA reference model, program grammar with trivia slots.
//! Nothing in this crate depends on the repository under test.

pub mod grammar;
pub mod isa;
pub mod panics;
pub mod progs;
pub mod report;

pub use report::{Ctx, Finding, Tier};

/// FNV-1a, used wherever a stable (seed independent) hash of a case is needed.
pub fn fnv(bytes: &[u8]) -> u64 {
    let mut h: u64 = 0xcbf29ce484222325;
    for b in bytes {
        h ^= *b as u64;
        h = h.wrapping_mul(0x100000001b3);
    }
    h
}

pub fn fnv_str(s: &str) -> u64 {
    fnv(s.as_bytes())
}
