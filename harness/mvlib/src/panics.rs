//! Panic capture: a quiet panic hook that stores message and location in a thread local, and
//! `guard` = catch_unwind returning that information.

use std::cell::RefCell;
use std::panic::{catch_unwind, AssertUnwindSafe};
use std::sync::Once;

#[derive(Debug, Clone, PartialEq, Eq, Hash)]
pub struct PanicInfo {
    pub message: String,
    /// `file:line` of the panic site, path made relative to the repository where possible
    pub site: String,
}

thread_local! {
    static LAST: RefCell<Option<PanicInfo>> = RefCell::new(None);
}

static INSTALL: Once = Once::new();

pub fn install_quiet_hook() {
    INSTALL.call_once(|| {
        std::panic::set_hook(Box::new(|info| {
            let message = if let Some(s) = info.payload().downcast_ref::<&str>() {
                s.to_string()
            } else if let Some(s) = info.payload().downcast_ref::<String>() {
                s.clone()
            } else {
                "<non-string panic payload>".to_string()
            };
            let site = match info.location() {
                Some(l) => format!("{}:{}", shorten(l.file()), l.line()),
                None => "<unknown>".to_string(),
            };
            LAST.with(|l| *l.borrow_mut() = Some(PanicInfo { message, site }));
        }));
    });
}

fn shorten(file: &str) -> String {
    if let Some(idx) = file.find("/repo/") {
        return file[idx + 6..].to_string();
    }
    if let Some(idx) = file.find("/registry/src/") {
        let rest = &file[idx + 14..];
        if let Some(slash) = rest.find('/') {
            return rest[slash + 1..].to_string();
        }
    }
    if let Some(idx) = file.find("/library/") {
        return file[idx + 1..].to_string();
    }
    file.to_string()
}

/// Runs `f`, converting a panic into `Err(PanicInfo)`.
pub fn guard<T>(f: impl FnOnce() -> T) -> Result<T, PanicInfo> {
    install_quiet_hook();
    LAST.with(|l| *l.borrow_mut() = None);
    match catch_unwind(AssertUnwindSafe(f)) {
        Ok(v) => Ok(v),
        Err(_) => Err(LAST.with(|l| l.borrow_mut().take()).unwrap_or(PanicInfo {
            message: "<panic without hook information>".into(),
            site: "<unknown>".into(),
        })),
    }
}
