//! Program AST with trivia slots.
//!
//! Programs are built as values of `Stmt`/`Expr`, rendered into a flat list of terminals. Every
//! terminal knows which kind of trivia the assembler's parser accepts *immediately before it*
//! (`Slot::Ws` = spaces/tabs/block comments, `Slot::Mws` = also newlines and line comments,
//! `Slot::None` = nothing), what kind of terminal it is, whether its letter case may be flipped,
//! and the statement it belongs to. One AST therefore yields the text, all layout/case variants,
//! and the statement <-> source range map.

use crate::isa::Form;

#[derive(Clone, Copy, PartialEq, Eq, Debug, Hash, PartialOrd, Ord)]
pub enum Slot {
    None,
    Ws,
    Mws,
}

#[derive(Clone, Copy, PartialEq, Eq, Debug, Hash, PartialOrd, Ord)]
pub enum Kind {
    Mnemonic,
    Directive,
    Register,
    Number,
    Hex,
    Keyword,
    Ident,
    Punct,
    Op,
    Str,
    Raw,
}

impl Kind {
    pub fn name(self) -> &'static str {
        match self {
            Kind::Mnemonic => "mnemonic",
            Kind::Directive => "directive",
            Kind::Register => "register",
            Kind::Number => "number",
            Kind::Hex => "hex",
            Kind::Keyword => "keyword",
            Kind::Ident => "ident",
            Kind::Punct => "punct",
            Kind::Op => "op",
            Kind::Str => "string",
            Kind::Raw => "raw",
        }
    }
}

#[derive(Clone, Debug)]
pub struct Term {
    pub text: String,
    pub kind: Kind,
    pub slot: Slot,
    /// default separator written before this terminal
    pub sep: &'static str,
    /// innermost statement (preorder id) this terminal belongs to
    pub stmt: usize,
    /// letter case may be changed without changing the meaning
    pub flip: bool,
}

#[derive(Clone, Debug, PartialEq, Eq, Hash)]
pub enum Expr {
    /// literal exactly as written: `12`, `$ff`, `%101`, `007`, `true`
    Num(String),
    Ident {
        modifier: Option<char>,
        path: String,
    },
    Pc,
    Paren(Box<Expr>),
    Bin(Box<Expr>, &'static str, Box<Expr>),
    Not(Box<Expr>),
    Neg(Box<Expr>),
    Call(String, Vec<Expr>),
    /// contents between the quotes
    Str(String),
}

pub fn num(v: i64) -> Expr {
    Expr::Num(v.to_string())
}
pub fn hex(v: i64) -> Expr {
    if v > 255 {
        Expr::Num(format!("${:04x}", v))
    } else {
        Expr::Num(format!("${:02x}", v))
    }
}
pub fn lit(s: &str) -> Expr {
    Expr::Num(s.to_string())
}
pub fn id(path: &str) -> Expr {
    Expr::Ident {
        modifier: None,
        path: path.to_string(),
    }
}
pub fn lo(path: &str) -> Expr {
    Expr::Ident {
        modifier: Some('<'),
        path: path.to_string(),
    }
}
pub fn hi(path: &str) -> Expr {
    Expr::Ident {
        modifier: Some('>'),
        path: path.to_string(),
    }
}
pub fn bin(l: Expr, op: &'static str, r: Expr) -> Expr {
    Expr::Bin(Box::new(l), op, Box::new(r))
}
pub fn paren(e: Expr) -> Expr {
    Expr::Paren(Box::new(e))
}
pub fn string(s: &str) -> Expr {
    Expr::Str(s.to_string())
}

#[derive(Clone, Debug, PartialEq, Eq, Hash)]
pub enum ImportArgs {
    /// `*` [as ns]
    All(Option<String>),
    /// name [as alias], …
    Specific(Vec<(String, Option<String>)>),
}

#[derive(Clone, Debug, PartialEq, Eq, Hash)]
pub enum Stmt {
    Instr {
        mnemonic: String,
        form: Form,
        operand: Option<Expr>,
    },
    Data {
        size: &'static str,
        values: Vec<Expr>,
    },
    Text {
        encoding: Option<&'static str>,
        value: Expr,
    },
    Label {
        name: String,
        block: Option<Vec<Stmt>>,
    },
    Braces(Vec<Stmt>),
    Const {
        name: String,
        value: Expr,
    },
    Var {
        name: String,
        value: Expr,
    },
    PcSet(Expr),
    Align(Expr),
    Loop {
        count: Expr,
        body: Vec<Stmt>,
    },
    If {
        cond: Expr,
        then: Vec<Stmt>,
        els: Option<Vec<Stmt>>,
    },
    MacroDef {
        name: String,
        params: Vec<String>,
        body: Vec<Stmt>,
    },
    MacroCall {
        name: String,
        args: Vec<Expr>,
    },
    /// `.define segment|bank { key = value … }`
    Define {
        kind: &'static str,
        pairs: Vec<(String, Expr)>,
    },
    Segment {
        name: Expr,
        block: Option<Vec<Stmt>>,
    },
    Import {
        args: ImportArgs,
        file: String,
        block: Option<Vec<Stmt>>,
    },
    Test {
        name: String,
        body: Vec<Stmt>,
    },
    Assert {
        cond: Expr,
        msg: Option<String>,
    },
    Trace(Option<Vec<Expr>>),
    File(String),
    /// verbatim text occupying one statement position (fault injection)
    Raw(String),
}

pub fn instr(m: &str, form: Form, operand: Option<Expr>) -> Stmt {
    Stmt::Instr {
        mnemonic: m.to_string(),
        form,
        operand,
    }
}
pub fn imp(m: &str) -> Stmt {
    instr(m, Form::Implied, None)
}
pub fn ins(m: &str, form: Form, e: Expr) -> Stmt {
    instr(m, form, Some(e))
}
pub fn label(name: &str) -> Stmt {
    Stmt::Label {
        name: name.to_string(),
        block: None,
    }
}
pub fn label_block(name: &str, b: Vec<Stmt>) -> Stmt {
    Stmt::Label {
        name: name.to_string(),
        block: Some(b),
    }
}
pub fn byte(values: Vec<Expr>) -> Stmt {
    Stmt::Data {
        size: ".byte",
        values,
    }
}
pub fn word(values: Vec<Expr>) -> Stmt {
    Stmt::Data {
        size: ".word",
        values,
    }
}
pub fn dword(values: Vec<Expr>) -> Stmt {
    Stmt::Data {
        size: ".dword",
        values,
    }
}
pub fn konst(name: &str, value: Expr) -> Stmt {
    Stmt::Const {
        name: name.to_string(),
        value,
    }
}

/// Extent of a statement in terminals (inclusive first, exclusive end), nested statements included.
#[derive(Clone, Copy, Debug, Default)]
pub struct Extent {
    pub first: usize,
    pub end: usize,
    pub parent: Option<usize>,
    pub depth: usize,
}

#[derive(Clone, Debug, Default)]
pub struct Rendered {
    pub terms: Vec<Term>,
    pub stmts: Vec<Extent>,
    /// short description of each statement's kind (by preorder id)
    pub kinds: Vec<&'static str>,
}

#[derive(Clone, Debug)]
pub struct Layout {
    pub text: String,
    /// byte range of every terminal in `text`
    pub ranges: Vec<(usize, usize)>,
}

impl Layout {
    /// 0-based (line, column in bytes) of a byte offset
    pub fn line_col(&self, offset: usize) -> (usize, usize) {
        let before = &self.text.as_bytes()[..offset];
        let line = before.iter().filter(|b| **b == b'\n').count();
        let col = match before.iter().rposition(|b| *b == b'\n') {
            Some(p) => offset - p - 1,
            None => offset,
        };
        (line, col)
    }
}

struct R {
    out: Rendered,
    cur: usize,
    stack: Vec<usize>,
    next_sep: Option<&'static str>,
}

impl R {
    fn term(&mut self, text: &str, kind: Kind, slot: Slot, sep: &'static str, flip: bool) {
        let sep = self.next_sep.take().unwrap_or(sep);
        self.out.terms.push(Term {
            text: text.to_string(),
            kind,
            slot,
            sep,
            stmt: self.cur,
            flip,
        });
    }

    fn begin(&mut self, kind: &'static str) -> usize {
        let idx = self.out.stmts.len();
        self.out.stmts.push(Extent {
            first: self.out.terms.len(),
            end: 0,
            parent: self.stack.last().copied(),
            depth: self.stack.len(),
        });
        self.out.kinds.push(kind);
        self.stack.push(idx);
        self.cur = idx;
        idx
    }

    fn end(&mut self, idx: usize) {
        self.out.stmts[idx].end = self.out.terms.len();
        self.stack.pop();
        self.cur = self.stack.last().copied().unwrap_or(0);
    }

    fn expr(&mut self, e: &Expr, sep: &'static str) {
        self.expr_ctx(e, sep);
    }

    fn expr_ctx(&mut self, e: &Expr, sep: &'static str) {
        match e {
            Expr::Num(t) => {
                let lower = t.to_ascii_lowercase();
                if lower == "true" || lower == "false" {
                    self.term(t, Kind::Keyword, Slot::Ws, sep, true);
                } else if t.starts_with('$') {
                    // (the parser accepts single-line trivia between the radix prefix and the digits)
                    let has_alpha = t.chars().any(|c| c.is_ascii_alphabetic());
                    self.term("$", Kind::Punct, Slot::Ws, sep, false);
                    self.term(&t[1..], Kind::Hex, Slot::Ws, "", has_alpha);
                } else if t.starts_with('%') {
                    self.term("%", Kind::Punct, Slot::Ws, sep, false);
                    self.term(&t[1..], Kind::Number, Slot::Ws, "", false);
                } else {
                    self.term(t, Kind::Number, Slot::Ws, sep, false);
                }
            }
            Expr::Ident { modifier, path } => match modifier {
                Some(m) => {
                    self.term(&m.to_string(), Kind::Op, Slot::Ws, sep, false);
                    self.term(path, Kind::Ident, Slot::Ws, "", false);
                }
                None => self.term(path, Kind::Ident, Slot::Ws, sep, false),
            },
            Expr::Pc => self.term("*", Kind::Punct, Slot::Ws, sep, false),
            Expr::Paren(inner) => {
                self.term("(", Kind::Punct, Slot::Ws, sep, false);
                self.expr_ctx(inner, "");
                self.term(")", Kind::Punct, Slot::Ws, "", false);
            }
            Expr::Bin(l, op, r) => {
                self.expr_ctx(l, sep);
                self.term(op, Kind::Op, Slot::Ws, " ", false);
                self.expr_ctx(r, " ");
            }
            Expr::Not(inner) => {
                self.term("!", Kind::Op, Slot::Ws, sep, false);
                self.expr_ctx(inner, "");
            }
            Expr::Neg(inner) => {
                self.term("-", Kind::Op, Slot::Ws, sep, false);
                // `-` followed by anything but a letter or digit is the scope-start identifier
                // `-` in the assembler's grammar, so no trivia may follow the prefix minus
                let before = self.out.terms.len();
                self.expr_ctx(inner, "");
                self.out.terms[before].slot = Slot::None;
            }
            Expr::Call(name, args) => {
                // the parser accepts multi-line trivia before a function name; only single-line
                // trivia is ever inserted here (conservative)
                self.term(name, Kind::Ident, Slot::Ws, sep, false);
                self.term("(", Kind::Punct, Slot::Ws, "", false);
                for (i, a) in args.iter().enumerate() {
                    if i > 0 {
                        self.term(",", Kind::Punct, Slot::Ws, "", false);
                        self.expr_ctx(a, " ");
                    } else {
                        self.expr_ctx(a, "");
                    }
                }
                self.term(")", Kind::Punct, Slot::Ws, "", false);
            }
            Expr::Str(s) => {
                self.term(&format!("\"{}\"", s), Kind::Str, Slot::Ws, sep, false);
            }
        }
    }

    fn block(&mut self, body: &[Stmt]) {
        self.term("{", Kind::Punct, Slot::Mws, " ", false);
        let owner = self.cur;
        for s in body {
            self.stmt(s, "\n");
        }
        self.cur = owner;
        self.term("}", Kind::Punct, Slot::Mws, "\n", false);
    }

    fn stmt(&mut self, s: &Stmt, sep: &'static str) {
        match s {
            Stmt::Instr {
                mnemonic,
                form,
                operand,
            } => {
                let id = self.begin("instr");
                self.term(mnemonic, Kind::Mnemonic, Slot::Mws, sep, true);
                if let Some(e) = operand {
                    let reg = |r: &mut R, t: &str| {
                        r.term(",", Kind::Punct, Slot::Ws, "", false);
                        r.term(t, Kind::Register, Slot::Ws, "", true);
                    };
                    match form {
                        Form::Implied => {}
                        Form::Imm => {
                            self.term("#", Kind::Punct, Slot::Ws, " ", false);
                            self.expr(e, "");
                        }
                        Form::Plain => self.expr(e, " "),
                        Form::PlainX => {
                            self.expr(e, " ");
                            reg(self, "x");
                        }
                        Form::PlainY => {
                            self.expr(e, " ");
                            reg(self, "y");
                        }
                        Form::IndX | Form::IndYInner => {
                            self.term("(", Kind::Punct, Slot::Ws, " ", false);
                            self.expr(e, "");
                            reg(self, if *form == Form::IndX { "x" } else { "y" });
                            self.term(")", Kind::Punct, Slot::Ws, "", false);
                        }
                        Form::IndY | Form::IndXOuter => {
                            self.term("(", Kind::Punct, Slot::Ws, " ", false);
                            self.expr(e, "");
                            self.term(")", Kind::Punct, Slot::Ws, "", false);
                            reg(self, if *form == Form::IndY { "y" } else { "x" });
                        }
                        Form::Ind => {
                            self.term("(", Kind::Punct, Slot::Ws, " ", false);
                            self.expr(e, "");
                            self.term(")", Kind::Punct, Slot::Ws, "", false);
                        }
                    }
                }
                self.end(id);
            }
            Stmt::Data { size, values } => {
                let id = self.begin("data");
                self.term(size, Kind::Directive, Slot::Mws, sep, true);
                for (i, v) in values.iter().enumerate() {
                    if i > 0 {
                        self.term(",", Kind::Punct, Slot::Ws, "", false);
                    }
                    self.expr(v, " ");
                }
                self.end(id);
            }
            Stmt::Text { encoding, value } => {
                let id = self.begin("text");
                self.term(".text", Kind::Directive, Slot::Mws, sep, true);
                if let Some(enc) = encoding {
                    self.term(enc, Kind::Keyword, Slot::Ws, " ", true);
                }
                self.expr(value, " ");
                self.end(id);
            }
            Stmt::Label { name, block } => {
                let id = self.begin(if block.is_some() {
                    "label-block"
                } else {
                    "label"
                });
                self.term(name, Kind::Ident, Slot::Mws, sep, false);
                self.term(":", Kind::Punct, Slot::None, "", false);
                if let Some(b) = block {
                    self.block(b);
                }
                self.end(id);
            }
            Stmt::Braces(body) => {
                let id = self.begin("braces");
                self.next_sep = Some(sep);
                self.block(body);
                self.end(id);
            }
            Stmt::Const { name, value } | Stmt::Var { name, value } => {
                let is_const = matches!(s, Stmt::Const { .. });
                let id = self.begin(if is_const { "const" } else { "var" });
                self.term(
                    if is_const { ".const" } else { ".var" },
                    Kind::Directive,
                    Slot::Mws,
                    sep,
                    true,
                );
                self.term(name, Kind::Ident, Slot::Ws, " ", false);
                self.term("=", Kind::Punct, Slot::Ws, " ", false);
                self.expr(value, " ");
                self.end(id);
            }
            Stmt::PcSet(e) => {
                let id = self.begin("pcset");
                self.term("*", Kind::Punct, Slot::Mws, sep, false);
                self.term("=", Kind::Punct, Slot::Ws, " ", false);
                self.expr(e, " ");
                self.end(id);
            }
            Stmt::Align(e) => {
                let id = self.begin("align");
                self.term(".align", Kind::Directive, Slot::Mws, sep, true);
                self.expr(e, " ");
                self.end(id);
            }
            Stmt::Loop { count, body } => {
                let id = self.begin("loop");
                self.term(".loop", Kind::Directive, Slot::Mws, sep, true);
                self.expr(count, " ");
                self.block(body);
                self.end(id);
            }
            Stmt::If { cond, then, els } => {
                let id = self.begin("if");
                self.term(".if", Kind::Directive, Slot::Mws, sep, true);
                self.expr(cond, " ");
                self.block(then);
                if let Some(e) = els {
                    self.term("else", Kind::Keyword, Slot::Mws, " ", true);
                    self.block(e);
                }
                self.end(id);
            }
            Stmt::MacroDef { name, params, body } => {
                let id = self.begin("macrodef");
                self.term(".macro", Kind::Directive, Slot::Mws, sep, true);
                self.term(name, Kind::Ident, Slot::Ws, " ", false);
                self.term("(", Kind::Punct, Slot::Ws, "", false);
                for (i, p) in params.iter().enumerate() {
                    if i > 0 {
                        self.term(",", Kind::Punct, Slot::Ws, "", false);
                        self.term(p, Kind::Ident, Slot::Ws, " ", false);
                    } else {
                        self.term(p, Kind::Ident, Slot::Ws, "", false);
                    }
                }
                self.term(")", Kind::Punct, Slot::Ws, "", false);
                self.block(body);
                self.end(id);
            }
            Stmt::MacroCall { name, args } => {
                let id = self.begin("macrocall");
                self.term(name, Kind::Ident, Slot::Mws, sep, false);
                self.term("(", Kind::Punct, Slot::Ws, "", false);
                for (i, a) in args.iter().enumerate() {
                    if i > 0 {
                        self.term(",", Kind::Punct, Slot::Ws, "", false);
                        self.expr(a, " ");
                    } else {
                        self.expr(a, "");
                    }
                }
                self.term(")", Kind::Punct, Slot::Ws, "", false);
                self.end(id);
            }
            Stmt::Define { kind, pairs } => {
                let id = self.begin("define");
                self.term(".define", Kind::Directive, Slot::Mws, sep, true);
                self.term(kind, Kind::Ident, Slot::Ws, " ", false);
                self.term("{", Kind::Punct, Slot::Mws, " ", false);
                for (k, v) in pairs {
                    self.term(k, Kind::Ident, Slot::Mws, "\n", false);
                    self.term("=", Kind::Punct, Slot::Mws, " ", false);
                    // value: mws(value) followed by the expression's own ws
                    let before = self.out.terms.len();
                    self.expr(v, " ");
                    self.out.terms[before].slot = Slot::Mws;
                }
                self.term("}", Kind::Punct, Slot::Mws, "\n", false);
                self.end(id);
            }
            Stmt::Segment { name, block } => {
                let id = self.begin("segment");
                self.term(".segment", Kind::Directive, Slot::Mws, sep, true);
                self.expr(name, " ");
                if let Some(b) = block {
                    self.block(b);
                }
                self.end(id);
            }
            Stmt::Import { args, file, block } => {
                let id = self.begin("import");
                self.term(".import", Kind::Directive, Slot::Mws, sep, true);
                match args {
                    ImportArgs::All(as_) => {
                        self.term("*", Kind::Punct, Slot::Ws, " ", false);
                        if let Some(ns) = as_ {
                            self.term("as", Kind::Keyword, Slot::Ws, " ", true);
                            self.term(ns, Kind::Ident, Slot::Ws, " ", false);
                        }
                    }
                    ImportArgs::Specific(list) => {
                        for (i, (name, alias)) in list.iter().enumerate() {
                            if i > 0 {
                                self.term(",", Kind::Punct, Slot::Ws, "", false);
                            }
                            self.term(name, Kind::Ident, Slot::Ws, " ", false);
                            if let Some(a) = alias {
                                self.term("as", Kind::Keyword, Slot::Ws, " ", true);
                                self.term(a, Kind::Ident, Slot::Ws, " ", false);
                            }
                        }
                    }
                }
                self.term("from", Kind::Keyword, Slot::Mws, " ", true);
                self.term(&format!("\"{}\"", file), Kind::Str, Slot::Ws, " ", false);
                if let Some(b) = block {
                    self.block(b);
                }
                self.end(id);
            }
            Stmt::Test { name, body } => {
                let id = self.begin("test");
                self.term(".test", Kind::Directive, Slot::Mws, sep, true);
                self.term(&format!("\"{}\"", name), Kind::Str, Slot::Ws, " ", false);
                self.block(body);
                self.end(id);
            }
            Stmt::Assert { cond, msg } => {
                let id = self.begin("assert");
                self.term(".assert", Kind::Directive, Slot::Mws, sep, true);
                self.expr(cond, " ");
                if let Some(m) = msg {
                    self.term(&format!("\"{}\"", m), Kind::Str, Slot::Ws, " ", false);
                }
                self.end(id);
            }
            Stmt::Trace(args) => {
                let id = self.begin("trace");
                self.term(".trace", Kind::Directive, Slot::Mws, sep, true);
                if let Some(args) = args {
                    self.term("(", Kind::Punct, Slot::Ws, " ", false);
                    for (i, a) in args.iter().enumerate() {
                        if i > 0 {
                            self.term(",", Kind::Punct, Slot::Ws, "", false);
                            self.expr(a, " ");
                        } else {
                            self.expr(a, "");
                        }
                    }
                    self.term(")", Kind::Punct, Slot::Ws, "", false);
                }
                self.end(id);
            }
            Stmt::File(name) => {
                let id = self.begin("file");
                self.term(".file", Kind::Directive, Slot::Mws, sep, true);
                self.term(&format!("\"{}\"", name), Kind::Str, Slot::Ws, " ", false);
                self.end(id);
            }
            Stmt::Raw(text) => {
                let id = self.begin("raw");
                self.term(text, Kind::Raw, Slot::None, sep, false);
                self.end(id);
            }
        }
    }
}

pub fn render(prog: &[Stmt]) -> Rendered {
    let mut r = R {
        out: Rendered::default(),
        cur: 0,
        stack: vec![],
        next_sep: None,
    };
    for (i, s) in prog.iter().enumerate() {
        r.stmt(s, if i == 0 { "" } else { "\n" });
    }
    r.out
}

/// A deviation from the default layout.
#[derive(Clone, Debug, PartialEq, Eq, Hash)]
pub enum Dev {
    /// insert this trivia text before terminal `0` (after its default separator)
    Insert(usize, String),
    /// flip the letter case of terminal `0`
    Flip(usize),
    /// replace the default separator of terminal `0`
    Sep(usize, String),
}

fn flip_case(s: &str) -> String {
    let any_lower = s.chars().any(|c| c.is_ascii_lowercase());
    if any_lower {
        s.to_ascii_uppercase()
    } else {
        s.to_ascii_lowercase()
    }
}

impl Rendered {
    pub fn text(&self) -> String {
        self.layout(&[]).text
    }

    pub fn layout(&self, devs: &[Dev]) -> Layout {
        let mut text = String::new();
        let mut ranges = Vec::with_capacity(self.terms.len());
        for (i, t) in self.terms.iter().enumerate() {
            let mut sep: &str = t.sep;
            for d in devs {
                if let Dev::Sep(j, s) = d {
                    if *j == i {
                        sep = s.as_str();
                    }
                }
            }
            text.push_str(sep);
            for d in devs {
                if let Dev::Insert(j, s) = d {
                    if *j == i {
                        text.push_str(s);
                    }
                }
            }
            let start = text.len();
            let mut flipped = false;
            for d in devs {
                if let Dev::Flip(j) = d {
                    if *j == i {
                        flipped = !flipped;
                    }
                }
            }
            if flipped {
                text.push_str(&flip_case(&t.text));
            } else {
                text.push_str(&t.text);
            }
            ranges.push((start, text.len()));
        }
        Layout { text, ranges }
    }

    /// Outermost statement id of a statement (walks `parent`).
    pub fn outermost(&self, stmt: usize) -> usize {
        let mut s = stmt;
        while let Some(p) = self.stmts[s].parent {
            s = p;
        }
        s
    }
}

pub fn program_text(prog: &[Stmt]) -> String {
    render(prog).text()
}

/// Single-statement convenience.
pub fn stmt_text(s: &Stmt) -> String {
    render(std::slice::from_ref(s)).text()
}

/// The statements of a program in the order in which `render` numbers them (preorder).
pub fn preorder<'a>(prog: &'a [Stmt]) -> Vec<&'a Stmt> {
    fn walk<'a>(stmts: &'a [Stmt], out: &mut Vec<&'a Stmt>) {
        for s in stmts {
            out.push(s);
            match s {
                Stmt::Label { block: Some(b), .. } => walk(b, out),
                Stmt::Braces(b) => walk(b, out),
                Stmt::Loop { body, .. } => walk(body, out),
                Stmt::If { then, els, .. } => {
                    walk(then, out);
                    if let Some(e) = els {
                        walk(e, out);
                    }
                }
                Stmt::MacroDef { body, .. } => walk(body, out),
                Stmt::Segment { block: Some(b), .. } => walk(b, out),
                Stmt::Import { block: Some(b), .. } => walk(b, out),
                Stmt::Test { body, .. } => walk(body, out),
                _ => {}
            }
        }
    }
    let mut out = vec![];
    walk(prog, &mut out);
    out
}

impl Rendered {
    /// Two statements on one line: may the line break before terminal `i` (a statement start) become a blank
    /// without changing what the grammar reads?
    pub fn joinable(&self, i: usize) -> bool {
            let r = self;
        let t = &r.terms[i];
        if !(t.slot == Slot::Mws && t.sep == "\n" && i > 0 && r.stmts.iter().any(|e| e.first == i)) {
            return false;
        }
        // (a label directly followed by `{` on the same line would become a named block: not a layout change)
        let prev_is_label_colon = r.terms[i - 1].text == ":";
        // the line break IS the grammar's separator in two places, so removing it there is not a
        // layout change: after an instruction without operand (`asl` + `asl $10` would read the
        // second mnemonic as the first one's operand), and before a statement that starts with an
        // operator character (`* = $1000` would continue the previous expression)
        let prev_is_bare_mnemonic =
            r.terms[i - 1].kind == Kind::Mnemonic && r.stmts.iter().any(|e| e.first == i - 1 && e.end == i);
        let starts_with_operator = matches!(t.kind, Kind::Op) || t.text.starts_with('*');
        !(prev_is_label_colon && t.text == "{") && !prev_is_bare_mnemonic && !starts_with_operator
    }
}
