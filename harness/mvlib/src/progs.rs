//! Base program set covering every statement kind of the grammar in nesting contexts; shared by
//! the layout (C08) and formatter (C12, C13, C17) engines.

use crate::grammar::*;
use crate::isa::Form;

pub const OTHER_ASM: &str = "foo: nop\nbar: { baz: rts }\n.const k = 3\n.macro mm(p) { lda #p }";

#[derive(Clone, Debug)]
pub struct Prog {
    pub name: String,
    pub stmts: Vec<Stmt>,
    /// true when the program is expected to assemble without diagnostics
    pub valid: bool,
}

fn p(name: &str, stmts: Vec<Stmt>) -> Prog {
    Prog {
        name: name.to_string(),
        stmts,
        valid: true,
    }
}

fn bad(name: &str, stmts: Vec<Stmt>) -> Prog {
    Prog {
        name: name.to_string(),
        stmts,
        valid: false,
    }
}

fn nop() -> Stmt {
    imp("nop")
}

pub fn base_programs() -> Vec<Prog> {
    let mut out = vec![];
    // every addressing form
    out.push(p(
        "forms",
        vec![
            ins("lda", Form::Imm, hex(0xab)),
            ins("lda", Form::Plain, hex(0x10)),
            ins("sta", Form::PlainX, hex(0xd020)),
            ins("ldx", Form::PlainY, hex(0x10)),
            ins("lda", Form::IndX, hex(0x10)),
            ins("sta", Form::IndY, hex(0xfe)),
            ins("jmp", Form::Ind, hex(0xfffc)),
            imp("asl"),
            ins("asl", Form::Plain, hex(0x10)),
            imp("rts"),
        ],
    ));
    out.push(p(
        "branches",
        vec![
            label("top"),
            imp("dex"),
            ins("bne", Form::Plain, id("top")),
            ins("beq", Form::Plain, id("done")),
            nop(),
            label("done"),
            imp("rts"),
        ],
    ));
    out.push(p(
        "exprs",
        vec![
            konst("c", num(5)),
            label("lbl"),
            byte(vec![
                bin(num(1), "+", num(2)),
                bin(num(6), "*", num(2)),
                bin(num(7), "/", num(2)),
                bin(num(7), "%", num(4)),
                bin(num(1), "<<", num(3)),
                bin(num(64), ">>", num(2)),
                bin(num(5), "^", num(1)),
                bin(num(9), "-", num(2)),
            ]),
            byte(vec![
                bin(id("c"), "==", num(5)),
                bin(id("c"), "!=", num(5)),
                bin(id("c"), ">=", num(5)),
                bin(id("c"), "<=", num(4)),
                bin(id("c"), ">", num(4)),
                bin(id("c"), "<", num(4)),
                bin(num(1), "&&", num(0)),
                bin(num(1), "||", num(0)),
            ]),
            word(vec![
                bin(paren(bin(num(1), "+", num(2))), "*", num(3)),
                lo("lbl"),
                hi("lbl"),
                Expr::Not(Box::new(id("c"))),
                Expr::Neg(Box::new(id("c"))),
                Expr::Pc,
            ]),
            byte(vec![lit("%101"), lit("$ff"), lit("007"), lit("true"), lit("false")]),
            byte(vec![
                Expr::Call("defined".into(), vec![id("c")]),
                Expr::Call("defined".into(), vec![id("nope")]),
            ]),
        ],
    ));
    out.push(p(
        "strings",
        vec![
            konst("s", string("ab")),
            konst("t", bin(id("s"), "+", string("cd"))),
            Stmt::Text {
                encoding: None,
                value: string("x{s}y"),
            },
            Stmt::Text {
                encoding: Some("ascii"),
                value: id("t"),
            },
            Stmt::Text {
                encoding: Some("petscii"),
                value: string("b"),
            },
            Stmt::Text {
                encoding: Some("petscreen"),
                value: string("c"),
            },
            byte(vec![bin(id("s"), "==", string("ab"))]),
        ],
    ));
    out.push(p(
        "scopes",
        vec![
            label_block(
                "a",
                vec![
                    label("x"),
                    nop(),
                    label_block(
                        "b",
                        vec![
                            ins("lda", Form::Plain, id("super.x")),
                            ins("lda", Form::Plain, id("a.x")),
                            ins("jmp", Form::Plain, id("super.super.a")),
                        ],
                    ),
                ],
            ),
            Stmt::Braces(vec![imp("dex"), ins("bne", Form::Plain, id("-")), ins("beq", Form::Plain, id("+")), nop()]),
            ins("jmp", Form::Plain, id("a.b")),
        ],
    ));
    out.push(p(
        "vars",
        vec![
            konst("c", num(1)),
            Stmt::Var {
                name: "v".into(),
                value: bin(id("c"), "+", num(1)),
            },
            byte(vec![id("v")]),
            Stmt::Var {
                name: "v".into(),
                value: num(3),
            },
            byte(vec![id("v")]),
        ],
    ));
    out.push(p(
        "pc-align",
        vec![
            Stmt::PcSet(hex(0x1000)),
            nop(),
            Stmt::Align(num(4)),
            label("l"),
            nop(),
            Stmt::PcSet(bin(Expr::Pc, "+", num(2))),
            word(vec![id("l")]),
        ],
    ));
    out.push(p(
        "loop",
        vec![Stmt::Loop {
            count: num(3),
            body: vec![ins("lda", Form::Imm, id("index")), Stmt::Loop { count: num(2), body: vec![nop()] }],
        }],
    ));
    out.push(p(
        "if",
        vec![
            konst("c", num(1)),
            Stmt::If {
                cond: id("c"),
                then: vec![nop()],
                els: Some(vec![imp("brk")]),
            },
            Stmt::If {
                cond: bin(id("c"), "==", num(2)),
                then: vec![nop()],
                els: Some(vec![Stmt::If {
                    cond: Expr::Call("defined".into(), vec![id("zz")]),
                    then: vec![imp("brk")],
                    els: None,
                }, imp("rts")]),
            },
        ],
    ));
    out.push(p(
        "macro",
        vec![
            Stmt::MacroDef {
                name: "m".into(),
                params: vec!["a".into(), "b".into()],
                body: vec![ins("lda", Form::Imm, id("a")), ins("ldx", Form::Imm, id("b")), label("in"), ins("jmp", Form::Plain, id("in"))],
            },
            Stmt::MacroCall {
                name: "m".into(),
                args: vec![num(1), bin(num(2), "+", num(3))],
            },
            Stmt::MacroDef {
                name: "z".into(),
                params: vec![],
                body: vec![],
            },
            Stmt::MacroCall {
                name: "z".into(),
                args: vec![],
            },
            Stmt::MacroCall {
                name: "m".into(),
                args: vec![hex(0x10), num(0)],
            },
        ],
    ));
    out.push(p(
        "segments",
        vec![
            Stmt::Define {
                kind: "bank",
                pairs: vec![("name".into(), string("b")), ("fill".into(), num(0))],
            },
            Stmt::Define {
                kind: "segment",
                pairs: vec![
                    ("name".into(), string("s1")),
                    ("start".into(), hex(0x1000)),
                    ("bank".into(), string("b")),
                ],
            },
            Stmt::Define {
                kind: "segment",
                pairs: vec![
                    ("name".into(), string("s2")),
                    ("start".into(), id("segments.s1.end")),
                    ("pc".into(), hex(0x8000)),
                    ("write".into(), lit("true")),
                    ("bank".into(), string("b")),
                ],
            },
            nop(),
            Stmt::Segment {
                name: string("s2"),
                block: Some(vec![label("in2"), ins("jmp", Form::Plain, id("in2"))]),
            },
            Stmt::Segment {
                name: string("s1"),
                block: None,
            },
            ins("jmp", Form::Plain, id("in2")),
        ],
    ));
    out.push(p(
        "imports",
        vec![
            Stmt::Import {
                args: ImportArgs::All(None),
                file: "other.asm".into(),
                block: None,
            },
            ins("jsr", Form::Plain, id("foo")),
            ins("jsr", Form::Plain, id("bar.baz")),
            Stmt::MacroCall {
                name: "mm".into(),
                args: vec![id("k")],
            },
        ],
    ));
    out.push(p(
        "imports-as",
        vec![
            Stmt::Import {
                args: ImportArgs::Specific(vec![("foo".into(), Some("f2".into())), ("bar".into(), None)]),
                file: "other.asm".into(),
                block: Some(vec![konst("q", num(1))]),
            },
            Stmt::Import {
                args: ImportArgs::All(Some("ns".into())),
                file: "other.asm".into(),
                block: None,
            },
            ins("jsr", Form::Plain, id("f2")),
            ins("jsr", Form::Plain, id("bar.baz")),
            ins("jsr", Form::Plain, id("ns.foo")),
        ],
    ));
    out.push(p(
        "tests",
        vec![
            nop(),
            Stmt::Test {
                name: "t".into(),
                body: vec![
                    ins("lda", Form::Imm, num(1)),
                    Stmt::Assert {
                        cond: bin(id("cpu.a"), "==", num(1)),
                        msg: None,
                    },
                    Stmt::Assert {
                        cond: num(1),
                        msg: Some("msg".into()),
                    },
                    Stmt::Trace(None),
                    Stmt::Trace(Some(vec![id("cpu.a"), num(1)])),
                    imp("brk"),
                ],
            },
        ],
    ));
    out.push(p(
        "data",
        vec![
            byte(vec![num(1), num(2), num(3)]),
            word(vec![hex(0x1234), num(1)]),
            dword(vec![hex(0x12345678 - 0x12340000), num(70000)]),
        ],
    ));
    out.push(p(
        "nested",
        vec![label_block(
            "outer",
            vec![
                Stmt::Loop {
                    count: num(2),
                    body: vec![Stmt::If {
                        cond: bin(id("index"), "==", num(1)),
                        then: vec![Stmt::Braces(vec![nop()])],
                        els: Some(vec![imp("brk")]),
                    }],
                },
                Stmt::MacroDef {
                    name: "im".into(),
                    params: vec!["q".into()],
                    body: vec![Stmt::If {
                        cond: id("q"),
                        then: vec![ins("lda", Form::Imm, id("q"))],
                        els: None,
                    }],
                },
                Stmt::MacroCall {
                    name: "im".into(),
                    args: vec![num(1)],
                },
            ],
        )],
    ));
    // programs with diagnostics (messages must not depend on layout)
    out.push(bad("undef", vec![nop(), ins("lda", Form::Plain, id("nope")), ins("jmp", Form::Plain, id("nope2"))]));
    out.push(bad("redef", vec![label("l"), nop(), label("l")]));
    out.push(bad("badmode", vec![ins("lda", Form::Ind, hex(0x10)), ins("stx", Form::PlainX, hex(0x10))]));
    out.push(bad("imm-range", vec![ins("lda", Form::Imm, num(256))]));
    out.push(bad(
        "arity",
        vec![
            Stmt::MacroDef {
                name: "m".into(),
                params: vec!["a".into()],
                body: vec![nop()],
            },
            Stmt::MacroCall {
                name: "m".into(),
                args: vec![],
            },
        ],
    ));
    out.push(bad("not-int", vec![konst("s", string("ab")), ins("lda", Form::Imm, bin(id("s"), "+", string("c")))]));
    out.push(bad("unknown-macro", vec![Stmt::MacroCall { name: "nomacro".into(), args: vec![num(1)] }]));
    out.push(bad("unknown-segment", vec![Stmt::Segment { name: string("nos"), block: Some(vec![nop()]) }]));
    out
}
